"""R18 TYPE -- lightweight class inference for repo classes (constructor flows, isinstance narrowing,
field point-to sets, return classes).  A result of None means "open" (unknown): no conclusion is drawn."""
import ast

from .flow import walk, assigned_pairs
from .model import Func, Cls, norm

OPEN = None


class Types:
    def __init__(self, repo):
        self.repo = repo
        self.fields = {}       # (pkg, field) -> set(Cls) | OPEN
        self.rets = {}         # func key -> set(Cls) | OPEN
        self._field_sites = {}
        self._collect_sites()
        for _ in range(5):
            changed = False
            for key, sites in self._field_sites.items():
                new = self._solve_field(key, sites)
                if new != self.fields.get(key, set()):
                    self.fields[key] = new
                    changed = True
            for f in self.repo.all_funcs():
                new = self._solve_ret(f)
                if new != self.rets.get(f.key(), set()):
                    self.rets[f.key()] = new
                    changed = True
            if not changed:
                break

    # ------------------------------------------------------------------ collection
    def _collect_sites(self):
        for f in self.repo.all_funcs():
            for st, ctx in walk(f.node):
                if isinstance(st, ast.Assign):
                    for t, v in assigned_pairs(st):
                        if isinstance(t, ast.Attribute):
                            self._field_sites.setdefault((f.pkg, t.attr), []).append((f, v, ctx))
                elif isinstance(st, ast.AugAssign) and isinstance(st.target, ast.Attribute):
                    self._field_sites.setdefault((f.pkg, st.target.attr), []).append((f, ('aug',), ctx))

    def _solve_field(self, key, sites):
        out = set()
        for f, v, ctx in sites:
            if isinstance(v, tuple):
                if v[0] == 'aug':
                    continue
                return OPEN if False else self._join(out, OPEN)
            c = self.expr_classes(f, v, ctx.conds)
            if c is OPEN:
                return OPEN
            out |= c
        return out

    @staticmethod
    def _join(a, b):
        if a is OPEN or b is OPEN:
            return OPEN
        return a | b

    def _solve_ret(self, f):
        out = set()
        any_ret = False
        for st, ctx in walk(f.node):
            vals = []
            if isinstance(st, ast.Return) and st.value is not None:
                vals = [st.value]
            elif isinstance(st, ast.Expr) and isinstance(st.value, (ast.Yield,)) and st.value.value is not None:
                vals = [st.value.value]
            for v in vals:
                any_ret = True
                if isinstance(v, ast.Tuple):
                    return OPEN
                c = self.expr_classes(f, v, ctx.conds)
                if c is OPEN:
                    return OPEN
                out |= c
        return out

    # ------------------------------------------------------------------ expressions
    def narrowed(self, name, conds):
        """Classes implied for `name` by enclosing isinstance tests (positive polarity)."""
        out = None
        for test, pol in conds:
            for n in ([test] if not isinstance(test, ast.BoolOp) else test.values):
                neg = False
                m = n
                if isinstance(m, ast.UnaryOp) and isinstance(m.op, ast.Not):
                    neg = True
                    m = m.operand
                if isinstance(m, ast.Call) and isinstance(m.func, ast.Name) and m.func.id == 'isinstance' \
                        and len(m.args) == 2 and isinstance(m.args[0], ast.Name) and m.args[0].id == name:
                    if (pol and not neg) or (not pol and neg):
                        return m.args[1]
        return out

    def class_refs(self, f, node):
        elts = node.elts if isinstance(node, ast.Tuple) else [node]
        out = set()
        for e in elts:
            if isinstance(e, ast.Name):
                r = self.repo.resolve_local(f, e.id)
                if isinstance(r, Cls):
                    out.add(r)
                else:
                    return OPEN
            else:
                return OPEN
        return out

    def expr_classes(self, f, n, conds=(), depth=0, visiting=None):
        visiting = visiting or frozenset()
        return self._ec(f, n, conds, depth, visiting)

    def _ec(self, f, n, conds, depth, visiting):
        """set of repo classes the expression may be an instance of (non-repo values contribute nothing),
        or OPEN when it cannot be bounded."""
        if depth > 6:
            return OPEN
        if isinstance(n, ast.Constant):
            return set()
        if isinstance(n, ast.Name):
            if n.id == 'self' and f.cls is not None:
                return {f.cls}
            ref = self.narrowed(n.id, conds)
            if ref is not None:
                return self.class_refs(f, ref)
            if n.id in f.params:
                # guard-by-raise at the top of the function: if not isinstance(p, K): raise
                for st, ctx in walk(f.node):
                    if isinstance(st, ast.If) and not ctx.conds and st.body and isinstance(st.body[-1], ast.Raise):
                        t = st.test
                        if isinstance(t, ast.UnaryOp) and isinstance(t.op, ast.Not) and isinstance(t.operand, ast.Call) \
                                and norm(t.operand.func) == 'isinstance' and norm(t.operand.args[0]) == n.id:
                            return self.class_refs(f, t.operand.args[1])
                return OPEN
            # local: union over its definitions
            if n.id in visiting:
                return set()
            out = set()
            found = False
            for st, ctx in walk(f.node):
                if isinstance(st, ast.Assign):
                    for t, v in assigned_pairs(st):
                        if isinstance(t, ast.Name) and t.id == n.id:
                            found = True
                            if isinstance(v, tuple):
                                return OPEN
                            c = self._ec(f, v, ctx.conds, depth + 1, visiting | {n.id})
                            if c is OPEN:
                                return OPEN
                            out |= c
                elif isinstance(st, ast.For):
                    for t in ast.walk(st.target):
                        if isinstance(t, ast.Name) and t.id == n.id:
                            found = True
                            c = self.iter_classes(f, st.iter, ctx.conds, depth + 1, visiting | {n.id})
                            if c is OPEN:
                                return OPEN
                            out |= c
            return out if found else OPEN
        if isinstance(n, ast.Attribute):
            props = [m for m in self.repo.methods_named(f.pkg, n.attr) if m.is_property]
            if props:
                out = set()
                for m in props:
                    r = self.rets.get(m.key(), set())
                    if r is OPEN:
                        return OPEN
                    out |= r
                return out
            key = (f.pkg, n.attr)
            if key in self._field_sites:
                return self.fields.get(key, set())
            return OPEN
        if isinstance(n, ast.IfExp):
            return self._join(self._ec(f, n.body, conds, depth + 1, visiting), self._ec(f, n.orelse, conds, depth + 1, visiting))
        if isinstance(n, ast.Call):
            fn = n.func
            if isinstance(fn, ast.Name):
                r = self.repo.resolve_local(f, fn.id)
                if isinstance(r, Cls):
                    return {r}
                if isinstance(r, Func):
                    return self.rets.get(r.key(), set())
                return set() if fn.id in ('int', 'float', 'len', 'list', 'tuple', 'str', 'max', 'min', 'range', 'set') else OPEN
            if isinstance(fn, ast.Call) and isinstance(fn.func, ast.Name) and fn.func.id == 'type' and f.cls is not None:
                return {f.cls}
            if isinstance(fn, ast.Attribute):
                root = fn.value
                while isinstance(root, ast.Attribute):
                    root = root.value
                if isinstance(root, ast.Name):
                    r = self.repo.resolve_local(f, root.id)
                    if isinstance(r, tuple) and r[0] == 'ext' and root.id not in f.params:
                        return set()       # library call: not a repo instance
                recv = self._ec(f, fn.value, conds, depth + 1, visiting)
                if fn.attr == 'copy':
                    return recv
                if recv is OPEN or not recv:
                    ms = self.repo.methods_named(f.pkg, fn.attr)
                    if not ms:
                        return set() if recv is not OPEN else OPEN
                    if recv is not OPEN and not recv:
                        return set()
                else:
                    ms = []
                    for c in recv:
                        for k in self.repo.subclasses(c):
                            m = self.repo.lookup_method(k, fn.attr)
                            if m is not None and m not in ms:
                                ms.append(m)
                    if not ms:
                        return set()
                out = set()
                for m in ms:
                    if m.name.startswith('set_') or self._returns_self(m):
                        rc = recv if recv is not OPEN and recv else {m.cls}
                        out |= rc
                        continue
                    r = self.rets.get(m.key(), set())
                    if r is OPEN:
                        return OPEN
                    out |= r
                return out
            return OPEN
        if isinstance(n, ast.BinOp):
            names = {ast.Add: ('__add__', '__radd__'), ast.Sub: ('__sub__', '__rsub__'), ast.Mult: ('__mul__', '__rmul__'),
                     ast.Div: ('__truediv__', '__rtruediv__'), ast.MatMult: ('__matmul__', '__rmatmul__')}.get(type(n.op))
            if names is None:
                return set()
            lc = self._ec(f, n.left, conds, depth + 1, visiting)
            rc = self._ec(f, n.right, conds, depth + 1, visiting)
            out = set()
            done = False
            if lc is not OPEN and lc:
                for c in lc:
                    m = self.repo.lookup_method(c, names[0])
                    if m is None:
                        continue
                    r = self.rets.get(m.key(), set())
                    if r is OPEN:
                        return OPEN
                    out |= r
                    done = True
            if not done and rc is not OPEN and rc:
                for c in rc:
                    m = self.repo.lookup_method(c, names[1])
                    if m is None:
                        continue
                    r = self.rets.get(m.key(), set())
                    if r is OPEN:
                        return OPEN
                    out |= r
                    done = True
            if done:
                return out
            if lc is OPEN or rc is OPEN:
                return OPEN
            return set()
        if isinstance(n, ast.UnaryOp):
            if isinstance(n.op, ast.USub):
                c = self._ec(f, n.operand, conds, depth + 1, visiting)
                if c is OPEN or not c:
                    return c
                out = set()
                for k in c:
                    m = self.repo.lookup_method(k, '__neg__')
                    if m is None:
                        return OPEN
                    r = self.rets.get(m.key(), set())
                    if r is OPEN:
                        return OPEN
                    out |= r
                return out
            return OPEN
        if isinstance(n, ast.Subscript):
            return OPEN
        if isinstance(n, (ast.List, ast.Tuple, ast.ListComp, ast.Dict, ast.JoinedStr)):
            return set()
        return OPEN

    def _returns_self(self, m):
        rets = [st.value for st, _ in walk(m.node) if isinstance(st, ast.Return) and st.value is not None]
        return bool(rets) and all(isinstance(r, ast.Name) and r.id == 'self' for r in rets)

    def iter_classes(self, f, it, conds, depth, visiting=frozenset()):
        """Element classes of an iterable expression."""
        if isinstance(it, ast.Call):
            fn = it.func
            if isinstance(fn, ast.Name) and fn.id in ('enumerate', 'reversed', 'list', 'iter') and it.args:
                return self.iter_classes(f, it.args[0], conds, depth, visiting)
            return self._ec(f, it, conds, depth, visiting)   # generators: yield classes are the return classes
        return OPEN

    # ------------------------------------------------------------------ convenience
    def method_targets(self, f, call, conds=()):
        """(list of Func, 'typed') when the receiver classes are known and all define the method,
        (missing classes, 'missing') when known classes exist but none defines it, else (None, 'open')."""
        memo = self.__dict__.setdefault('_mt_memo', {})
        key = (id(call), tuple(id(t) for t, _ in conds))
        if key in memo:
            return memo[key]
        r = memo[key] = self._method_targets(f, call, conds)
        return r

    def _method_targets(self, f, call, conds=()):
        fn = call.func
        if not isinstance(fn, ast.Attribute):
            return None, 'open'
        recv = self.expr_classes(f, fn.value, conds)
        if recv is OPEN or not recv:
            return None, 'open'
        ms, missing = [], []
        for c in recv:
            found = False
            for k in self.repo.subclasses(c):
                m = self.repo.lookup_method(k, fn.attr)
                if m is not None:
                    found = True
                    if m not in ms:
                        ms.append(m)
            if not found:
                missing.append(c)
        if not ms:
            return missing, 'missing'
        return ms, 'typed'
