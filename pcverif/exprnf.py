"""Normal forms of small pure expressions: complete truth tables computed by the checker's own
interpreter over the AST (no repository code is executed), and helpers to constant-fold literals."""
import ast
import itertools

from .model import norm


class Undecidable(Exception):
    pass


def _floordiv(a, b):
    if b == 0:
        raise Undecidable('division by zero in folded expression')
    return a // b


_BIN = {
    ast.Add: lambda a, b: a + b, ast.Sub: lambda a, b: a - b, ast.Mult: lambda a, b: a * b,
    ast.FloorDiv: _floordiv, ast.Mod: lambda a, b: a % b if b else (_ for _ in ()).throw(Undecidable('mod 0')),
    ast.Pow: lambda a, b: a ** b, ast.Div: lambda a, b: a / b if b else (_ for _ in ()).throw(Undecidable('div 0')),
    ast.BitAnd: lambda a, b: a & b, ast.BitOr: lambda a, b: a | b, ast.BitXor: lambda a, b: a ^ b,
    ast.LShift: lambda a, b: a << b, ast.RShift: lambda a, b: a >> b,
}
_CMP = {
    ast.Eq: lambda a, b: a == b, ast.NotEq: lambda a, b: a != b, ast.Lt: lambda a, b: a < b,
    ast.LtE: lambda a, b: a <= b, ast.Gt: lambda a, b: a > b, ast.GtE: lambda a, b: a >= b,
    ast.Is: lambda a, b: a is b, ast.IsNot: lambda a, b: a is not b,
    ast.In: lambda a, b: a in b, ast.NotIn: lambda a, b: a not in b,
}


def ev(node, env, sub=None, call=None, attr=None):
    """Evaluate a pure expression AST in `env`.  `sub(node, env, rec)`, `call(node, env, rec)` and
    `attr(node, env, rec)` are optional hooks for Subscript / Call / Attribute nodes."""
    def rec(n):
        if isinstance(n, ast.Constant):
            return n.value
        if isinstance(n, ast.Name):
            if n.id in env:
                return env[n.id]
            if n.id in ('True', 'False', 'None'):
                return {'True': True, 'False': False, 'None': None}[n.id]
            raise Undecidable('free name %s' % n.id)
        if isinstance(n, ast.BinOp):
            op = _BIN.get(type(n.op))
            if op is None:
                raise Undecidable('operator %s' % type(n.op).__name__)
            a, b = rec(n.left), rec(n.right)
            try:
                return op(a, b)
            except Undecidable:
                raise
            except Exception as e:
                raise Undecidable('%s: %s' % (norm(n), e))
        if isinstance(n, ast.UnaryOp):
            v = rec(n.operand)
            if isinstance(n.op, ast.USub):
                return -v
            if isinstance(n.op, ast.UAdd):
                return +v
            if isinstance(n.op, ast.Not):
                return not v
            if isinstance(n.op, ast.Invert):
                return (not v) if isinstance(v, bool) else ~v
        if isinstance(n, ast.BoolOp):
            if isinstance(n.op, ast.And):
                r = True
                for v in n.values:
                    r = rec(v)
                    if not r:
                        return r
                return r
            r = False
            for v in n.values:
                r = rec(v)
                if r:
                    return r
            return r
        if isinstance(n, ast.Compare):
            left = rec(n.left)
            for op, c in zip(n.ops, n.comparators):
                right = rec(c)
                f = _CMP.get(type(op))
                if f is None:
                    raise Undecidable('comparison %s' % type(op).__name__)
                if not f(left, right):
                    return False
                left = right
            return True
        if isinstance(n, ast.IfExp):
            return rec(n.body) if rec(n.test) else rec(n.orelse)
        if isinstance(n, (ast.Tuple, ast.List)):
            return tuple(rec(e) for e in n.elts)
        if isinstance(n, ast.Subscript):
            if sub is not None:
                return sub(n, env, rec)
            if isinstance(n.value, (ast.Dict, ast.Tuple, ast.List, ast.Constant, ast.Name)):
                b = rec(n.value)            # a literal table (or a local bound to one) indexed by a value the evaluator knows
                if isinstance(b, (dict, tuple, str)):
                    try:
                        return b[rec(n.slice)]
                    except (KeyError, IndexError, TypeError) as e:
                        raise Undecidable('subscript %s: %s' % (norm(n), e))
            raise Undecidable('subscript %s' % norm(n))
        if isinstance(n, ast.Dict) and all(k is not None for k in n.keys):
            try:
                return {rec(k): rec(v) for k, v in zip(n.keys, n.values)}
            except TypeError as e:
                raise Undecidable('dict literal: %s' % e)
        if isinstance(n, ast.Call):
            if call is not None:
                return call(n, env, rec)
            raise Undecidable('call %s' % norm(n))
        if isinstance(n, ast.Attribute):
            if attr is not None:
                return attr(n, env, rec)
            raise Undecidable('attribute %s' % norm(n))
        if isinstance(n, ast.Slice):
            return slice(None if n.lower is None else rec(n.lower), None if n.upper is None else rec(n.upper),
                         None if n.step is None else rec(n.step))
        if isinstance(n, (ast.GeneratorExp, ast.ListComp)):
            # comprehension over iterables the evaluator can produce: the targets are bound in a copy of the environment
            out = []

            def loop(k, e2):
                if k == len(n.generators):
                    out.append(ev(n.elt, e2, sub=sub, call=call, attr=attr))
                    return
                g = n.generators[k]
                for v in ev(g.iter, e2, sub=sub, call=call, attr=attr):
                    e3 = dict(e2)
                    if isinstance(g.target, ast.Name):
                        e3[g.target.id] = v
                    elif isinstance(g.target, (ast.Tuple, ast.List)) and all(isinstance(t, ast.Name) for t in g.target.elts):
                        vs = tuple(v)
                        if len(vs) != len(g.target.elts):
                            raise Undecidable('unpack in comprehension')
                        for t, x in zip(g.target.elts, vs):
                            e3[t.id] = x
                    else:
                        raise Undecidable('comprehension target')
                    if all(ev(c, e3, sub=sub, call=call, attr=attr) for c in g.ifs):
                        loop(k + 1, e3)
            try:
                loop(0, dict(env))
            except TypeError as e:
                raise Undecidable('comprehension: %s' % e)
            return tuple(out)
        raise Undecidable('expression kind %s' % type(n).__name__)
    return rec(node)


def fold_literal(node, aliases=('np', 'numpy', 'torch')):
    """Constant-fold a literal array expression such as np.array([[0,1],[1,0]]) / np.array([0,2]) /
    torch.tensor([...]) / a nested list, to nested tuples of numbers.  Raises Undecidable otherwise."""
    if isinstance(node, ast.Call):
        fn = norm(node.func)
        base = fn.split('.')[-1]
        if base in ('array', 'tensor', 'asarray') and node.args:
            return fold_literal(node.args[0], aliases)
        if base in ('astype', 'to', 'copy', 'clone') and isinstance(node.func, ast.Attribute):
            return fold_literal(node.func.value, aliases)
        raise Undecidable('not a literal: %s' % norm(node))
    if isinstance(node, (ast.List, ast.Tuple)):
        return tuple(fold_literal(e, aliases) for e in node.elts)
    try:
        v = ev(node, {})
    except Undecidable:
        raise
    if isinstance(v, (int, float, complex, bool)):
        return v
    raise Undecidable('not a literal: %s' % norm(node))


def truth_table(fn, nvars, domain=(0, 1)):
    return tuple(fn(*bits) for bits in itertools.product(domain, repeat=nvars))


def affine_in(node, var, env=None, points=(0, 1, 2, 5)):
    """If `node` is affine in the integer variable `var` (other names taken from env), return (a, b) with
    value = a*var + b, else None.  Decided by evaluating at a few points and checking linearity."""
    env = dict(env or {})
    vals = []
    for p in points:
        env[var] = p
        try:
            v = ev(node, env)
        except Undecidable:
            return None
        if not isinstance(v, int) or isinstance(v, bool):
            return None
        vals.append(v)
    b = vals[0] - points[0] * (vals[1] - vals[0]) // (points[1] - points[0]) if points[1] != points[0] else None
    a = (vals[1] - vals[0]) // (points[1] - points[0])
    b = vals[0] - a * points[0]
    for p, v in zip(points, vals):
        if a * p + b != v:
            return None
    return (a, b)


def strip_calls(node, names):
    """Strip shape-only method calls (e.g. .view(...), .unsqueeze(...)) from the outside of an expression."""
    while isinstance(node, ast.Call) and isinstance(node.func, ast.Attribute) and node.func.attr in names:
        node = node.func.value
    return node
