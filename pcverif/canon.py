"""Alpha-normalisation of locals.

The rules find most locals by their role (def-use, return tuples, consuming calls), but the instances confirmed by hand
were confirmed with the spelling the locals have on the reference tree.  A rename of a local is behaviour-preserving and
must never change a verdict.  Before any rule runs, every function is therefore brought to a normal form: each local is
identified by a *structural signature* (the ordered list of its definition sites, with every local name inside the defining
expressions anonymised, parameters / globals / attributes kept) and, when the signature matches the one recorded for the
reference tree, the local is given its reference name.  The renaming is applied to all occurrences of the identifier in the
function at once, only when it is injective and captures nothing, so the analysed program is alpha-equivalent to the source:
whatever a rule decides about the normal form holds for the source as written.  A local whose signature is unknown (new
code, changed definition) keeps its spelling.

The table `canon_table.json` is regenerated with `bin/mkcanon` from the reference tree; it contains no program text, only
signature digests and names.
"""
import ast
import hashlib
import json
import os

TABLE_PATH = os.path.join(os.path.dirname(os.path.abspath(__file__)), 'canon_table.json')
_COMP = (ast.ListComp, ast.SetComp, ast.DictComp, ast.GeneratorExp)


def _params(fn):
    a = fn.args
    ps = {x.arg for x in a.posonlyargs + a.args + a.kwonlyargs}
    if a.vararg:
        ps.add(a.vararg.arg)
    if a.kwarg:
        ps.add(a.kwarg.arg)
    return ps


def _param_list(fn):
    a = fn.args
    return [[x.arg for x in a.posonlyargs + a.args], [x.arg for x in a.kwonlyargs],
            a.vararg.arg if a.vararg else None, a.kwarg.arg if a.kwarg else None]


def _rename_params(fn, ref, kwnames):
    """Parameters are identified by position.  A parameter spelled differently from the reference is renamed only when no
    call anywhere in the analysed packages passes a keyword with the old or the new name (so call binding is unaffected) and
    nothing is captured."""
    cur = _param_list(fn)
    if [len(cur[0]), len(cur[1]), cur[2] is None, cur[3] is None] != [len(ref[0]), len(ref[1]), ref[2] is None, ref[3] is None]:
        return {}
    flat_c = cur[0] + cur[1] + [x for x in cur[2:] if x]
    flat_r = ref[0] + ref[1] + [x for x in ref[2:] if x]
    m = {a: b for a, b in zip(flat_c, flat_r) if a != b}
    if not m:
        return {}
    if any(a in kwnames or b in kwnames for a, b in m.items()):
        return {}
    every = {n.id for n in ast.walk(fn) if isinstance(n, ast.Name)} | set(flat_c)
    new = list(m.values())
    if len(set(new)) != len(new) or any(y in every and y not in m for y in new):
        return {}
    # an inner scope that rebinds one of the names would be changed in meaning: give up
    for n in ast.walk(fn):
        if n is not fn and isinstance(n, (ast.FunctionDef, ast.AsyncFunctionDef, ast.Lambda)):
            if _params(n) & (set(m) | set(new)):
                return {}
    a = fn.args
    for x in a.posonlyargs + a.args + a.kwonlyargs + [y for y in (a.vararg, a.kwarg) if y]:
        if x.arg in m:
            x.arg = m[x.arg]
    for n in ast.walk(fn):
        if isinstance(n, ast.Name) and n.id in m:
            n.id = m[n.id]
    return m


def _own_nodes(fn):
    """Nodes of fn's own scope: nested defs / lambdas / classes are not entered (their bodies are other scopes), comprehensions
    are entered (their free names are ours).  Returns (nodes, names bound by comprehensions, names bound in inner scopes,
    names occurring outside every comprehension)."""
    out, comp_targets, inner_bound, outside = [], set(), set(), set()
    stack = [(c, False) for c in ast.iter_child_nodes(fn)]
    while stack:
        n, in_comp = stack.pop()
        if isinstance(n, (ast.FunctionDef, ast.AsyncFunctionDef, ast.Lambda, ast.ClassDef)):
            if isinstance(n, (ast.FunctionDef, ast.AsyncFunctionDef)):
                inner_bound.add(n.name)
            if isinstance(n, (ast.FunctionDef, ast.AsyncFunctionDef, ast.Lambda)):
                inner_bound |= _params(n)
            for m in ast.walk(n):
                if isinstance(m, ast.Name) and isinstance(m.ctx, ast.Store):
                    inner_bound.add(m.id)
            continue
        if isinstance(n, _COMP):
            in_comp = True
            for g in n.generators:
                for m in ast.walk(g.target):
                    if isinstance(m, ast.Name):
                        comp_targets.add(m.id)
        if isinstance(n, ast.Name) and not in_comp:
            outside.add(n.id)
        out.append(n)
        stack.extend((c, in_comp) for c in ast.iter_child_nodes(n))
    return out, comp_targets, inner_bound, outside


def _anon(node, locs):
    """Text of an expression with every local name replaced by `_`."""
    class T(ast.NodeTransformer):
        def visit_Name(self, n):
            if n.id in locs:
                return ast.copy_location(ast.Name(id='_', ctx=n.ctx), n)
            return n
    import copy
    return ast.unparse(T().visit(copy.deepcopy(node)))


def signatures(fn):
    """{local: (digest, rank)} for the locals of fn's own scope that can be renamed safely, plus the set of all identifiers
    occurring anywhere in fn (for capture checks)."""
    nodes, comp_targets, inner_bound, outside = _own_nodes(fn)
    params = _params(fn)
    declared = set()
    for n in nodes:
        if isinstance(n, (ast.Global, ast.Nonlocal)):
            declared.update(n.names)
    stores = {}
    for n in nodes:
        if isinstance(n, ast.Name) and isinstance(n.ctx, (ast.Store, ast.Del)):
            stores.setdefault(n.id, (n.lineno, n.col_offset))
            if (n.lineno, n.col_offset) < stores[n.id]:
                stores[n.id] = (n.lineno, n.col_offset)
    locs = set(stores) - params - declared
    # a name that is also bound in an inner scope or by a comprehension is left alone (shadowing)
    safe = {x for x in locs if x not in comp_targets and x not in inner_bound and x != '_'}
    # a comprehension variable that occurs nowhere outside comprehensions can be renamed uniformly as well
    comp_only = {x for x in comp_targets if x not in outside and x not in params and x not in inner_bound and x not in declared and x != '_'}
    safe |= comp_only
    sites = {x: [] for x in safe}

    def add(target, kind, value_txt):
        if isinstance(target, ast.Name):
            if target.id in sites:
                sites[target.id].append((target.lineno, target.col_offset, kind, None, value_txt))
        elif isinstance(target, (ast.Tuple, ast.List)):
            for i, e in enumerate(target.elts):
                if isinstance(e, ast.Name) and e.id in sites:
                    sites[e.id].append((e.lineno, e.col_offset, kind, i, value_txt))
                elif isinstance(e, ast.Starred) and isinstance(e.value, ast.Name) and e.value.id in sites:
                    sites[e.value.id].append((e.value.lineno, e.value.col_offset, kind + '*', i, value_txt))

    for n in nodes:
        if isinstance(n, ast.Assign):
            v = _anon(n.value, locs)
            for t in n.targets:
                add(t, '=', v)
        elif isinstance(n, ast.AnnAssign) and n.value is not None:
            add(n.target, '=', _anon(n.value, locs))
        elif isinstance(n, ast.AugAssign):
            add(n.target, type(n.op).__name__ + '=', _anon(n.value, locs))
        elif isinstance(n, (ast.For, ast.AsyncFor)):
            add(n.target, 'for', _anon(n.iter, locs))
        elif isinstance(n, (ast.With, ast.AsyncWith)):
            for it in n.items:
                if it.optional_vars is not None:
                    add(it.optional_vars, 'with', _anon(it.context_expr, locs))
        elif isinstance(n, ast.NamedExpr):
            add(n.target, ':=', _anon(n.value, locs))
        elif isinstance(n, _COMP):
            for g in n.generators:
                add(g.target, 'comp', _anon(g.iter, locs))
    sigs = {}
    for x, ss in sites.items():
        if not ss:
            continue          # bound by import / except / del only: leave alone
        ss.sort()
        txt = repr([(k, i, v) for _, _, k, i, v in ss])
        sigs[x] = hashlib.sha1(txt.encode()).hexdigest()[:16]
    # rank inside a group of equal signatures: order of first binding
    groups = {}
    for x, d in sigs.items():
        groups.setdefault(d, []).append(x)
    out = {}
    for d, xs in groups.items():
        xs.sort(key=lambda x: stores[x])
        for k, x in enumerate(xs):
            out[x] = (d, k)
    every = {n.id for n in ast.walk(fn) if isinstance(n, ast.Name)} | params
    return out, every


def build_table(repo_root, live):
    table = {}
    for pkg, names in live.items():
        for name in names:
            rel = '%s/%s.py' % (pkg, name)
            tree = ast.parse(open(os.path.join(repo_root, rel), encoding='utf-8').read())
            for qual, fn in functions(tree):
                sg, _ = signatures(fn)
                table['%s::%s' % (rel, qual)] = {'params': _param_list(fn), 'locals': sorted([d, k, x] for x, (d, k) in sg.items())}
    return table


def functions(tree):
    def visit(body, prefix):
        for st in body:
            if isinstance(st, ast.ClassDef):
                yield from visit(st.body, prefix + st.name + '.')
            elif isinstance(st, (ast.FunctionDef, ast.AsyncFunctionDef)):
                yield prefix + st.name, st
                yield from visit(st.body, prefix + st.name + '.')
            elif isinstance(st, (ast.If, ast.For, ast.While, ast.With, ast.Try)):
                for fld in ('body', 'orelse', 'finalbody'):
                    yield from visit(getattr(st, fld, []) or [], prefix)
    yield from visit(tree.body, '')


_TABLE = None


def table():
    global _TABLE
    if _TABLE is None:
        if os.path.exists(TABLE_PATH):
            _TABLE = json.load(open(TABLE_PATH))
        else:
            _TABLE = {}
    return _TABLE


def normalise(rel, tree, kwnames=frozenset()):
    """Rename parameters and locals of every function of `tree` to their reference names (in place).  Returns the list of
    (qualname, {spelled: reference}) actually applied."""
    applied = []
    tb = table()
    for qual, fn in functions(tree):
        ref = tb.get('%s::%s' % (rel, qual))
        if not ref:
            continue
        pm = _rename_params(fn, ref['params'], kwnames)
        if pm:
            applied.append((qual, dict(pm)))
        want = {(d, k): x for d, k, x in ref['locals']}
        sg, every = signatures(fn)
        m = {}
        for x, dk in sg.items():
            y = want.get(dk)
            if y is not None and y != x:
                m[x] = y
        if not m:
            continue
        # injective, and no capture: a new name must not already occur in the function unless it is renamed away itself
        new = list(m.values())
        if len(set(new)) != len(new):
            continue
        if any(y in every and y not in m for y in new):
            continue
        for n in ast.walk(fn):
            if isinstance(n, ast.Name) and n.id in m:
                n.id = m[n.id]
        applied.append((qual, dict(m)))
    return applied
