"""Alpha-normalisation of locals.

The rules find most locals by their role (def-use, return tuples, consuming calls), but the instances confirmed by hand
were confirmed with the spelling the locals have on the reference tree.  A rename of a local is behaviour-preserving and
must never change a verdict.  Before any rule runs, every function is therefore brought to a normal form: each local is
identified by a *structural signature* (the ordered list of its definition sites, with every local name inside the defining
expressions anonymised, parameters / globals / attributes kept) and, when the signature matches the one recorded for the
reference tree, the local is given its reference name.  The renaming is applied to all occurrences of the identifier in the
function at once, only when it is injective and captures nothing, so the analysed program is alpha-equivalent to the source:
whatever a rule decides about the normal form holds for the source as written.  A local whose signature is unknown (new
code, changed definition) keeps its spelling.

The table `canon_table.json` is regenerated with `bin/mkcanon` from the reference tree; it contains no program text, only
signature digests and names.
"""
import ast
import copy
import hashlib
import json
import os

TABLE_PATH = os.path.join(os.path.dirname(os.path.abspath(__file__)), 'canon_table.json')
_COMP = (ast.ListComp, ast.SetComp, ast.DictComp, ast.GeneratorExp)


def _params(fn):
    a = fn.args
    ps = {x.arg for x in a.posonlyargs + a.args + a.kwonlyargs}
    if a.vararg:
        ps.add(a.vararg.arg)
    if a.kwarg:
        ps.add(a.kwarg.arg)
    return ps


def _param_list(fn):
    a = fn.args
    return [[x.arg for x in a.posonlyargs + a.args], [x.arg for x in a.kwonlyargs],
            a.vararg.arg if a.vararg else None, a.kwarg.arg if a.kwarg else None]


def _rename_params(fn, ref, kwnames):
    """Parameters are identified by position.  A parameter spelled differently from the reference is renamed only when no
    call anywhere in the analysed packages passes a keyword with the old or the new name (so call binding is unaffected) and
    nothing is captured."""
    cur = _param_list(fn)
    if [len(cur[0]), len(cur[1]), cur[2] is None, cur[3] is None] != [len(ref[0]), len(ref[1]), ref[2] is None, ref[3] is None]:
        return {}
    flat_c = cur[0] + cur[1] + [x for x in cur[2:] if x]
    flat_r = ref[0] + ref[1] + [x for x in ref[2:] if x]
    m = {a: b for a, b in zip(flat_c, flat_r) if a != b}
    if not m:
        return {}
    if any(a in kwnames or b in kwnames for a, b in m.items()):
        return {}
    every = {n.id for n in ast.walk(fn) if isinstance(n, ast.Name)} | set(flat_c)
    new = list(m.values())
    if len(set(new)) != len(new) or any(y in every and y not in m for y in new):
        return {}
    # an inner scope that rebinds one of the names would be changed in meaning: give up
    for n in ast.walk(fn):
        if n is not fn and isinstance(n, (ast.FunctionDef, ast.AsyncFunctionDef, ast.Lambda)):
            if _params(n) & (set(m) | set(new)):
                return {}
    a = fn.args
    for x in a.posonlyargs + a.args + a.kwonlyargs + [y for y in (a.vararg, a.kwarg) if y]:
        if x.arg in m:
            x.arg = m[x.arg]
    for n in ast.walk(fn):
        if isinstance(n, ast.Name) and n.id in m:
            n.id = m[n.id]
    return m


def _own_nodes(fn):
    """Nodes of fn's own scope: nested defs / lambdas / classes are not entered (their bodies are other scopes), comprehensions
    are entered (their free names are ours).  Returns (nodes, names bound by comprehensions, names bound in inner scopes,
    names occurring outside every comprehension)."""
    out, comp_targets, inner_bound, outside = [], set(), set(), set()
    stack = [(c, False) for c in ast.iter_child_nodes(fn)]
    while stack:
        n, in_comp = stack.pop()
        if isinstance(n, (ast.FunctionDef, ast.AsyncFunctionDef, ast.Lambda, ast.ClassDef)):
            if isinstance(n, (ast.FunctionDef, ast.AsyncFunctionDef)):
                inner_bound.add(n.name)
            if isinstance(n, (ast.FunctionDef, ast.AsyncFunctionDef, ast.Lambda)):
                inner_bound |= _params(n)
            for m in ast.walk(n):
                if isinstance(m, ast.Name) and isinstance(m.ctx, ast.Store):
                    inner_bound.add(m.id)
            continue
        if isinstance(n, _COMP):
            in_comp = True
            for g in n.generators:
                for m in ast.walk(g.target):
                    if isinstance(m, ast.Name):
                        comp_targets.add(m.id)
        if isinstance(n, ast.Name) and not in_comp:
            outside.add(n.id)
        out.append(n)
        stack.extend((c, in_comp) for c in ast.iter_child_nodes(n))
    return out, comp_targets, inner_bound, outside


def _anon(node, locs):
    """Text of an expression with every local name replaced by `_`."""
    class T(ast.NodeTransformer):
        def visit_Name(self, n):
            if n.id in locs:
                return ast.copy_location(ast.Name(id='_', ctx=n.ctx), n)
            return n
    import copy
    return ast.unparse(T().visit(copy.deepcopy(node)))


def signatures(fn):
    """{local: (digest, rank)} for the locals of fn's own scope that can be renamed safely, plus the set of all identifiers
    occurring anywhere in fn (for capture checks)."""
    nodes, comp_targets, inner_bound, outside = _own_nodes(fn)
    params = _params(fn)
    declared = set()
    for n in nodes:
        if isinstance(n, (ast.Global, ast.Nonlocal)):
            declared.update(n.names)
    stores = {}
    for n in nodes:
        if isinstance(n, ast.Name) and isinstance(n.ctx, (ast.Store, ast.Del)):
            stores.setdefault(n.id, (n.lineno, n.col_offset))
            if (n.lineno, n.col_offset) < stores[n.id]:
                stores[n.id] = (n.lineno, n.col_offset)
    locs = set(stores) - params - declared
    # a name that is also bound in an inner scope or by a comprehension is left alone (shadowing)
    safe = {x for x in locs if x not in comp_targets and x not in inner_bound and x != '_'}
    # a comprehension variable that occurs nowhere outside comprehensions can be renamed uniformly as well
    comp_only = {x for x in comp_targets if x not in outside and x not in params and x not in inner_bound and x not in declared and x != '_'}
    safe |= comp_only
    sites = {x: [] for x in safe}

    def add(target, kind, value_txt):
        if isinstance(target, ast.Name):
            if target.id in sites:
                sites[target.id].append((target.lineno, target.col_offset, kind, None, value_txt))
        elif isinstance(target, (ast.Tuple, ast.List)):
            for i, e in enumerate(target.elts):
                if isinstance(e, ast.Name) and e.id in sites:
                    sites[e.id].append((e.lineno, e.col_offset, kind, i, value_txt))
                elif isinstance(e, ast.Starred) and isinstance(e.value, ast.Name) and e.value.id in sites:
                    sites[e.value.id].append((e.value.lineno, e.value.col_offset, kind + '*', i, value_txt))

    for n in nodes:
        if isinstance(n, ast.Assign):
            v = _anon(n.value, locs)
            for t in n.targets:
                add(t, '=', v)
        elif isinstance(n, ast.AnnAssign) and n.value is not None:
            add(n.target, '=', _anon(n.value, locs))
        elif isinstance(n, ast.AugAssign):
            add(n.target, type(n.op).__name__ + '=', _anon(n.value, locs))
        elif isinstance(n, (ast.For, ast.AsyncFor)):
            add(n.target, 'for', _anon(n.iter, locs))
        elif isinstance(n, (ast.With, ast.AsyncWith)):
            for it in n.items:
                if it.optional_vars is not None:
                    add(it.optional_vars, 'with', _anon(it.context_expr, locs))
        elif isinstance(n, ast.NamedExpr):
            add(n.target, ':=', _anon(n.value, locs))
        elif isinstance(n, _COMP):
            for g in n.generators:
                add(g.target, 'comp', _anon(g.iter, locs))
    sigs = {}
    for x, ss in sites.items():
        if not ss:
            continue          # bound by import / except / del only: leave alone
        ss.sort()
        txt = repr([(k, i, v) for _, _, k, i, v in ss])
        sigs[x] = hashlib.sha1(txt.encode()).hexdigest()[:16]
    # rank inside a group of equal signatures: order of first binding
    groups = {}
    for x, d in sigs.items():
        groups.setdefault(d, []).append(x)
    out = {}
    for d, xs in groups.items():
        xs.sort(key=lambda x: stores[x])
        for k, x in enumerate(xs):
            out[x] = (d, k)
    every = {n.id for n in ast.walk(fn) if isinstance(n, ast.Name)} | params
    return out, every


def _plain_ranges(tree):
    """range(0, n) and range(0, n, 1) are range(n): one spelling (applied to the reference tree and to the analysed tree)."""
    for n in ast.walk(tree):
        if isinstance(n, ast.Call) and isinstance(n.func, ast.Name) and n.func.id == 'range' and not n.keywords:
            a = n.args
            if len(a) == 3 and isinstance(a[2], ast.Constant) and a[2].value == 1:
                a = n.args = a[:2]
            if len(a) == 2 and isinstance(a[0], ast.Constant) and a[0].value == 0 and not isinstance(a[0].value, bool):
                n.args = a[1:]


def build_table(repo_root, live):
    table = {}
    for pkg, names in live.items():
        for name in names:
            rel = '%s/%s.py' % (pkg, name)
            tree = ast.parse(open(os.path.join(repo_root, rel), encoding='utf-8').read())
            _plain_ranges(tree)
            for qual, fn in functions(tree):
                sg, _ = signatures(fn)
                table['%s::%s' % (rel, qual)] = {'params': _param_list(fn), 'locals': sorted([d, k, x] for x, (d, k) in sg.items())}
    return table


def functions(tree):
    def visit(body, prefix):
        for st in body:
            if isinstance(st, ast.ClassDef):
                yield from visit(st.body, prefix + st.name + '.')
            elif isinstance(st, (ast.FunctionDef, ast.AsyncFunctionDef)):
                yield prefix + st.name, st
                yield from visit(st.body, prefix + st.name + '.')
            elif isinstance(st, (ast.If, ast.For, ast.While, ast.With, ast.Try)):
                for fld in ('body', 'orelse', 'finalbody'):
                    yield from visit(getattr(st, fld, []) or [], prefix)
    yield from visit(tree.body, '')




# --------------------------------------------------------------------------------------------------------------------------
# second normal form: temporaries and one-expression helpers that the reference tree does not have are inlined
PURE_METHODS = {'copy', 'astype', 'reshape', 'view', 'unsqueeze', 'squeeze', 'sum', 'all', 'any', 'ge', 'gt', 'le', 'lt', 'nonzero',
                'flatten', 'tolist', 'item', 'clone', 'detach', 'to', 'format', 'join', 'items', 'keys', 'values', 'dot', 'long', 'float',
                'repeat', 'repeat_interleave', 'index', 'count', 'get', 'scatter', 'gather', 'masked_select', 'index_select',
                'logical_not', 'bool', 'type', 'size', 'dim', 'cpu', 'numpy', 'contiguous', 'expand', 'permute', 't', 'T'}
PURE_FUNCS = {'len', 'int', 'float', 'bool', 'range', 'list', 'tuple', 'str', 'abs', 'min', 'max', 'sum', 'sorted', 'reversed', 'enumerate',
              'zip', 'isinstance', 'round', 'type',
              # kernels of the packages that only read their arguments
              'acq', 'ipow', 'p0', 'ps0', 'acq_mat', 'acq_grid', 'ipow_product', 'front', 'condense', 'mask', 'pauli_is_onsite', 'binary_repr',
              'pauli', 'paulis', 'Pauli', 'PauliList', 'pauli_diagonalize1', 'pauli_diagonalize2'}
LIB_ROOTS = {'numpy', 'np', 'torch', 'math'}


def _pure(e):
    """An expression whose evaluation has no effect and draws no random number (syntactic whitelist)."""
    for n in ast.walk(e):
        if isinstance(n, (ast.Constant, ast.Name, ast.Attribute, ast.Subscript, ast.BinOp, ast.UnaryOp, ast.Compare, ast.BoolOp,
                          ast.Tuple, ast.List, ast.Slice, ast.IfExp, ast.Load, ast.operator, ast.unaryop, ast.cmpop, ast.boolop,
                          ast.keyword, ast.Starred)):
            continue
        if isinstance(n, ast.Call):
            f = n.func
            if isinstance(f, ast.Name) and f.id in PURE_FUNCS:
                continue
            if isinstance(f, ast.Attribute):
                root = f
                while isinstance(root, ast.Attribute):
                    root = root.value
                txt = ast.unparse(f)
                if isinstance(root, ast.Name) and root.id in LIB_ROOTS and 'rand' not in txt and not f.attr.endswith('_'):
                    continue
                if f.attr in PURE_METHODS:
                    continue
            return False
        return False
    return True


def _written_names(stmts):
    """Names that may be (re)bound or mutated by the statements: stores, roots of subscript / attribute stores, augmented
    targets, loop targets, and every name passed to a call that is not on the pure whitelist (it may be changed in place)."""
    out = set()
    for st in stmts:
        for n in ast.walk(st):
            if isinstance(n, ast.Name) and isinstance(n.ctx, (ast.Store, ast.Del)):
                out.add(n.id)
            elif isinstance(n, (ast.Subscript, ast.Attribute)) and isinstance(n.ctx, (ast.Store, ast.Del)):
                r = n
                while isinstance(r, (ast.Subscript, ast.Attribute)):
                    r = r.value
                if isinstance(r, ast.Name):
                    out.add(r.id)
            elif isinstance(n, ast.Call) and not _pure(n):
                for a in list(n.args) + [k.value for k in n.keywords]:
                    for m in ast.walk(a):
                        if isinstance(m, ast.Name):
                            out.add(m.id)
                if isinstance(n.func, ast.Attribute):
                    r = n.func.value
                    while isinstance(r, (ast.Subscript, ast.Attribute)):
                        r = r.value
                    if isinstance(r, ast.Name):
                        out.add(r.id)
    return out


def _blocks(fn):
    """(statement list, enclosing loop nodes) for every block of fn's own scope."""
    def rec(body, loops):
        yield body, loops
        for st in body:
            if isinstance(st, (ast.FunctionDef, ast.AsyncFunctionDef, ast.ClassDef)):
                continue
            inner = loops + (st,) if isinstance(st, (ast.For, ast.While)) else loops
            for fld in ('body', 'orelse', 'finalbody'):
                b = getattr(st, fld, None)
                if isinstance(b, list) and b and isinstance(b[0], ast.stmt):
                    yield from rec(b, inner if fld == 'body' else loops)
            for h in getattr(st, 'handlers', []) or []:
                yield from rec(h.body, loops)
    yield from rec(fn.body, ())


def inline_unknown_temporaries(fn, known_sigs, known_names=frozenset()):
    """Inline every local that (1) has no counterpart in the reference tree (its signature is not among `known_sigs`), (2) is
    bound exactly once, by `t = E` with E pure, and read exactly once, later, and (3) none of the names E mentions can be written
    between the definition and the use (for a use inside a loop that does not contain the definition: anywhere in that loop).
    Returns the names inlined.  The result is equivalent to the source: E is evaluated with the same operand values."""
    done = []
    for _ in range(8):
        sg, _every = signatures(fn)
        params = _params(fn)
        stores, loads = {}, {}
        for n in ast.walk(fn):
            if isinstance(n, ast.Name):
                (loads if isinstance(n.ctx, ast.Load) else stores).setdefault(n.id, []).append(n)
        changed = False
        for body, loops in _blocks(fn):
            for i, st in enumerate(body):
                if not (isinstance(st, ast.Assign) and len(st.targets) == 1 and isinstance(st.targets[0], ast.Name)):
                    continue
                t = st.targets[0].id
                if t in params or t not in sg or sg[t][0] in known_sigs or t in known_names:
                    continue              # a local the reference tree has (by structure or by name) keeps its statement
                if len(stores.get(t, [])) != 1 or not loads.get(t) or not _pure(st.value):
                    continue
                if len(loads[t]) > 1:
                    if _inline_multi(fn, body, i, st, t, loads[t]):
                        body.pop(i)
                        done.append(t)
                        changed = True
                        break
                    continue
                use = loads[t][0]
                if (use.lineno, use.col_offset) <= (st.end_lineno, st.end_col_offset):
                    continue
                # the use must be reachable from this block: in a later statement of the same block (possibly nested)
                holder = None
                for later in body[i + 1:]:
                    if any(m is use for m in ast.walk(later)):
                        holder = later
                        break
                if holder is None:
                    continue
                between = body[i + 1: body.index(holder)]
                span = list(between)
                # statements of `holder` that run before / around the use: if the use sits inside a loop of holder, the whole loop
                inner_loops = [l for l in ast.walk(holder) if isinstance(l, (ast.For, ast.While)) and any(m is use for m in ast.walk(l))]
                if inner_loops:
                    span.append(inner_loops[0])
                elif isinstance(holder, (ast.If, ast.With, ast.Try)):
                    span += [x for x in ast.walk(holder) if isinstance(x, ast.stmt) and x is not holder
                             and (x.lineno, x.col_offset) < (use.lineno, use.col_offset) and not any(m is use for m in ast.walk(x))]
                mentioned = {m.id for m in ast.walk(st.value) if isinstance(m, ast.Name)}
                if mentioned & _written_names(span):
                    continue
                # a use as the iterable of the loop header or inside a comprehension is fine; replace the node
                class R(ast.NodeTransformer):
                    def visit_Name(self, n):
                        if n is use:
                            return ast.copy_location(copy.deepcopy(st.value), n)
                        return n
                R().visit(holder)
                _merge_row_subscripts(fn, holder)
                body.pop(i)
                done.append(t)
                changed = True
                break
            if changed:
                break
        if not changed:
            break
    return done


def _reads_before_writes(stmts, ids, mentioned):
    """True when, in execution order, no name of `mentioned` can be written before a read in `ids` happens.  Simple statements
    evaluate their right-hand side before they store; an `if` is followed branch by branch (what one branch writes does not
    precede the reads of the other); a loop or any other compound statement that holds a read counts with everything it writes."""
    def holds(node):
        return any(id(m) in ids for m in ast.walk(node))

    def rec(block, written):
        for later in block:
            if isinstance(later, (ast.Assign, ast.AugAssign, ast.Expr, ast.Return, ast.AnnAssign)):
                if holds(later):
                    if mentioned & written:
                        return None
                    calls = [ast.Expr(value=c) for c in ast.walk(later) if isinstance(c, ast.Call)]
                    if mentioned & (_written_names(calls) - {n.id for n in ast.walk(later) if isinstance(n, ast.Name) and isinstance(n.ctx, ast.Store)}):
                        # a call of the same statement may change what the temporary stands for before a later operand is read
                        return None
                written = written | _written_names([later])
            elif isinstance(later, ast.If):
                if holds(later.test) and mentioned & written:
                    return None
                written = written | _written_names([ast.Expr(value=later.test)])
                a = rec(later.body, written)
                b = rec(later.orelse, written)
                if a is None or b is None:
                    return None
                written = a | b
            else:
                if holds(later) and mentioned & (written | _written_names([later])):
                    return None
                written = written | _written_names([later])
        return written
    return rec(stmts, set()) is not None


def _inline_multi(fn, body, i, st, t, uses):
    """Several reads of a pure temporary: inlined when every read is in a read-only position (operand of an operator or
    comparison, base of an attribute / subscript READ, argument of a call on the pure whitelist, iterable of a loop), all reads
    come after the definition inside the statements that follow it in the same block, and no name the expression mentions can be
    written from the definition to the end of that block."""
    rest = body[i + 1:]
    inside = set()
    for later in rest:
        for m in ast.walk(later):
            inside.add(id(m))
    if not all(id(u) in inside for u in uses):
        return False
    parent = {}
    for later in rest:
        for n in ast.walk(later):
            for c in ast.iter_child_nodes(n):
                parent[id(c)] = n
    scalar_attr = _attr_chain_of_param(fn, st.value) and st.value.attr in ('N', 'L', 'r', 'n', 'p', 'c')
    for u in uses:
        par = parent.get(id(u))
        if scalar_attr:
            continue              # a number read from a field: no use can change it
        if isinstance(par, (ast.BinOp, ast.UnaryOp, ast.Compare, ast.BoolOp, ast.IfExp, ast.Tuple, ast.List, ast.Slice, ast.Index if hasattr(ast, 'Index') else ast.Slice)):
            continue
        if isinstance(par, ast.Attribute) and isinstance(par.ctx, ast.Load) and par.value is u:
            gp = parent.get(id(par))
            if isinstance(gp, ast.Call) and gp.func is par and par.attr not in PURE_METHODS:
                return False          # a method call on the temporary may change it: its identity matters
            continue
        if isinstance(par, ast.Subscript) and isinstance(par.ctx, ast.Load) and par.value is u:
            continue
        if isinstance(par, ast.Subscript) and par.slice is u:
            continue
        if isinstance(par, ast.Call) and u is not par.func and _pure(ast.Call(func=par.func, args=[], keywords=[])):
            continue
        if isinstance(par, (ast.For, ast.comprehension)) and par.iter is u:
            continue
        if isinstance(par, ast.keyword):
            gp = parent.get(id(par))
            if isinstance(gp, ast.Call) and _pure(ast.Call(func=gp.func, args=[], keywords=[])):
                continue
        if isinstance(par, ast.Return):
            continue
        if isinstance(par, ast.Assign) and par.value is u and all(isinstance(tg, ast.Subscript) for tg in par.targets):
            continue              # element store: the data is copied into the slot, no alias is created
        return False
    mentioned = {m.id for m in ast.walk(st.value) if isinstance(m, ast.Name)}
    # writes that can happen between the definition and a use.  A simple statement evaluates its right-hand side before it
    # stores, so the targets of the statement that holds a use only count for uses in LATER statements.
    ids = {id(u) for u in uses}
    holders = [k for k, later in enumerate(rest) if any(id(m) in ids for m in ast.walk(later))]
    last = max(holders)
    if not _reads_before_writes(rest[:last + 1], ids, mentioned):
        # a cached attribute read (`r = obs.r`, `N = self.N`) stays valid as long as that attribute is not stored and the object
        # is not handed to one of the in-place operations of the packages
        if not (_attr_chain_of_param(fn, st.value) and not _attr_may_change(st.value, rest[:last + 1])):
            return False

    class R(ast.NodeTransformer):
        def visit_Name(self, n):
            if id(n) in ids:
                return ast.copy_location(copy.deepcopy(st.value), n)
            return n
    for later in rest:
        R().visit(later)
        _merge_row_subscripts(fn, later)
    return True


def reshape_unknown_conditional_assigns(fn, known_sigs, known_names=frozenset()):
    """Two spellings of one conditional binding are brought together when the spelled one has no counterpart in the reference
    tree: `if c: x = a / else: x = b` (one plain-name target, nothing else in either branch) is read as `x = a if c else b`;
    `x, y = (a1, a2) if c else (b1, b2)` is read as `if c: x, y = a1, a2 / else: x, y = b1, b2`."""
    sg, _ = signatures(fn)
    n = 0
    for body, loops in _blocks(fn):
        for i, st in enumerate(body):
            if isinstance(st, ast.If) and len(st.body) == 1 and len(st.orelse) == 1 \
                    and all(isinstance(b, ast.Assign) and len(b.targets) == 1 and isinstance(b.targets[0], ast.Name) for b in (st.body[0], st.orelse[0])) \
                    and st.body[0].targets[0].id == st.orelse[0].targets[0].id:
                t = st.body[0].targets[0].id
                if t in sg and sg[t][0] not in known_sigs and _pure(st.test) \
                        and not any(isinstance(x, ast.Call) for b in (st.body[0], st.orelse[0]) for x in ast.walk(b.value)):
                    new = ast.Assign(targets=[ast.Name(id=t, ctx=ast.Store())],
                                     value=ast.IfExp(test=st.test, body=st.body[0].value, orelse=st.orelse[0].value))
                    body[i] = ast.copy_location(new, st)
                    ast.fix_missing_locations(body[i])
                    n += 1
            elif isinstance(st, ast.Assign) and len(st.targets) == 1 and isinstance(st.targets[0], ast.Tuple) and isinstance(st.value, ast.IfExp) \
                    and isinstance(st.value.body, ast.Tuple) and isinstance(st.value.orelse, ast.Tuple) \
                    and len(st.value.body.elts) == len(st.value.orelse.elts) == len(st.targets[0].elts) \
                    and all(isinstance(e, ast.Name) for e in st.targets[0].elts):
                names = [e.id for e in st.targets[0].elts]
                if any(x in sg and sg[x][0] not in known_sigs for x in names):
                    new = ast.If(test=st.value.test,
                                 body=[ast.Assign(targets=[copy.deepcopy(st.targets[0])], value=st.value.body)],
                                 orelse=[ast.Assign(targets=[copy.deepcopy(st.targets[0])], value=st.value.orelse)])
                    body[i] = ast.copy_location(new, st)
                    ast.fix_missing_locations(body[i])
                    n += 1
    return n


def split_unknown_block_local_defs(fn, known_sigs, known_names=frozenset()):
    """A local without counterpart in the reference tree that is bound by several block-level `t = E` statements, each of
    which is the only definition that can reach the reads that follow it in its block (every read of t lies after exactly one
    definition in that definition's block, before the next one there, and no definition is nested in another's region), is
    split into one name per definition.  Each is then an ordinary single-definition temporary."""
    sg, every = signatures(fn)
    params = _params(fn)
    cands = {}
    for body, loops in _blocks(fn):
        for i, st in enumerate(body):
            if isinstance(st, ast.Assign) and len(st.targets) == 1 and isinstance(st.targets[0], ast.Name):
                cands.setdefault(st.targets[0].id, []).append((body, i, st))
    done = []
    for t, defs in sorted(cands.items()):
        if len(defs) < 2 or t in params or t in known_names or t not in sg or sg[t][0] in known_sigs:
            continue
        stores = [n for n in ast.walk(fn) if isinstance(n, ast.Name) and n.id == t and isinstance(n.ctx, (ast.Store, ast.Del))]
        if len(stores) != len(defs):
            continue                      # bound elsewhere too (loop target, tuple target, augmented assignment)
        if any(isinstance(n, ast.AugAssign) and isinstance(n.target, ast.Name) and n.target.id == t for n in ast.walk(fn)):
            continue
        loads = [n for n in ast.walk(fn) if isinstance(n, ast.Name) and n.id == t and isinstance(n.ctx, ast.Load)]
        regions = []
        ok = True
        for body, i, st in defs:
            if any(isinstance(n, ast.Name) and n.id == t for n in ast.walk(st.value)):
                ok = False
                break
            j = len(body)
            for k in range(i + 1, len(body)):
                if any(d[2] is body[k] for d in defs):
                    j = k
                    break
            reg = body[i + 1:j]
            inner = {id(n) for r in reg for n in ast.walk(r)}
            if any(id(d[2]) in inner for d in defs):
                ok = False                # another definition nested in this region
                break
            regions.append(inner)
        if not ok:
            continue
        owner = {}
        for ld in loads:
            own = [k for k, inner in enumerate(regions) if id(ld) in inner]
            if len(own) != 1:
                ok = False
                break
            owner[id(ld)] = own[0]
        if not ok:
            continue
        for k, (body, i, st) in enumerate(defs):
            if k == 0:
                continue
            new = '%s__%d' % (t, k + 1)
            while new in every:
                new += '_'
            every.add(new)
            st.targets[0].id = new
            for ld in loads:
                if owner[id(ld)] == k:
                    ld.id = new
        done.append(t)
    return done


def split_unknown_tuple_assigns(fn, known_sigs, known_names=frozenset()):
    """`a, b = e1, e2` whose targets are all locals without counterpart in the reference tree and whose right-hand sides do not
    mention any of the targets becomes `a = e1; b = e2` (same values: nothing the right-hand sides read is rebound in between)."""
    sg, _ = signatures(fn)
    n = 0
    for body, loops in _blocks(fn):
        i = 0
        while i < len(body):
            st = body[i]
            if isinstance(st, ast.Assign) and len(st.targets) == 1 and isinstance(st.targets[0], ast.Tuple) and isinstance(st.value, ast.Tuple) \
                    and len(st.targets[0].elts) == len(st.value.elts) and all(isinstance(e, ast.Name) for e in st.targets[0].elts):
                names = [e.id for e in st.targets[0].elts]
                mentioned = {m.id for v in st.value.elts for m in ast.walk(v) if isinstance(m, ast.Name)}
                if all(x in sg and sg[x][0] not in known_sigs and x not in known_names for x in names) and not (set(names) & mentioned) and all(_pure(v) for v in st.value.elts):
                    new = [ast.copy_location(ast.Assign(targets=[ast.Name(id=x, ctx=ast.Store())], value=v), st) for x, v in zip(names, st.value.elts)]
                    body[i:i + 1] = new
                    n += 1
                    i += len(new)
                    continue
            i += 1
    if n:
        ast.fix_missing_locations(fn)
    return n


def merge_forwarded_results(fn, known_sigs, known_names=frozenset()):
    """`a, b = f(...)` followed directly by `X = a` and `Y = b` (a, b locals the reference tree does not have, bound and read
    only there) is the multiple assignment `X, Y = f(...)`: the call is evaluated first and the stores happen in the same
    order either way."""
    sg, _ = signatures(fn)
    stores, loads = {}, {}
    for n in ast.walk(fn):
        if isinstance(n, ast.Name):
            (loads if isinstance(n.ctx, ast.Load) else stores).setdefault(n.id, []).append(n)
    n_merged = 0
    for body, loops in _blocks(fn):
        i = 0
        while i < len(body):
            st = body[i]
            if isinstance(st, ast.Assign) and len(st.targets) == 1 and isinstance(st.targets[0], ast.Tuple) \
                    and all(isinstance(e, ast.Name) for e in st.targets[0].elts) and isinstance(st.value, ast.Call):
                names = [e.id for e in st.targets[0].elts]
                k = len(names)
                nxt = body[i + 1:i + 1 + k]
                # (b) the next statement forwards some of the results at once: `X, Y = a, b`
                nx = body[i + 1] if i + 1 < len(body) else None
                if isinstance(nx, ast.Assign) and len(nx.targets) == 1 and isinstance(nx.targets[0], ast.Tuple) and isinstance(nx.value, ast.Tuple) \
                        and len(nx.targets[0].elts) == len(nx.value.elts) and all(isinstance(v, ast.Name) for v in nx.value.elts) \
                        and all(isinstance(t, (ast.Attribute, ast.Subscript)) for t in nx.targets[0].elts):
                    fwd = {v.id: t for v, t in zip(nx.value.elts, nx.targets[0].elts)}
                    if set(fwd) <= set(names) and len(fwd) == len(nx.value.elts) \
                            and all(x in sg and sg[x][0] not in known_sigs and x not in known_names
                                    and len(stores.get(x, [])) == 1 and len(loads.get(x, [])) == 1 for x in fwd) \
                            and [x for x in names if x in fwd] == [v.id for v in nx.value.elts]:
                        new_t = ast.Tuple(elts=[fwd.get(e.id, e) for e in st.targets[0].elts], ctx=ast.Store())
                        body[i:i + 2] = [ast.copy_location(ast.Assign(targets=[new_t], value=st.value), st)]
                        n_merged += 1
                        i += 1
                        continue
                if len(nxt) == k and all(x in sg and sg[x][0] not in known_sigs and x not in known_names
                                         and len(stores.get(x, [])) == 1 and len(loads.get(x, [])) == 1 for x in names) \
                        and all(isinstance(s2, ast.Assign) and len(s2.targets) == 1 and isinstance(s2.value, ast.Name)
                                and s2.value.id == x and isinstance(s2.targets[0], (ast.Attribute, ast.Subscript, ast.Name))
                                for s2, x in zip(nxt, names)):
                    new_t = ast.Tuple(elts=[s2.targets[0] for s2 in nxt], ctx=ast.Store())
                    body[i:i + 1 + k] = [ast.copy_location(ast.Assign(targets=[new_t], value=st.value), st)]
                    n_merged += 1
            i += 1
    if n_merged:
        ast.fix_missing_locations(fn)
    return n_merged


def desugar_unknown_enumerate(fn, known_sigs):
    """`for i, x in enumerate(A):` whose element variable x has no counterpart in the reference tree becomes the index loop
    `for i in range(len(A)):` with every read of x replaced by `A[i]`, provided A is a plain name / attribute chain that the
    loop body cannot write and x and i are only read in the body.  (Same elements, same order; `len(A)` is the number of items
    enumerate yields for an array or list.)"""
    done = []
    sg, _ = signatures(fn)
    for lp in [n for n in ast.walk(fn) if isinstance(n, ast.For)]:
        if not (isinstance(lp.iter, ast.Call) and isinstance(lp.iter.func, ast.Name) and not lp.iter.keywords
                and isinstance(lp.target, ast.Tuple) and len(lp.target.elts) == 2 and all(isinstance(e, ast.Name) for e in lp.target.elts)):
            continue
        if lp.iter.func.id == 'enumerate' and len(lp.iter.args) == 1:
            A = lp.iter.args[0]
        elif lp.iter.func.id == 'zip' and len(lp.iter.args) == 2 and ast.unparse(lp.iter.args[0]).replace(' ', '') in (
                'range(len(%s))' % ast.unparse(lp.iter.args[1]).replace(' ', ''), 'range(%s.shape[0])' % ast.unparse(lp.iter.args[1]).replace(' ', '')):
            A = lp.iter.args[1]             # zip(range(len(A)), A) pairs every item with its index, like enumerate(A)
        else:
            continue
        i, x = lp.target.elts[0].id, lp.target.elts[1].id
        if not isinstance(A, (ast.Name, ast.Attribute)) or not _pure(A):
            continue
        if x not in sg or sg[x][0] in known_sigs:
            continue
        root = A
        while isinstance(root, ast.Attribute):
            root = root.value
        written = _written_names(lp.body)
        if not isinstance(root, ast.Name) or root.id in written or i in written or x in written:
            continue
        if sum(1 for n in ast.walk(fn) if isinstance(n, ast.Name) and n.id == x and isinstance(n.ctx, ast.Store)) != 1:
            continue
        if any(isinstance(n, ast.Name) and n.id == x for st in ast.walk(fn) if isinstance(st, ast.stmt) and st is not lp
               for n in ast.walk(st) if not any(n is m for m in ast.walk(lp))):
            continue        # x is read after the loop

        class R(ast.NodeTransformer):
            def visit_Name(self, n):
                if n.id == x and isinstance(n.ctx, ast.Load):
                    return ast.copy_location(ast.Subscript(value=copy.deepcopy(A), slice=ast.Name(id=i, ctx=ast.Load()), ctx=ast.Load()), n)
                return n
        lp.body = [R().visit(b) for b in lp.body]
        lp.target = ast.copy_location(ast.Name(id=i, ctx=ast.Store()), lp.target)
        lp.iter = ast.copy_location(ast.Call(func=ast.Name(id='range', ctx=ast.Load()),
                                             args=[ast.Call(func=ast.Name(id='len', ctx=ast.Load()), args=[copy.deepcopy(A)], keywords=[])],
                                             keywords=[]), lp.iter)
        done.append(x)
    return done


def _merge_row_subscripts(fn, node):
    """After a row temporary `a = X[j]` was read back, `X[j][k]` is written `X[j, k]` when j is the variable of a
    `for j in range(...)` loop (an integer, so both forms address the same element of a numpy array / tensor)."""
    range_vars = {l.target.id for l in ast.walk(fn) if isinstance(l, ast.For) and isinstance(l.target, ast.Name)
                  and isinstance(l.iter, ast.Call) and isinstance(l.iter.func, ast.Name) and l.iter.func.id == 'range'}

    class M(ast.NodeTransformer):
        def visit_Subscript(self, n):
            self.generic_visit(n)
            v = n.value
            if isinstance(v, ast.Subscript) and isinstance(v.slice, ast.Name) and v.slice.id in range_vars \
                    and isinstance(v.value, ast.Name) and not isinstance(n.slice, (ast.Tuple, ast.Slice)):
                return ast.copy_location(ast.Subscript(value=v.value, slice=ast.Tuple(elts=[v.slice, n.slice], ctx=ast.Load()), ctx=n.ctx), n)
            return n
    M().visit(node)


INPLACE_METHODS = {'measure', 'postselect', 'rotate_by', 'transform_by', 'set_r', 'set_cs', 'set_c', 'embed', 'take', 'gate', 'compose',
                   'compile', 'forward', 'backward', 'set_generator', 'set_forward_map', 'set_backward_map', 'append', 'extend'}


def _attr_chain_of_param(fn, e):
    r = e
    if not isinstance(r, ast.Attribute):
        return False
    while isinstance(r, ast.Attribute):
        r = r.value
    return isinstance(r, ast.Name) and r.id in _params(fn)


def _attr_may_change(e, stmts):
    """May `root.a.b` change while the statements run?  Yes if root is rebound, if an attribute named like one on the chain is
    stored anywhere, or if an in-place operation of the packages is called on / with the root object."""
    chain = []
    r = e
    while isinstance(r, ast.Attribute):
        chain.append(r.attr)
        r = r.value
    root = r.id
    for st in stmts:
        for n in ast.walk(st):
            if isinstance(n, ast.Name) and n.id == root and isinstance(n.ctx, (ast.Store, ast.Del)):
                return True
            if isinstance(n, ast.Attribute) and isinstance(n.ctx, (ast.Store, ast.Del)) and n.attr in chain:
                return True
            if isinstance(n, ast.Call) and isinstance(n.func, ast.Attribute) and n.func.attr in INPLACE_METHODS:
                names = {m.id for m in ast.walk(n) if isinstance(m, ast.Name)}
                if root in names:
                    return True
    return False


def inline_unknown_closures(fn, rel, qual, tb):
    """A nested function that the reference tree does not have and whose body is one `return E` is inlined at its call sites in
    the enclosing function (positional arguments that are names, attributes, subscripts or constants; each parameter used at
    most once in E unless the argument is a plain name / attribute).  A closure reads its free variables when it is called, so
    the inlined expression is evaluated with the same values at the same place."""
    closures = {}
    for st in list(fn.body):
        if isinstance(st, ast.FunctionDef) and '%s::%s.%s' % (rel, qual, st.name) not in tb:
            body = [b for b in st.body if not (isinstance(b, ast.Expr) and isinstance(b.value, ast.Constant))]
            a = st.args
            if len(body) == 1 and isinstance(body[0], ast.Return) and body[0].value is not None \
                    and not a.vararg and not a.kwarg and not a.kwonlyargs and not a.defaults:
                closures[st.name] = (st, [x.arg for x in a.posonlyargs + a.args], body[0].value)
    if not closures:
        return []
    used, bad = [], set()
    for n in ast.walk(fn):
        if isinstance(n, ast.Name) and n.id in closures and isinstance(n.ctx, ast.Load):
            pass

    class T(ast.NodeTransformer):
        def visit_FunctionDef(self, n):
            if n is fn:
                self.generic_visit(n)
            return n

        def visit_Call(self, n):
            self.generic_visit(n)
            if isinstance(n.func, ast.Name) and n.func.id in closures:
                st, ps, expr = closures[n.func.id]
                simple = all(isinstance(a, (ast.Name, ast.Constant, ast.Attribute, ast.Subscript)) for a in n.args)
                if n.keywords or len(n.args) != len(ps) or not simple:
                    bad.add(n.func.id)
                    return n
                m = dict(zip(ps, n.args))

                class S(ast.NodeTransformer):
                    def visit_Name(self, x):
                        if x.id in m and isinstance(x.ctx, ast.Load):
                            return copy.deepcopy(m[x.id])
                        return x
                used.append(n.func.id)
                return ast.copy_location(S().visit(copy.deepcopy(expr)), n)
            return n
    T().visit(fn)
    # the definitions go away when every use was inlined (a closure that is also passed around as a value stays)
    still = {n.id for n in ast.walk(fn) if isinstance(n, ast.Name) and n.id in closures and isinstance(n.ctx, ast.Load)}
    fn.body = [st for st in fn.body if not (isinstance(st, ast.FunctionDef) and st.name in closures and st.name not in still and st.name not in bad and st.name in used)]
    ast.fix_missing_locations(fn)
    return sorted(set(used))


def inline_unknown_helpers(tree, rel, tb):
    """A module-level function or a method that the reference tree does not have and whose body is one `return E` with E pure
    is inlined at its call sites (arguments that are plain names / constants / attributes; methods: called on `self` inside
    their class): the caller then has the shape it had before the helper was extracted.  `f(*h())` with a tuple-valued helper
    becomes f(e1, e2)."""
    helpers = {}

    def one_return(st):
        body = [b for b in st.body if not (isinstance(b, ast.Expr) and isinstance(b.value, ast.Constant))]
        a = st.args
        if len(body) == 1 and isinstance(body[0], ast.Return) and body[0].value is not None and _pure(body[0].value) \
                and not a.vararg and not a.kwarg and not a.kwonlyargs and not a.defaults and not st.decorator_list:
            return [x.arg for x in a.posonlyargs + a.args], body[0].value
        return None
    for st in tree.body:
        if isinstance(st, ast.FunctionDef) and '%s::%s' % (rel, st.name) not in tb:
            body = [b for b in st.body if not (isinstance(b, ast.Expr) and isinstance(b.value, ast.Constant))]
            a = st.args
            if len(body) == 1 and isinstance(body[0], ast.Return) and body[0].value is not None and _pure(body[0].value) \
                    and not a.vararg and not a.kwarg and not a.kwonlyargs and not a.defaults:
                helpers[st.name] = ([x.arg for x in a.posonlyargs + a.args], body[0].value)
    methods = {}
    for st in tree.body:
        if isinstance(st, ast.ClassDef):
            for m in st.body:
                if isinstance(m, ast.FunctionDef) and '%s::%s.%s' % (rel, st.name, m.name) not in tb:
                    r = one_return(m)
                    if r and r[0] and r[0][0] == 'self':
                        methods[(st.name, m.name)] = r
    if not helpers and not methods:
        return []
    used = []

    def subst(expr, m):
        class S(ast.NodeTransformer):
            def visit_Name(self, x):
                if x.id in m and isinstance(x.ctx, ast.Load):
                    return copy.deepcopy(m[x.id])
                return x
        return S().visit(copy.deepcopy(expr))

    class T(ast.NodeTransformer):
        cls = None

        def visit_ClassDef(self, n):
            old, self.cls = self.cls, n.name
            self.generic_visit(n)
            self.cls = old
            return n

        def visit_Call(self, n):
            self.generic_visit(n)
            # f(*t) with t a literal tuple after inlining: the elements are the arguments
            if any(isinstance(a, ast.Starred) and isinstance(a.value, ast.Tuple) for a in n.args):
                na = []
                for a in n.args:
                    if isinstance(a, ast.Starred) and isinstance(a.value, ast.Tuple):
                        na.extend(a.value.elts)
                    else:
                        na.append(a)
                n.args = na
            if isinstance(n.func, ast.Name) and n.func.id in helpers and not n.keywords and len(n.args) == len(helpers[n.func.id][0]) \
                    and all(isinstance(a, (ast.Name, ast.Constant, ast.Attribute)) for a in n.args):
                ps, expr = helpers[n.func.id]
                used.append(n.func.id)
                return ast.copy_location(subst(expr, dict(zip(ps, n.args))), n)
            if isinstance(n.func, ast.Attribute) and isinstance(n.func.value, ast.Name) and n.func.value.id == 'self' and self.cls is not None \
                    and (self.cls, n.func.attr) in methods and not n.keywords:
                ps, expr = methods[(self.cls, n.func.attr)]
                args = [n.func.value] + list(n.args)
                if len(args) == len(ps) and all(isinstance(a, (ast.Name, ast.Constant, ast.Attribute)) for a in args):
                    used.append(n.func.attr)
                    r = ast.copy_location(subst(expr, dict(zip(ps, args))), n)
                    for x in ast.walk(r):
                        if isinstance(x, (ast.expr,)):
                            ast.copy_location(x, n)
                    return r
            return n

        def visit_Starred(self, n):
            self.generic_visit(n)
            return n
    T().visit(tree)
    # splice once more for starred tuples produced by the substitution of the outermost call
    for n in ast.walk(tree):
        if isinstance(n, ast.Call) and any(isinstance(a, ast.Starred) and isinstance(a.value, ast.Tuple) for a in n.args):
            na = []
            for a in n.args:
                if isinstance(a, ast.Starred) and isinstance(a.value, ast.Tuple):
                    na.extend(a.value.elts)
                else:
                    na.append(a)
            n.args = na
    if used:
        refs = {n.attr for n in ast.walk(tree) if isinstance(n, ast.Attribute)}
        for st in tree.body:
            if isinstance(st, ast.ClassDef):
                st.body = [m for m in st.body if not (isinstance(m, ast.FunctionDef) and (st.name, m.name) in methods and m.name in used and m.name not in refs)] or [ast.Pass()]
    ast.fix_missing_locations(tree)
    return used


def inline_unknown_block_helpers(tree, rel, tb):
    """A function or method that the reference tree does not have, whose body is a short block with at most one `return` (the
    last statement), is inlined where it is called as a whole statement: `h(a)`, `x = h(a)`, `return h(a)` (methods: on a plain
    name, usually self).  Parameters bound to plain names / constants are substituted; any other argument is first bound to a
    fresh temporary at the call site (evaluated once, in argument order, as the call did); locals of the helper that clash with
    names of the caller get a suffix.  The caller then has the shape it had before the block was extracted, and the temporaries
    are subject to the same read-back rules as any other unknown temporary."""
    helpers = {}

    def eligible(st, key):
        if key in tb or st.decorator_list and any(norm_dec(d) not in ('njit', 'jit', 'numba.njit', 'numba.jit') for d in st.decorator_list):
            return None
        a = st.args
        if a.vararg or a.kwarg or a.kwonlyargs or a.defaults or a.posonlyargs:
            return None
        body = [b for b in st.body if not (isinstance(b, ast.Expr) and isinstance(b.value, ast.Constant))]
        if not body or len(body) > 12:
            return None
        for b in body[:-1]:
            for n in ast.walk(b):
                if isinstance(n, (ast.Return, ast.Yield, ast.YieldFrom, ast.FunctionDef, ast.Lambda, ast.Global, ast.Nonlocal, ast.ClassDef)):
                    return None
        last = body[-1]
        for n in ast.walk(last):
            if isinstance(n, (ast.Yield, ast.YieldFrom, ast.FunctionDef, ast.Lambda, ast.Global, ast.Nonlocal, ast.ClassDef)):
                return None
            if isinstance(n, ast.Return) and n is not last:
                return None
        params = [x.arg for x in a.args]
        stored = {n.id for b in body for n in ast.walk(b) if isinstance(n, ast.Name) and isinstance(n.ctx, (ast.Store, ast.Del))}
        if stored & set(params):
            return None                       # a rebound parameter: substitution would change the caller's variable
        for n in ast.walk(st):
            if isinstance(n, ast.Call) and ((isinstance(n.func, ast.Name) and n.func.id == st.name) or (isinstance(n.func, ast.Attribute) and n.func.attr == st.name)):
                return None                   # recursive
        return params, body, stored

    def norm_dec(d):
        return ast.unparse(d.func if isinstance(d, ast.Call) else d)
    for st in tree.body:
        if isinstance(st, ast.FunctionDef):
            e = eligible(st, '%s::%s' % (rel, st.name))
            if e:
                helpers[('f', st.name)] = e
        elif isinstance(st, ast.ClassDef):
            for m in st.body:
                if isinstance(m, ast.FunctionDef):
                    e = eligible(m, '%s::%s.%s' % (rel, st.name, m.name))
                    if e and e[0]:
                        helpers[('m', st.name, m.name)] = e
    if not helpers:
        return []
    used = []
    counter = [0]

    def expand(call, cls_name, caller_names):
        """(prefix statements, result expression or None) for an eligible call, else None"""
        key = None
        recv = None
        if isinstance(call.func, ast.Name) and ('f', call.func.id) in helpers:
            key = ('f', call.func.id)
        elif isinstance(call.func, ast.Attribute) and isinstance(call.func.value, ast.Name) and cls_name is not None \
                and call.func.value.id == 'self' and ('m', cls_name, call.func.attr) in helpers:
            key = ('m', cls_name, call.func.attr)
            recv = call.func.value
        if key is None or call.keywords:
            return None
        params, body, stored = helpers[key]
        args = ([recv] if recv is not None else []) + list(call.args)
        if len(args) != len(params) or any(isinstance(a, ast.Starred) for a in args):
            return None
        counter[0] += 1
        pre = []
        m = {}
        for prm, a in zip(params, args):
            if isinstance(a, (ast.Name, ast.Constant)):
                m[prm] = a
            else:
                t = '%s_%d' % (prm, counter[0]) if prm in caller_names else prm
                while t in caller_names:
                    t += '_'
                caller_names.add(t)
                pre.append(ast.Assign(targets=[ast.Name(id=t, ctx=ast.Store())], value=copy.deepcopy(a)))
                m[prm] = ast.Name(id=t, ctx=ast.Load())
        ren = {}
        for x in stored:
            if x in caller_names:
                t = '%s_%d' % (x, counter[0])
                while t in caller_names:
                    t += '_'
                ren[x] = t
                caller_names.add(t)
            else:
                caller_names.add(x)

        class S(ast.NodeTransformer):
            def visit_Name(self, x):
                if x.id in m and isinstance(x.ctx, ast.Load):
                    return copy.deepcopy(m[x.id])
                if x.id in ren:
                    return ast.Name(id=ren[x.id], ctx=x.ctx)
                return x
        stmts = [S().visit(copy.deepcopy(b)) for b in body]
        res = None
        if isinstance(stmts[-1], ast.Return):
            res = stmts[-1].value
            stmts = stmts[:-1]
        used.append(key[-1])
        return pre + stmts, res

    def rewrite_block(block, cls_name, caller_names):
        out = []
        for st in block:
            for fld in ('body', 'orelse', 'finalbody'):
                b = getattr(st, fld, None)
                if isinstance(b, list) and b and isinstance(b[0], ast.stmt) and not isinstance(st, (ast.FunctionDef, ast.ClassDef)):
                    setattr(st, fld, rewrite_block(b, cls_name, caller_names))
            for h in getattr(st, 'handlers', []) or []:
                h.body = rewrite_block(h.body, cls_name, caller_names)
            call = None
            if isinstance(st, ast.Expr) and isinstance(st.value, ast.Call):
                call = st.value
            elif isinstance(st, (ast.Assign, ast.Return)) and isinstance(st.value, ast.Call):
                call = st.value
            e = expand(call, cls_name, caller_names) if call is not None else None
            if e is None:
                out.append(st)
                continue
            stmts, res = e
            # positions: the statements read back stand on the line of the call, in order, before the statement that held it
            n_ = len(stmts)
            for k_, g_ in enumerate(stmts):
                nodes = sorted((x for x in ast.walk(g_) if hasattr(x, 'lineno') or isinstance(x, (ast.expr, ast.stmt))),
                               key=lambda x: (getattr(x, 'lineno', 0), getattr(x, 'col_offset', 0)))
                base = -10000 * (n_ - k_)
                for r_, x in enumerate(nodes):
                    x.lineno = x.end_lineno = st.lineno
                    x.col_offset = base + min(r_, 9000)
                    x.end_col_offset = base + min(r_, 9000) + 1
                g_.col_offset, g_.end_col_offset = base, base + 9999
            if res is not None:
                for x in ast.walk(res):
                    if isinstance(x, (ast.expr, ast.stmt)):
                        x.lineno, x.end_lineno, x.col_offset, x.end_col_offset = call.lineno, call.end_lineno, call.col_offset, call.end_col_offset
            out.extend(stmts)
            if isinstance(st, ast.Expr):
                if res is not None and not isinstance(res, (ast.Name, ast.Constant)):
                    out.append(ast.Expr(value=res))
            elif isinstance(st, ast.Assign):
                st.value = res if res is not None else ast.Constant(value=None)
                out.append(st)
            else:
                st.value = res
                out.append(st)
        return out

    def names_of(fn):
        return {n.id for n in ast.walk(fn) if isinstance(n, ast.Name)} | {a.arg for a in ast.walk(fn) if isinstance(a, ast.arg)}
    for st in tree.body:
        if isinstance(st, ast.FunctionDef) and ('f', st.name) not in helpers:
            st.body = rewrite_block(st.body, None, names_of(st))
        elif isinstance(st, ast.ClassDef):
            for mth in st.body:
                if isinstance(mth, ast.FunctionDef) and ('m', st.name, mth.name) not in helpers:
                    mth.body = rewrite_block(mth.body, st.name, names_of(mth))
    # a helper every call of which was read back is gone from the analysed program
    if used:
        refs = set()
        for n in ast.walk(tree):
            if isinstance(n, ast.Name) and isinstance(n.ctx, ast.Load):
                refs.add(n.id)
            elif isinstance(n, ast.Attribute):
                refs.add(n.attr)
        tree.body = [st for st in tree.body if not (isinstance(st, ast.FunctionDef) and ('f', st.name) in helpers and st.name in used and st.name not in refs)]
        for st in tree.body:
            if isinstance(st, ast.ClassDef):
                st.body = [mth for mth in st.body if not (isinstance(mth, ast.FunctionDef) and ('m', st.name, mth.name) in helpers and mth.name in used and mth.name not in refs)] or [ast.Pass()]
        ast.fix_missing_locations(tree)
    return sorted(set(used))


_TABLE = None


def table():
    global _TABLE
    if _TABLE is None:
        if os.path.exists(TABLE_PATH):
            _TABLE = json.load(open(TABLE_PATH))
        else:
            _TABLE = {}
    return _TABLE


def normalise(rel, tree, kwnames=frozenset()):
    """Rename parameters and locals of every function of `tree` to their reference names (in place).  Returns the list of
    (qualname, {spelled: reference}) actually applied."""
    applied = []
    tb = table()
    _plain_ranges(tree)
    if tb:
        hs = inline_unknown_helpers(tree, rel, tb)
        if hs:
            applied.append(('<module>', {h: '(inlined helper)' for h in hs}))
        bs = inline_unknown_block_helpers(tree, rel, tb)
        if bs:
            applied.append(('<module>', {h: '(helper block read back at its call sites)' for h in bs}))
    for qual, fn in functions(tree):
        ref = tb.get('%s::%s' % (rel, qual))
        if not ref:
            continue
        pm = _rename_params(fn, ref['params'], kwnames)
        if pm:
            applied.append((qual, dict(pm)))
        known = {d for d, k, x in ref['locals']}
        cl = inline_unknown_closures(fn, rel, qual, tb)
        if cl:
            applied.append((qual, {c: '(inlined local closure)' for c in cl}))
        reshape_unknown_conditional_assigns(fn, known, {x for d, k, x in ref['locals']})
        split_unknown_tuple_assigns(fn, known, {x for d, k, x in ref['locals']})
        split_unknown_block_local_defs(fn, known, {x for d, k, x in ref['locals']})
        merge_forwarded_results(fn, known, {x for d, k, x in ref['locals']})
        en = desugar_unknown_enumerate(fn, known)
        if en:
            ast.fix_missing_locations(fn)
            applied.append((qual, {t: '(enumerate loop read as an index loop)' for t in en}))
        inl = inline_unknown_temporaries(fn, known, {x for d, k, x in ref['locals']})
        en2 = desugar_unknown_enumerate(fn, known)         # forms that only appear once a temporary (n = len(A)) was read back
        if en2:
            ast.fix_missing_locations(fn)
            applied.append((qual, {t: '(zip / enumerate loop read as an index loop)' for t in en2}))
        if inl:
            ast.fix_missing_locations(fn)
            applied.append((qual, {t: '(inlined temporary)' for t in inl}))
        want = {(d, k): x for d, k, x in ref['locals']}
        sg, every = signatures(fn)
        m = {}
        for x, dk in sg.items():
            y = want.get(dk)
            if y is not None and y != x:
                m[x] = y
        if not m:
            continue
        # injective, and no capture: a new name must not already occur in the function unless it is renamed away itself
        new = list(m.values())
        if len(set(new)) != len(new):
            continue
        if any(y in every and y not in m for y in new):
            continue
        for n in ast.walk(fn):
            if isinstance(n, ast.Name) and n.id in m:
                n.id = m[n.id]
        applied.append((qual, dict(m)))
    return applied
