"""Syntax-directed statement walker: path conditions, loop nesting, def-use helpers.

Handles exactly the statement kinds the analysed files use; anything else is an AnalysisError
(fail closed) rather than a silent skip."""
import ast

from .model import AnalysisError, norm, walk_local

SIMPLE = (ast.Assign, ast.AugAssign, ast.AnnAssign, ast.Expr, ast.Return, ast.Raise, ast.Pass,
          ast.Continue, ast.Break, ast.Assert, ast.Import, ast.ImportFrom, ast.Delete, ast.Global,
          ast.Nonlocal)


class Ctx:
    __slots__ = ('conds', 'loops', 'block', 'index', 'parent_stmt')

    def __init__(self, conds, loops, block, index, parent_stmt):
        self.conds = conds          # tuple of (test node, polarity)
        self.loops = loops          # tuple of enclosing For/While nodes
        self.block = block          # list of statements containing the statement
        self.index = index
        self.parent_stmt = parent_stmt

    def cond_text(self):
        return ' and '.join(('' if pol else 'not ') + '(' + norm(t) + ')' for t, pol in self.conds)


def _exits(block):
    """True iff the block always leaves the enclosing block (return / raise / continue / break last)."""
    if not block:
        return False
    last = block[-1]
    if isinstance(last, (ast.Return, ast.Raise, ast.Continue, ast.Break)):
        return True
    if isinstance(last, ast.If) and last.orelse:
        return _exits(last.body) and _exits(last.orelse)
    return False


def _lit(test, pol):
    """(test, polarity) with leading `not`s moved into the polarity: `not A` false is `A` true."""
    while isinstance(test, ast.UnaryOp) and isinstance(test.op, ast.Not):
        test, pol = test.operand, not pol
    return (test, pol)


def _continuing(st):
    """Conditions that hold after an `if` statement on every path that falls through it, as a conjunction of (test, polarity):
    `if A: exit` gives not A; `if A: exit / elif B: exit / elif C: ...` gives not A and not B (and whatever the last arm gives);
    `if A: ... else: exit` gives A.  () when nothing can be said."""
    if _exits(st.body):
        out = (_lit(st.test, False),)
        if len(st.orelse) == 1 and isinstance(st.orelse[0], ast.If):
            out = out + _continuing(st.orelse[0])
        return out
    if st.orelse and _exits(st.orelse):
        return (_lit(st.test, True),)
    return ()


def walk(func_node):
    """Yield (stmt, Ctx) for every statement of a function body in source order (nested defs skipped)."""
    def rec(block, conds, loops, parent):
        extra = ()
        for i, st in enumerate(block):
            c = conds + extra
            yield st, Ctx(c, loops, block, i, parent)
            if isinstance(st, ast.If):
                yield from rec(st.body, c + (_lit(st.test, True),), loops, st)
                yield from rec(st.orelse, c + (_lit(st.test, False),), loops, st)
                extra = extra + _continuing(st)
            elif isinstance(st, (ast.For, ast.While)):
                yield from rec(st.body, c, loops + (st,), st)
                yield from rec(st.orelse, c, loops, st)
            elif isinstance(st, ast.With):
                yield from rec(st.body, c, loops, st)
            elif isinstance(st, ast.Try):
                yield from rec(st.body, c, loops, st)
                for h in st.handlers:
                    yield from rec(h.body, c, loops, st)
                yield from rec(st.orelse, c, loops, st)
                yield from rec(st.finalbody, c, loops, st)
            elif isinstance(st, (ast.FunctionDef, ast.ClassDef)):
                continue
            elif isinstance(st, SIMPLE):
                continue
            else:
                raise AnalysisError('unsupported statement kind %s at line %s' % (type(st).__name__, st.lineno))
    yield from rec(func_node.body, (), (), func_node)


def targets_of(st):
    """Flattened assignment targets of a statement (Name / Attribute / Subscript nodes)."""
    out = []

    def flat(t):
        if isinstance(t, (ast.Tuple, ast.List)):
            for e in t.elts:
                flat(e)
        elif isinstance(t, ast.Starred):
            flat(t.value)
        else:
            out.append(t)
    if isinstance(st, ast.Assign):
        for t in st.targets:
            flat(t)
    elif isinstance(st, (ast.AugAssign, ast.AnnAssign)):
        flat(st.target)
    elif isinstance(st, ast.For):
        flat(st.target)
    return out


def assigned_pairs(st):
    """For `a, b = x, y` give [(a,x),(b,y)]; for `a = x` give [(a,x)]; for `a, b = f()` give
    [(a, ('item',0,call)), (b, ('item',1,call))]."""
    out = []
    if not isinstance(st, ast.Assign):
        return out
    for t in st.targets:
        if isinstance(t, (ast.Tuple, ast.List)):
            if isinstance(st.value, (ast.Tuple, ast.List)) and len(st.value.elts) == len(t.elts):
                out.extend(zip(t.elts, st.value.elts))
            else:
                for i, e in enumerate(t.elts):
                    out.append((e, ('item', i, st.value)))
        else:
            out.append((t, st.value))
    return out


def defs_of(func_node, name):
    """All statements of the function that assign the local `name` (Assign/AugAssign/For target)."""
    out = []
    for st, ctx in walk(func_node):
        for t in targets_of(st):
            if isinstance(t, ast.Name) and t.id == name:
                out.append((st, ctx))
    return out


def names_in(node):
    return {n.id for n in ast.walk(node) if isinstance(n, ast.Name)}


def root_name(node):
    """Root Name of an attribute/subscript/call chain (self.gs[:, m] -> self)."""
    while True:
        if isinstance(node, (ast.Attribute, ast.Subscript, ast.Starred)):
            node = node.value
        elif isinstance(node, ast.Call):
            node = node.func
        else:
            break
    return node.id if isinstance(node, ast.Name) else None


def attr_chain(node):
    """('self','gs') for self.gs ; None if not a pure Name.attr... chain."""
    parts = []
    while isinstance(node, ast.Attribute):
        parts.append(node.attr)
        node = node.value
    if isinstance(node, ast.Name):
        parts.append(node.id)
        return tuple(reversed(parts))
    return None


def is_const_false(test):
    """Constant-fold tests such as `False and X`."""
    if isinstance(test, ast.Constant):
        return not test.value
    if isinstance(test, ast.BoolOp) and isinstance(test.op, ast.And):
        return any(is_const_false(v) for v in test.values)
    if isinstance(test, ast.UnaryOp) and isinstance(test.op, ast.Not):
        return is_const_true(test.operand)
    return False


def is_const_true(test):
    if isinstance(test, ast.Constant):
        return bool(test.value)
    if isinstance(test, ast.BoolOp) and isinstance(test.op, ast.Or):
        return any(is_const_true(v) for v in test.values)
    if isinstance(test, ast.UnaryOp) and isinstance(test.op, ast.Not):
        return is_const_false(test.operand)
    return False


def in_raise(func_node):
    """Set of node ids that are inside the expression of a raise statement."""
    ids = set()
    for n in walk_local(func_node):
        if isinstance(n, ast.Raise):
            for m in ast.walk(n):
                ids.add(id(m))
    return ids
