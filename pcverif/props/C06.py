"""C06 Measurement follows the Born rule and the projection postulate -- structural clauses."""
import ast

from ..flow import walk
from ..model import norm
from ..rules import resolve, bind, inout, kinds, rngsites
from . import common as K
from . import projk

EXPLANATION = ('stabilizer_measure (pyclifford): guards abstracted to tableau row classes (pivot {SS,AS,SD}, rank drop '
               '{SS,SD}, phase update {SS,AS}, accumulation {AD} reading row j-N), the replacement block interpreted on '
               'row labels for all N<=3 (partner row, copy order, r-=1, relocation, sign written at the new stabilizer), '
               'product sites paired with phases, fair coin 2*bit with log2prob -= 1 in the same block, deterministic '
               'branch writes nothing, outcome decode table; StabilizerState.measure stores gs, ps and r back (both '
               'packages); call binding.  The numerical value of log2prob and exactness of the post-measurement state '
               'are not decided')
TRUSTED = ['CPython ast', 'tableau layout of the StabilizerState docstring', 'C01 (acq, ipow exact)', 'naming scheme']


def check(run):
    repo = run.repo
    f, k = projk.guards_and_block(run, repo, K.PY_U, 'stabilizer_measure', signed=True)
    from ..rules import rowclass
    rowclass.check_priority(run, f, k)
    K.product_sites(run, f, floor=2)
    projk.check_decodes(run, f)
    projk.coin_and_probability(run, f, k)
    rngsites.check_function(run, f)
    kinds.check_function(run, repo, f)
    # result tuple of the kernel: (gs_stb, ps_stb, r, out, log2prob)
    rets = [st.value for st, _ in walk(f.node) if isinstance(st, ast.Return)]
    ok = len(rets) == 1 and isinstance(rets[0], ast.Tuple) and [norm(e) for e in rets[0].elts][:3] == f.posparams[:2] + ['r']
    run.check(ok, 'R5.ret', f, rets[0] if rets else 'return', 'the kernel must return the updated (tableau, phases, rank, ...)')
    for rel in (K.PY_S, K.TC_S):
        K.stabilizers_property(run, repo, rel)
        K.own_rank_bounds(run, repo, rel)
        m = repo.func(rel, 'StabilizerState.measure')
        inout.check_function(run, repo, m, {'stabilizer_measure'})
        bind.check_function_calls(run, repo, m, only={'stabilizer_measure'})
        bind.check_unpacks(run, repo, m)
        for c, t, h in repo.callees(m):
            if h == 'name' and t[0].name == 'stabilizer_measure':
                args = K.actual_texts(t[0], c)
                obs = m.posparams[1]
                run.check(args[:5] == ['self.gs', 'self.ps', '%s.gs' % obs, '%s.ps' % obs, 'self.r'], 'R2.measure', m, c,
                          'measure(obs) must hand (self.gs, self.ps, obs.gs, obs.ps, self.r) to the kernel')
        conv = [norm(st.value) for st, ctx in walk(m.node) if isinstance(st, ast.Assign) and norm(st.targets[0]) == m.posparams[1]
                and any(pol and 'StabilizerState' in norm(t) for t, pol in ctx.conds)]
        run.check(conv == ['%s.stabilizers' % m.posparams[1]], 'R13.active', m, 'obs = obs.stabilizers', 'measuring a state measures its active stabilizers only')
        rets = [st.value for st, _ in walk(m.node) if isinstance(st, ast.Return)]
        run.check(len(rets) == 1 and norm(rets[0]) == '(out, log2prob)', 'R2.measure', m, 'return',
                  'measure must return (out, log2prob) of the kernel')
    entries = [repo.func(K.PY_S, 'StabilizerState.measure'), repo.func(K.PY_U, 'stabilizer_measure')]
    resolve.check_cone(run, repo, entries, 'measure')
    run.floor('R9.pivot', 2)
    run.floor('R9.extend', 1)
    run.floor('R9.phase', 1)
    run.floor('R9.accum', 4)
    run.floor('R9.block', 1)
    run.floor('R9.priority', 1)
    run.floor('R7a', 2)
    run.floor('R3.decode', 4)
    run.floor('R11.coin', 3)
    run.floor('R5', 5)
    run.floor('R15', 1)
    run.decide('measurement kernel: row-class guards, replacement/relocation index logic (all N<=3), phase companions, '
               'fair coin + log2prob pairing, silent deterministic branch, outcome decode; measure() stores gs, ps, r')
    run.decline('equality of log2prob with the true joint probability, exactness of the post-measurement state and '
                'idempotence of repeated measurement (values of a loop nest); the vectorised torch kernel '
                '(different algorithm; its guards are checked under C13)')
