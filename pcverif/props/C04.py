"""C04 Clifford maps form a group under compose and inverse -- decided for its last sentence and the wiring."""
import ast

from ..flow import walk
from ..model import norm
from ..rules import resolve, bind, pair, effect
from . import common as K

EXPLANATION = ('effect summaries decide that compose and inverse leave their operands unchanged and return fresh '
               'maps; call binding decides that compose transforms the receiver rows by the argument map (receiver '
               'first), that inverse combines the GF(2) inverse rows with the receiver and corrects the phase with '
               '-(mismatch) - ps0(gs_inv) mod 4, and that identity_map is eye with zero phases; z2inv raises on a '
               'singular matrix.  Associativity / two-sided inverse / anti-homomorphism rest on the Gauss-Jordan '
               'kernel and are not decided')
TRUSTED = ['CPython ast', 'effects.py view/copy table', 'the naming scheme', 'C03 (pauli_transform formula)']


def check(run):
    repo = run.repo
    eff = K.effects_of(repo)
    for rel in (K.PY_S, K.TC_S):
        pkg = rel.split('/')[0]
        cm = repo.cls(pkg, 'CliffordMap')
        comp, inv = cm.methods['compose'], cm.methods['inverse']
        for m in (comp, inv):
            effect.check_pure(run, eff, m)
            effect.check_fresh_result(run, eff, m)
        # compose = pauli_transform(self rows, other map)
        other = comp.posparams[1]
        calls = [(c, t[0]) for c, t, h in repo.callees(comp) if h == 'name' and t[0].name == 'pauli_transform']
        if len(calls) != 1:
            run.undecided('R2.compose', comp, 'compose', 'expected exactly one call of pauli_transform')
        else:
            c, callee = calls[0]
            bind.check_call(run, repo, comp, c, callee)
            args = K.actual_texts(callee, c)
            run.check(args == ['self.gs', 'self.ps', '%s.gs' % other, '%s.ps' % other], 'R2.compose', comp, c,
                      'compose(other): this map transforms first, i.e. the receiver\'s rows are transformed by the '
                      'other map: pauli_transform(self.gs, self.ps, %s.gs, %s.ps)' % (other, other))
        bind.check_unpacks(run, repo, comp)
        bind.check_function_calls(run, repo, comp, only={'CliffordMap'})
        ctor = [c for c, t, h in repo.callees(comp) if h == 'name' and t[0].name == 'CliffordMap']
        rets = [st for st, _ in walk(comp.node) if isinstance(st, ast.Return)]
        run.check(len(ctor) == 1 and len(rets) == 1 and rets[0].value is ctor[0], 'R2.compose', comp, 'return',
                  'compose must return a newly constructed CliffordMap')
        # inverse
        zinv = [c for c in ast.walk(inv.node) if isinstance(c, ast.Call) and norm(c.func).split('.')[-1] == 'z2inv']
        run.check(len(zinv) == 1 and 'self.gs' in norm(zinv[0].args[0]), 'R2.inverse', inv, 'z2inv(self.gs)',
                  'the inverse table must be the GF(2) inverse of the receiver\'s table')
        gs_inv = None
        for st, _ in walk(inv.node):
            if isinstance(st, ast.Assign) and zinv and any(n is zinv[0] for n in ast.walk(st.value)) \
                    and isinstance(st.targets[0], ast.Name):
                gs_inv = st.targets[0].id
        comb = [(c, t[0]) for c, t, h in repo.callees(inv) if h == 'name' and t[0].name == 'pauli_combine']
        ps_mis = None
        if len(comb) == 1 and gs_inv:
            c, callee = comb[0]
            bind.check_call(run, repo, inv, c, callee)
            args = K.actual_texts(callee, c)
            run.check(args == [gs_inv, 'self.gs', 'self.ps'], 'R2.inverse', inv, c,
                      'the inverse rows select products of the receiver\'s rows: pauli_combine(%s, self.gs, self.ps)' % gs_inv)
            for st, _ in walk(inv.node):
                if isinstance(st, ast.Assign) and st.value is c and isinstance(st.targets[0], ast.Tuple):
                    ps_mis = norm(st.targets[0].elts[1])
        else:
            run.undecided('R2.inverse', inv, 'inverse', 'pauli_combine call / gs_inv not recognised')
        formula = None
        for st, _ in walk(inv.node):
            if isinstance(st, ast.Assign) and isinstance(st.targets[0], ast.Name) \
                    and bind.name_role(st.targets[0].id) == 'PHASE' and isinstance(st.value, ast.BinOp):
                formula = st
        if formula is None:
            # the correction may be written directly as the second argument of the returned CliffordMap(...)
            for c, t, h in repo.callees(inv):
                if h == 'name' and t[0].name == 'CliffordMap' and len(c.args) == 2 and isinstance(c.args[1], ast.BinOp):
                    formula = ast.copy_location(ast.Assign(targets=[ast.Name(id='<phases>', ctx=ast.Store())], value=c.args[1]), c)
        if formula is None or ps_mis is None:
            run.undecided('R6.inverse', inv, 'ps_inv', 'phase correction not recognised')
        else:
            inner, red = pair.strip_mod(formula.value, 4)
            run.check(red, 'R7d', inv, formula, 'inverse phases are not reduced % 4')
            terms = [(s, n) for s, n in pair.summands(inner)]
            neg = [norm(n) for s, n in terms if s < 0]
            pos = [norm(n) for s, n in terms if s > 0]
            p0 = [n for s, n in terms if s < 0 and isinstance(n, ast.Call) and norm(n.func).split('.')[-1] == 'ps0'
                  and [norm(a) for a in n.args] == [gs_inv]]
            run.check(ps_mis in neg, 'R6.inverse', inv, formula, 'the phase mismatch %s must be subtracted' % ps_mis)
            run.check(len(p0) == 1, 'R6.inverse', inv, formula, 'the x.z correction ps0(%s) must be subtracted' % gs_inv)
            run.check(not pos and len(neg) == 2, 'R6.inverse', inv, formula, 'unexpected phase terms %s' % (pos + neg))
            ctor = [c for c, t, h in repo.callees(inv) if h == 'name' and t[0].name == 'CliffordMap']
            ok = len(ctor) == 1 and len(ctor[0].args) == 2 and norm(ctor[0].args[0]) == gs_inv \
                and (norm(ctor[0].args[1]) == norm(formula.targets[0]) or ctor[0].args[1] is formula.value)
            run.check(ok, 'R2.inverse', inv, ctor[0] if ctor else 'return', 'inverse must return CliffordMap(%s, %s)'
                      % (gs_inv, norm(formula.targets[0])))
        # identity
        f = repo.func(rel, 'identity_map')
        effect.check_pure(run, eff, f)
        inits = [norm(st.value.func).split('.')[-1] for st, _ in walk(f.node)
                 if isinstance(st, ast.Assign) and isinstance(st.value, ast.Call)]
        ctor = [c for c, t, h in repo.callees(f) if h == 'name' and t[0].name == 'CliffordMap']
        run.check(inits[:1] == ['eye'] and len(ctor) == 1 and len(ctor[0].args) + len(ctor[0].keywords) == 1,
                  'R12.identity', f, 'identity_map', 'identity map must be eye(2N) with default (zero) phases')
    for rel in (K.PY_U, K.TC_U):
        f = repo.func(rel, 'z2inv')
        raises = [st for st, ctx in walk(f.node) if isinstance(st, ast.Raise)]
        run.check(bool(raises), 'R11.singular', f, 'raise on singular matrix', 'z2inv must raise when no pivot is found')
        effect.check_pure(run, eff, f)
    entries = []
    for rel in (K.PY_S, K.TC_S):
        entries += [repo.func(rel, 'CliffordMap.compose'), repo.func(rel, 'CliffordMap.inverse'), repo.func(rel, 'identity_map')]
    resolve.check_cone(run, repo, entries, 'group')
    run.floor('R4a', 10)
    run.floor('R2', 20)
    run.floor('R6.inverse', 6)
    run.decide('compose / inverse / identity_map / z2inv write nothing reachable from their operands and return fresh '
               'maps; compose = pauli_transform(receiver rows, argument map); inverse = (z2inv(gs), -(mismatch) - '
               'ps0(gs_inv) mod 4) built from pauli_combine(gs_inv, gs, ps); identity = (eye, 0); singular input raises')
    run.decline('associativity, two-sided inverse, inverse of a composition: they rest on the Gauss-Jordan kernel '
                'z2inv and on phase identities that need loop reasoning')
