"""C02 Clifford rotation by a Pauli generator is conjugation by exp(i*pi/4*G)."""
import ast

from ..flow import walk
from ..model import norm
from ..rules import resolve, bind, pair, rotate, inout, parallel
from . import common as K

EXPLANATION = ('the rotation kernels of both packages are reduced to the record (guard = acq(G,P); phase increment = '
               'p_G + const + ipow; string = P xor G; only guarded rows are written) and compared with i*P*G; '
               'masked rotate_by gathers and scatters through the identical interleaved column mask; call binding of '
               'every caller; R1 over the cone.  acq/ipow themselves are proved under C01')
TRUSTED = ['CPython ast', 'the g*/p* naming scheme', 'C01 (acq, ipow exact)',
           'numpy/torch: boolean-mask indexing copies, basic slicing views']


def override_covers_rows(run, repo, pkg, rule='R13.override'):
    """A state is a list of 2N rows; rotate_by / transform_by act on every row (standby rows included: they are part of the
    symplectic basis).  If StabilizerState (or CliffordMap) overrides one of them, the override is executed on N = 3, r = 1 and the
    rows it hands to the list operation are collected: they must be all 2N rows."""
    from .. import mini
    from ..exprnf import Undecidable
    n = 0
    for cname in ('StabilizerState', 'CliffordMap'):
        c = repo.find_cls(pkg, cname)
        if c is None:
            continue
        for mname in ('rotate_by', 'transform_by'):
            m = c.methods.get(mname)
            if m is None:
                continue
            n += 1
            rows = set()
            ALL = set(range(6))

            class _Rows:
                def __init__(self, r):
                    self.r = set(r)

            def attr(nd, env, rec):
                t = norm(nd)
                if t in ('self.N', 'self.r', 'self.L'):
                    return {'self.N': 3, 'self.r': 1, 'self.L': 6}[t]
                raise Undecidable('attribute ' + t)

            def sub(nd, env, rec):
                if norm(nd.value) == 'self':
                    k = rec(nd.slice)
                    if isinstance(k, slice):
                        return _Rows(range(6)[k])
                    if isinstance(k, int):
                        return _Rows([range(6)[k]])
                b = rec(nd.value)
                if isinstance(b, tuple):
                    return b[rec(nd.slice)]
                raise Undecidable('subscript ' + norm(nd))

            def call(nd, env, rec):
                fn = nd.func
                if isinstance(fn, ast.Name) and fn.id == 'slice':
                    return slice(*[rec(a) for a in nd.args])
                if isinstance(fn, ast.Attribute) and fn.attr in ('rotate_by', 'transform_by'):
                    if isinstance(fn.value, ast.Call) and norm(fn.value.func) == 'super':
                        rows.update(ALL)
                        return None
                    if isinstance(fn.value, ast.Name) and fn.value.id in ('PauliList',) and nd.args and norm(nd.args[0]) == 'self':
                        rows.update(ALL)
                        return None
                    if norm(fn.value) == 'self':
                        raise Undecidable('recursive call')
                    b = rec(fn.value)
                    if isinstance(b, _Rows):
                        rows.update(b.r)
                        return b
                raise Undecidable('call ' + norm(fn))

            def on_expr(e, env, value):
                value(e)
            try:
                mini.execute(m.node, dict({p_: None for p_ in m.posparams[1:]}, self='SELF'), sub=sub, call=call, attr=attr, on_expr=on_expr)
            except (Undecidable, TypeError, ValueError) as e:
                run.undecided(rule, m, m.qual, 'override of %s not executable on row sets: %s' % (mname, e))
                continue
            run.check(rows == ALL, rule, m, m.qual, '%s.%s overrides the list operation and applies it to rows %s of a tableau with N = 3, r = 1: rows %s are not '
                      'transformed (standby rows belong to the symplectic basis; left behind they no longer pair with their partners)'
                      % (cname, mname, sorted(rows), sorted(ALL - rows)))
    return n


def check(run):
    repo = run.repo
    rotate.check_loop_rotation(run, repo.func(K.PY_U, 'clifford_rotate'), signed=True)
    rotate.check_loop_rotation(run, repo.func(K.PY_U, 'clifford_rotate_signless'), signed=False)
    rotate.check_masked_rotation(run, repo.func(K.TC_U, 'clifford_rotate'), signed=True)
    rotate.check_masked_rotation(run, repo.func(K.TC_U, 'clifford_rotate_signless'), signed=False)
    # callers
    for rel in (K.PY_P, K.TC_P):
        f = repo.func(rel, 'PauliList.rotate_by')
        n = inout.check_function(run, repo, f, {'clifford_rotate'})
        bind.check_function_calls(run, repo, f, only={'clifford_rotate'})
        parallel.mask_expansion(run, f)
        parallel.masked_selection(run, repo, f, {'clifford_rotate'})
        calls = [c for c, t, h in repo.callees(f) if h == 'name' and t[0].name == 'clifford_rotate']
        if len(calls) < 2:
            run.undecided('R5', f, 'rotate_by', 'expected a masked and an unmasked call of clifford_rotate')
        # the generator's string AND phase are passed (rotating by -G must differ from rotating by G)
        gen = f.posparams[1]
        for c in calls:
            args = K.actual_texts(repo.resolve_local(f, 'clifford_rotate'), c)
            run.check('%s.g' % gen in args and '%s.p' % gen in args, 'R6.gen', f, c,
                      'rotate_by must pass both the string and the phase of the generator to the kernel')
        al = repo.func(rel, 'Pauli.as_list')
        bind.check_function_calls(run, repo, al, only={'PauliList'})
        defs = {norm(st.targets[0]): norm(st.value).replace(' ', '') for st, _ in walk(al.node) if isinstance(st, ast.Assign)}
        run.check('self.g' in defs.get('gs', '') and '[self.p]' in defs.get('ps', ''), 'R6.aslist', al, 'as_list', 'the one-element list carries the string and the phase of the operator (found %s)' % defs)
        f = repo.func(rel, 'Pauli.rotate_by')
        # delegation through as_list(): result fields are written back to self.g / self.p
        srcs = {}
        for st, ctx in walk(f.node):
            if isinstance(st, ast.Assign) and isinstance(st.targets[0], ast.Attribute) \
                    and norm(st.targets[0].value) == 'self':
                srcs[st.targets[0].attr] = st
        for attr, want in (('g', 'gs'), ('p', 'ps')):
            st = srcs.get(attr)
            if st is None:
                run.violation('R5.back', f, 'self.%s' % attr, 'rotated %s of the single operator is never written back' % attr)
            else:
                ok = isinstance(st.value, ast.Subscript) and isinstance(st.value.value, ast.Attribute) \
                    and st.value.value.attr == want and norm(st.value.slice) == '0'
                run.check(ok, 'R5.back', f, st, 'self.%s must receive row 0 of the rotated list\'s %s' % (attr, want))
        deleg = [c for c in ast.walk(f.node) if isinstance(c, ast.Call) and isinstance(c.func, ast.Attribute)
                 and c.func.attr == 'rotate_by']
        for c in deleg:
            passed = [norm(a) for a in c.args] + ['%s=%s' % (k.arg, norm(k.value)) for k in c.keywords]
            run.check(f.posparams[1] in passed and ('mask=mask' in passed or 'mask' in passed), 'R2.deleg', f, c,
                      'Pauli.rotate_by must forward generator and mask to the list rotation')
    for rel in (K.PY_S, K.TC_S):
        f = repo.func(rel, 'clifford_rotation_map')
        from ..rules import effect
        effect.check_pure(run, K.effects_of(repo), f)
        effect.check_fresh_result(run, K.effects_of(repo), f)
        bind.check_function_calls(run, repo, f, only={'clifford_rotate', 'CliffordMap'})
        bind.check_unpacks(run, repo, f)
        # rotation applied to the identity table with zero phases: read from what reaches the kernel (locals or the expressions
        # themselves in the call)
        from ..names import deref as _deref
        kc = [(c, t[0]) for c, t, h in repo.callees(f) if h == 'name' and t[0].name == 'clifford_rotate']
        got = [None, None]
        if len(kc) == 1:
            from ..names import inlined as _inl
            acts = K.actuals(kc[0][1], kc[0][0])
            cctx = [ctx for st, ctx in walk(f.node) if any(x is kc[0][0] for x in ast.walk(st)) and not isinstance(st, (ast.If, ast.For, ast.While, ast.With, ast.Try))]
            for k_, a_ in enumerate(acts[2:4]):
                d_ = _inl(f, a_, depth=1, ctx=cctx[0] if cctx else None) if a_ is not None else None     # the definition that reaches the call
                if isinstance(d_, ast.Call):
                    got[k_] = norm(d_.func).split('.')[-1]
        run.check(got[0] in ('eye', 'identity'), 'R12.init', f, 'gs = eye(2N)',
                  'the rotation map must start from the identity table')
        run.check(got[1] == 'zeros', 'R12.init', f, 'ps = zeros(2N)',
                  'the rotation map must start from zero phases')
    for pkg_ in ('pyclifford', 'torchclifford'):
        override_covers_rows(run, repo, pkg_)
    # the rotation gate acts on the support of its generator (condense): a qubit is in the support iff (x, z) != (0, 0)
    from .C18 import support_mask
    for urel in (K.PY_U, K.TC_U):
        support_mask(run, repo.func(urel, 'condense'))
    run.floor('R12.support', 2)
    # __neg__ adds 2 (so that rotating by -G is the inverse rotation): constant checked here, table under C20
    for rel in (K.PY_P, K.TC_P):
        f = repo.func(rel, 'Pauli.__neg__')
        from ..rules import tables
        k = tables_neg_const(f)
        run.check(k == 2, 'R12.neg', f, '-generator', 'negation must add 2 to the phase indicator (found %r)' % (k,))
    entries = [repo.func(K.PY_P, 'PauliList.rotate_by'), repo.func(K.PY_P, 'Pauli.rotate_by'),
               repo.func(K.TC_P, 'PauliList.rotate_by'), repo.func(K.TC_P, 'Pauli.rotate_by'),
               repo.func(K.PY_S, 'clifford_rotation_map'), repo.func(K.TC_S, 'clifford_rotation_map'),
               repo.func(K.PY_U, 'clifford_rotate_signless'), repo.func(K.TC_U, 'clifford_rotate_signless')]
    resolve.check_cone(run, repo, entries, 'rotation')
    run.floor('R6.aslist', 2)
    run.floor('R7c', 2)
    run.floor('R7.guard', 4)
    run.floor('R7.untouched', 6)
    run.floor('R7e', 4)
    run.floor('R5', 6)
    run.floor('R13.masksel', 2)
    run.floor('R13.mask', 2)
    run.floor('R2', 12)
    run.decide('rotation kernels (py loop form, torch masked form, signless twins): guard is acq(G,P), phase '
               'increment is p_G + 1 + ipow(P,G) (or +3 with ipow(G,P)), string is P xor G, commuting rows are not '
               'written; masked rotate_by gathers/scatters the same repeat(mask,2) columns; generator sign reaches '
               'the kernel; rotation map = rotation of (eye, zeros)')
    run.decline('"four rotations restore every input" and "-G undoes G" as behaviours (consequences of the record '
                'and of __neg__ = +2); behaviour for non-Hermitian generators')


def tables_neg_const(f):
    """k such that __neg__ returns ...(self.g, (self.p + k) % 4)."""
    from ..exprnf import ev, Undecidable
    for st, ctx in walk(f.node):
        if isinstance(st, ast.Return) and isinstance(st.value, ast.Call) and len(st.value.args) == 2:
            e = st.value.args[1]
            ks = set()
            for t in range(4):
                def attr(n, env, rec, t=t):
                    if norm(n) in ('self.p', 'self.ps'):
                        return t
                    raise Undecidable('attr')
                try:
                    ks.add((ev(e, {}, attr=attr) - t) % 4)
                except Undecidable:
                    return None
            if len(ks) == 1:
                return ks.pop()
    return None
