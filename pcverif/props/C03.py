"""C03 Applying a Clifford map is a unitary conjugation (phase-exact homomorphism)."""
import ast

from ..flow import walk, defs_of
from ..model import norm
from ..rules import resolve, bind, pair, inout, parallel
from . import common as K

EXPLANATION = ('pauli_combine is checked as an ordered product (accumulator is the left factor, ascending rows, '
               'selected by C[out,in], phase before string, identity start); pauli_transform is checked for the '
               'formula ps_out = ps_in + ps0(gs_in) + combined phase (mod 4) with the map rows as factors and the '
               'operator bits as selector; masked transform_by gathers/scatters identical interleaved columns; embed '
               'writes gs block and ps through the same expanded mask; transform/rotate never touch coefficients; '
               'ps0 is proved against the oracle; binding of every caller; R1 over the cone')
TRUSTED = ['CPython ast', 'the g*/p*/c* naming scheme', 'C01 (ipow exact)', 'oracle.py']


def combine(run, f):
    sites = K.product_sites(run, f, order='acc_left', floor=1)
    if not sites:
        return
    s = sites[0]
    sel = f.posparams[0]
    rows_in = f.posparams[1]
    # selector guard C[out_row, in_row]
    t_idx = norm(s.target.slice)
    other = s.b if s.acc == 'a' else s.a
    o_idx = norm(pair.strip_shape(other).slice) if isinstance(pair.strip_shape(other), ast.Subscript) else None
    guards = [norm(t) for t, pol in s.ctx.conds if pol]
    want = '%s[%s, %s]' % (sel, t_idx, o_idx)
    if guards:
        run.check(want in guards, 'R7.select', f, s.st, 'row %s of the inputs must enter output %s exactly when %s is '
                  'set; the guard is %s' % (o_idx, t_idx, want, guards))
    else:
        # torch form: indices come from nonzero(C): rows -> output index, columns -> input index
        ok = False
        for st, ctx in walk(f.node):
            if isinstance(st, ast.Assign) and isinstance(st.value, ast.Call) and norm(st.value.func).endswith('nonzero') \
                    and st.value.args and norm(st.value.args[0]) == sel and isinstance(st.targets[0], ast.Tuple):
                rows_v, cols_v = [norm(e) for e in st.targets[0].elts]
                # row_ind, column_ind = C_rows[i], C_columns[i]
                for st2, _ in walk(f.node):
                    if isinstance(st2, ast.Assign) and isinstance(st2.targets[0], ast.Tuple) \
                            and isinstance(st2.value, ast.Tuple):
                        m = dict(zip([norm(e) for e in st2.targets[0].elts], [norm(e) for e in st2.value.elts]))
                        if m.get(t_idx, '').startswith(rows_v + '[') and m.get(o_idx, '').startswith(cols_v + '['):
                            ok = True
                        elif t_idx in m and o_idx in m:
                            run.violation('R7.select', f, st2, 'output index must come from the nonzero rows of the '
                                          'selector and input index from its columns')
                            ok = None
                    # for row_ind, column_ind in zip(C_rows, C_columns): the same pairing written as a zip loop
                    if isinstance(st2, ast.For) and isinstance(st2.target, ast.Tuple) and isinstance(st2.iter, ast.Call) \
                            and norm(st2.iter.func) == 'zip' and len(st2.iter.args) == len(st2.target.elts) == 2:
                        m = dict(zip([norm(e) for e in st2.target.elts], [norm(e) for e in st2.iter.args]))
                        if m.get(t_idx) == rows_v and m.get(o_idx) == cols_v:
                            ok = True
                        elif t_idx in m and o_idx in m:
                            run.violation('R7.select', f, st2.iter, 'output index must come from the nonzero rows of the '
                                          'selector and input index from its columns')
                            ok = None
        if ok is True:
            run.ok('R7.select', f, s.st, 'indices from nonzero(%s)' % sel)
        elif ok is False:
            run.undecided('R7.select', f, s.st, 'selector guard not recognised')
    # ascending loops
    for lp in s.ctx.loops:
        if isinstance(lp, ast.For) and isinstance(lp.iter, ast.Call) and norm(lp.iter.func) == 'range':
            run.check(len(lp.iter.args) == 1, 'R10.asc', f, lp.iter, 'ordered product: rows must be multiplied in '
                      'ascending order (X image before Z image)')
        elif isinstance(lp, ast.For) and isinstance(lp.iter, ast.Call) and norm(lp.iter.func) in ('zip', 'enumerate') and lp.iter.args \
                and all(isinstance(a, (ast.Name, ast.Attribute)) for a in lp.iter.args) and not lp.iter.keywords:
            # the sequences themselves, element by element from the first: the order in which they were produced
            run.ok('R10.asc', f, lp.iter, 'sequences walked from their first element')
        else:
            run.undecided('R10.asc', f, lp.iter, 'loop is not a range')
    # identity start
    for name, what in ((norm(pair.strip_shape(s.target).value), 'strings'),
                       (pair.phase_expr_of(s.target).split('[')[0], 'phases')):
        ds = [d for d in defs_of(f.node, name) if isinstance(d[0], ast.Assign) and not d[1].loops]
        ok = bool(ds) and all(isinstance(d[0].value, ast.Call) and norm(d[0].value.func).split('.')[-1] == 'zeros'
                              for d in ds)
        run.check(ok, 'R7.start', f, '%s = zeros' % name, 'the accumulated %s must start from the identity (zeros)' % what)


def transform(run, repo, f):
    bind.check_function_calls(run, repo, f, only={'pauli_combine'})
    bind.check_unpacks(run, repo, f)
    gs_in, ps_in, gs_map, ps_map = f.posparams[:4]
    call = None
    for c, t, h in repo.callees(f):
        if h == 'name' and t[0].name == 'pauli_combine':
            call = c
            callee = t[0]
    if call is None:
        run.undecided('R2', f, 'pauli_transform', 'no call of pauli_combine')
        return
    args = K.actual_texts(callee, call)
    run.check(args == [gs_in, gs_map, ps_map], 'R2.combine', f, call,
              'the operator bits select rows of the map: expected pauli_combine(%s, %s, %s)' % (gs_in, gs_map, ps_map))
    # formula
    comb_ps = None
    for st, ctx in walk(f.node):
        if isinstance(st, ast.Assign) and st.value is call and isinstance(st.targets[0], ast.Tuple):
            comb_ps = norm(st.targets[0].elts[1])
    formula = None
    for st, ctx in walk(f.node):
        if isinstance(st, ast.Assign) and bind.target_role(f, st.targets[0]) == 'PHASE' and st.value is not call \
                and not isinstance(st.targets[0], ast.Tuple):
            formula = st
    if formula is None:
        run.violation('R6.formula', f, 'ps_out', 'the transformed phase never adds the input phase and the x.z correction')
        return
    inner, red = pair.strip_mod(formula.value, 4)
    run.check(red, 'R7d', f, formula, 'transformed phase is not reduced % 4')
    terms = [(s, norm(n), n) for s, n in pair.summands(inner)]
    pos = [t for s, t, n in terms if s > 0]
    run.check(ps_in in pos, 'R6.formula', f, formula, 'phase of the input operator (%s) is not added' % ps_in)
    run.check(comb_ps in pos, 'R6.formula', f, formula, 'phase of the combined map rows (%s) is not added' % comb_ps)
    p0 = [n for s, t, n in terms if s > 0 and isinstance(n, ast.Call) and norm(n.func).split('.')[-1] == 'ps0']
    run.check(len(p0) == 1 and [norm(a) for a in p0[0].args] == [gs_in], 'R6.formula', f, formula,
              'the x.z correction ps0(%s) of the input strings is missing: Y = iXZ would map to the bare product' % gs_in)
    extra = [t for s, t, n in terms if not (t in (ps_in, comb_ps) or n in p0)]
    run.check(not extra, 'R6.formula', f, formula, 'unexpected extra phase terms %s' % extra)


def correction_sites(run, repo, f, rule='R6.xz'):
    """Wherever a phase adds ps0(X) to the phase returned by pauli_combine(S, rows, phases), X must be S: the x.z correction
    belongs to the very strings whose bits select the rows (Y = i X Z on the *transformed* qubits only)."""
    from ..names import deref
    comb = {}
    for st, ctx in walk(f.node):
        if isinstance(st, ast.Assign) and isinstance(st.value, ast.Call) and norm(st.value.func) == 'pauli_combine' \
                and isinstance(st.targets[0], ast.Tuple) and len(st.targets[0].elts) == 2 and st.value.args:
            comb.setdefault(norm(st.targets[0].elts[1]), set()).add(norm(deref(f, st.value.args[0])))
    n = 0
    from ..names import inlined

    def flat(e):
        # summands of a phase sum, through named partial sums and intermediate reductions mod 4
        inner, _ = pair.strip_mod(e, 4)
        out = []
        for s_, t in pair.summands(inner):
            t2, was = pair.strip_mod(t, 4)
            if was or (isinstance(t2, ast.BinOp) and isinstance(t2.op, (ast.Add, ast.Sub))):
                out.extend((s_ * s2, t3) for s2, t3 in flat(t2))
            else:
                out.append((s_, t))
        return out
    for st, ctx in walk(f.node):
        if not isinstance(st, ast.Assign):
            continue
        terms = flat(inlined(f, st.value, skip=set(comb)))
        p0 = [t for s_, t in terms if isinstance(t, ast.Call) and norm(t.func).split('.')[-1] == 'ps0' and t.args]
        used = [norm(t) for s_, t in terms if norm(t) in comb]
        if not p0 or not used:
            continue
        for c in p0:
            got = norm(deref(f, c.args[0]))
            for u in used:
                n += 1
                wrong = sorted(x for x in comb[u] if x != got)
                run.check(not wrong, rule, f, st, 'the x.z correction ps0(%s) must be taken on the strings that select the map rows (%s): '
                          'a Y outside the transformed qubits must not contribute a factor i' % (got, ', '.join(wrong)))
    return n


def fast_paths(run, f, operand, kernels, required, rule='R6.fastpath'):
    """A path of an in-place operation that returns without calling the kernel skips the whole transformation; that is only right
    if the condition that selects the path looked at everything the skipped effect depends on (strings AND phases of the map)."""
    from ..rules import guards
    n = 0
    for p, end in guards.paths(f.node.body):
        if end == 'raise':
            continue
        called = False
        reads = set()
        for s_ in p:
            if isinstance(s_, tuple):
                for x in ast.walk(s_[1]):
                    if isinstance(x, ast.Attribute) and isinstance(x.value, ast.Name) and x.value.id == operand:
                        reads.add(x.attr)
                continue
            for c in ast.walk(s_):
                if isinstance(c, ast.Call) and norm(c.func).split('.')[-1] in kernels:
                    called = True
        if called:
            continue
        n += 1
        missing = [a for a in required if a not in reads]
        conds = ' and '.join(('' if x[2] else 'not ') + norm(x[1]) for x in p if isinstance(x, tuple))[:140]
        run.check(not missing, rule, f, 'path [%s]' % conds, 'this path leaves the operators untouched without applying %s, but its condition never looks at %s: '
                  'a map with a trivial table and non-trivial signs (X, Y, Z gates, the square of a rotation) is silently ignored'
                  % ('/'.join(sorted(kernels)), ', '.join('%s.%s' % (operand, a) for a in missing)))
    return n


def check(run):
    repo = run.repo
    K.kernel_form(run, repo, K.PY_U, 'ps0', 'loop', None, 'p0')
    K.kernel_form(run, repo, K.TC_U, 'ps0', 'vector', ['gs'], 'p0')
    from ..rules import rowclass
    for rel in (K.PY_U, K.TC_U):
        rowclass.check_flag_resets(run, repo.func(rel, 'pauli_combine'))
        combine(run, repo.func(rel, 'pauli_combine'))
        transform(run, repo, repo.func(rel, 'pauli_transform'))
    for f in repo.all_funcs():
        correction_sites(run, repo, f)
    for rel in (K.PY_P, K.TC_P):
        f = repo.func(rel, 'PauliList.transform_by')
        fast_paths(run, f, f.posparams[1], {'pauli_transform', 'pauli_combine'}, ['gs', 'ps'])
        inout.check_function(run, repo, f, {'pauli_transform'})
        bind.check_function_calls(run, repo, f, only={'pauli_transform'})
        bind.check_unpacks(run, repo, f)
        parallel.mask_expansion(run, f)
        parallel.masked_selection(run, repo, f, {'pauli_transform'})
        mp = f.posparams[1]
        for c, t, h in repo.callees(f):
            if h == 'name' and t[0].name == 'pauli_transform':
                args = K.actual_texts(t[0], c)
                run.check(args[2:] == ['%s.gs' % mp, '%s.ps' % mp], 'R2.map', f, c,
                          'the map rows and phases must be passed as (gs_map, ps_map)')
                run.check(args[0].startswith('self.gs') and args[1] == 'self.ps', 'R2.map', f, c,
                          'the receiver\'s strings and phases must be the transformed operands')
        for st, ctx in walk(f.node):
            if isinstance(st, ast.Assign) and isinstance(st.value, ast.Call) and norm(st.value.func) == 'pauli_transform':
                tg = st.targets[0]
                els = [norm(e) for e in tg.elts] if isinstance(tg, ast.Tuple) else []
                run.check(len(els) == 2 and els[0].startswith('self.gs') and els[1] == 'self.ps', 'R5.store', f, st,
                          'the transformed strings and phases must be stored back into self.gs / self.ps')
        f = repo.func(rel, 'Pauli.transform_by')
        srcs = {}
        for st, ctx in walk(f.node):
            if isinstance(st, ast.Assign) and isinstance(st.targets[0], ast.Attribute) and norm(st.targets[0].value) == 'self':
                srcs[st.targets[0].attr] = st
        for attr, want in (('g', 'gs'), ('p', 'ps')):
            st = srcs.get(attr)
            if st is None:
                run.violation('R5.back', f, 'self.%s' % attr, 'transformed %s is never written back' % attr)
            else:
                ok = isinstance(st.value, ast.Subscript) and isinstance(st.value.value, ast.Attribute) \
                    and st.value.value.attr == want and norm(st.value.slice) == '0'
                run.check(ok, 'R5.back', f, st, 'self.%s must receive row 0 of the transformed list\'s %s' % (attr, want))
        # coefficients untouched by Clifford actions
        for q in ('PauliList.rotate_by', 'PauliList.transform_by'):
            g = repo.func(rel, q)
            bad = [n for n in ast.walk(g.node) if isinstance(n, ast.Attribute) and n.attr in ('cs', 'c')
                   and isinstance(n.ctx, ast.Store)]
            run.check(not bad, 'R4.cs', g, q, 'Clifford actions must leave the coefficients untouched')
        poly = repo.cls(rel.split('/')[0], 'PauliPolynomial')
        for q in ('rotate_by', 'transform_by'):
            run.check(q not in poly.methods or True, 'R4.cs', (rel, 'PauliPolynomial'), q, '')
    for rel in (K.PY_S, K.TC_S):
        f = repo.func(rel, 'CliffordMap.embed')
        parallel.mask_expansion(run, f)
        small, mk = f.posparams[1], f.posparams[2]
        stores = {}
        for st, ctx in walk(f.node):
            if isinstance(st, ast.Assign) and isinstance(st.targets[0], ast.Subscript) \
                    and isinstance(st.targets[0].value, ast.Attribute) and norm(st.targets[0].value.value) == 'self':
                stores[st.targets[0].value.attr] = st
        gs_st, ps_st = stores.get('gs'), stores.get('ps')
        # path clause: every path through embed that writes one of the two arrays writes the other (an early exit that copies
        # the strings only leaves the phases of an earlier embed / of the identity in place)
        from ..rules import guards as _guards
        for pth, end in _guards.paths(f.node.body):
            if end == 'raise':
                continue
            wr = {}
            for x in pth:
                if isinstance(x, tuple):
                    continue
                for nd in ast.walk(x):
                    if isinstance(nd, ast.Attribute) and isinstance(nd.ctx, ast.Store) and norm(nd.value) == 'self' and nd.attr in ('gs', 'ps'):
                        wr.setdefault(nd.attr, x)
                    if isinstance(nd, ast.Subscript) and isinstance(nd.ctx, ast.Store) and isinstance(nd.value, ast.Attribute) \
                            and norm(nd.value.value) == 'self' and nd.value.attr in ('gs', 'ps'):
                        wr.setdefault(nd.value.attr, x)
            if len(wr) == 1:
                have = next(iter(wr))
                run.violation('R13.embed', f, wr[have], 'a path through embed writes self.%s and leaves self.%s as it was: strings and phases of the '
                              'small map must be written together on every path' % (have, 'ps' if have == 'gs' else 'gs'))
            elif len(wr) == 2:
                run.check(True, 'R13.embed', f, wr['gs'], '')
        if gs_st is None or ps_st is None:
            run.violation('R13.embed', f, 'embed', 'embed must write both the strings block and the phases of the small map')
        else:
            from ..names import deref as _deref
            gi = _deref(f, gs_st.targets[0].slice)          # the index grid may have been given a name
            ok = isinstance(gi, ast.Call) and norm(gi.func).split('.')[-1] == 'ix_' and len(gi.args) == 2 \
                and norm(gi.args[0]) == norm(gi.args[1])
            run.check(ok, 'R13.embed', f, gs_st, 'the small map must be written on the square block (mask2 x mask2)')
            if ok:
                run.check(norm(ps_st.targets[0].slice) == norm(gi.args[0]), 'R13.embed', f, ps_st,
                          'phases must be written through the same row mask as the strings (%s)' % norm(gi.args[0]))
            run.check(norm(gs_st.value) == '%s.gs' % small, 'R2.embed', f, gs_st, 'strings block must come from %s.gs' % small)
            run.check(norm(ps_st.value) == '%s.ps' % small, 'R2.embed', f, ps_st, 'phases must come from %s.ps' % small)
    entries = [repo.func(K.PY_P, 'PauliList.transform_by'), repo.func(K.PY_P, 'Pauli.transform_by'),
               repo.func(K.TC_P, 'PauliList.transform_by'), repo.func(K.TC_P, 'Pauli.transform_by'),
               repo.func(K.PY_S, 'CliffordMap.embed'), repo.func(K.TC_S, 'CliffordMap.embed')]
    resolve.check_cone(run, repo, entries, 'transform')
    run.floor('R7c', 2)
    run.floor('R7.select', 2)
    run.floor('R6.formula', 8)
    run.floor('R5', 8)
    run.floor('R13.embed', 4)
    run.floor('R13.masksel', 2)
    run.floor('R6.xz', 4)
    run.floor('R13.mask', 4)
    run.floor('R8', 2)
    run.decide('pauli_combine is the ordered product of the selected rows (accumulator left, ascending, phase before '
               'string, identity start); pauli_transform adds ps_in + ps0(gs_in) + combined phase mod 4 with the map as '
               'factors; masked transform_by / embed use one interleaved mask for gather, scatter, rows and phases; '
               'coefficients are never written; ps0 == x.z for all N')
    run.decline('that the image table is a valid Clifford map (precondition); multiplicativity / preservation of '
                'commutation as behaviours (consequences of the ordered product + C01)')
