"""C20 Operator descriptions, printing, tokens and indexing round-trip -- decided on the reader / writer tables."""
import ast

from .. import oracle
from ..exprnf import ev, Undecidable
from ..flow import walk
from ..model import norm
from ..rules import resolve, readwrite as RW, parallel, bind
from . import common as K

EXPLANATION = ('the reader pauli() is reduced to a token table (effect of every character / code on x-slot, z-slot, phase p and the '
               'prefix counter h) and the writers (__repr__ prefixes and letters, pauli_tokenize letter and phase codes) to value '
               'tables by guard evaluation; reader(writer(x)) = x is checked on all letters, all four prefixes (fold of the printed '
               'two-character prefix) and all token codes; letters agree with the Pauli-matrix oracle; __neg__ / __rmul__ '
               'constants satisfy c = i^k; __getitem__ selects gs, ps (and cs) with one index; N / L / weight use the interleaved '
               'layout; allocation and trimming arithmetic of pauli(); both packages give identical tables')
TRUSTED = ['CPython ast', 'oracle.py letters', 'guard evaluation (tables.reached)']


def check_reader(run, f, writers):
    tab = RW.reader_table(f)
    if tab is None:
        run.undecided('R12.reader', f, 'pauli', 'token loop not found')
        return None
    pref, letters, tok_letters, tok_phases = writers
    bits_of = {v: k for k, v in oracle.LETTER.items()}
    # letters (characters) and letter codes
    for (x, z), L in sorted(oracle.LETTER.items()):
        for token, what in ((L, 'character'), (tok_letters.get((x, z)), 'token code')):
            eff = tab.get(token)
            if eff is None:
                run.violation('R12.reader', f, repr(token), 'the %s %r written for %s is not understood by the reader' % (what, token, L))
                continue
            got = {(e[1], e[2]) for e in eff if e[0] == 'bit'}
            other = [e for e in eff if e[0] not in ('bit', 'skip')]
            want = {(s, 1) for s, b in (('x', x), ('z', z)) if b}
            run.check(got == want and not other, 'R12.reader', f, '%r -> %s' % (token, sorted(got)),
                      'the %s %r must parse as %s = (x=%d, z=%d); the reader applies %s' % (what, token, L, x, z, list(eff)))
    # prefixes
    for p in range(4):
        pf = pref.get(p)
        if pf is None:
            run.violation('R12.reader', f, 'prefix of p=%d' % p, 'no printed prefix for phase %d' % p)
            continue
        r = RW.fold_prefix(tab, pf)
        run.check(r == (p, len(pf)), 'R12.reader', f, 'prefix %r -> %r' % (pf, r),
                  'printing phase %d gives %r, parsing it back gives (p, consumed) = %r' % (p, pf, r))
    # phase tokens
    for p in range(4):
        t = tok_phases.get(p)
        eff = tab.get(t)
        ok = eff is not None and ('set', 'p', p) in eff and ('add', 'h', 1) in eff and len(eff) == 2
        run.check(ok, 'R12.reader', f, 'phase token %r -> %s' % (t, eff), 'the phase token %r written for p=%d must parse back to p=%d and be '
                  'consumed as one non-qubit position' % (t, p, p))
    # unknown characters are skipped as non-qubit positions (documented: anything else advances h)
    return tab


def check_alloc(run, f):
    roles = RW.reader_roles(f)
    G, Pn, H = roles.get('g', 'g'), roles.get('p', 'p'), roles.get('h', 'h')
    allocs = [st for st, _ in walk(f.node) if isinstance(st, ast.Assign) and norm(st.targets[0]) == G and isinstance(st.value, ast.Call)]
    ok = len(allocs) == 1 and allocs[0].value.args and norm(allocs[0].value.args[0]).replace(' ', '') == '2*N'
    run.check(ok, 'R12.alloc', f, 'g = zeros(2*N)', 'the string has two slots per position')
    # a sequence description is trimmed by two slots per prefix character at the end, which is only right when the string was
    # allocated with one position per character of the description - whatever qubit number the caller passed along
    if len(allocs) == 1 and allocs[0] in f.node.body and len(f.posparams) >= 2:
        from .. import mini
        OBJ, NP = f.posparams[0], f.posparams[1]
        TYPES = {'tuple': tuple, 'list': list, 'dict': dict, 'str': str}

        def call(n, env, rec):
            fn = norm(n.func)
            if fn == 'isinstance' and len(n.args) == 2:
                v = rec(n.args[0])
                ts = n.args[1].elts if isinstance(n.args[1], ast.Tuple) else [n.args[1]]
                return any(isinstance(v, TYPES[norm(t)]) for t in ts if norm(t) in TYPES)
            if fn.split('.')[-1] == 'is_tensor':
                return False
            raise Undecidable('call ' + fn)
        body = f.node.body[:f.node.body.index(allocs[0]) + 1]
        desc = ('-', 'X', 'Y')
        for nval in (None, 2, 3, 7):
            try:
                tr = mini.execute(f.node, {OBJ: desc, NP: nval}, call=call, body=body)
                at = [e for st, e in tr if st is allocs[0]]
                if not at:
                    raise Undecidable('allocation not reached')
                got = ev(allocs[0].value.args[0], at[0])
            except (Undecidable, TypeError) as e:
                run.undecided('R12.alloc', f, allocs[0], 'allocation size for a sequence description not evaluable: %s' % e)
                break
            run.check(got == 2 * len(desc), 'R12.alloc', f, 'pauli(%r, %s=%r)' % (desc, NP, nval), 'a description of %d characters (prefix included) needs %d slots before '
                      'trimming; %d are allocated when %s=%r is passed: every prefix character then cuts a qubit off the end' % (len(desc), 2 * len(desc), got if isinstance(got, int) else -1, NP, nval))
    rets = [(st, ctx) for st, ctx in walk(f.node) if isinstance(st, ast.Return) and isinstance(st.value, ast.Call) and norm(st.value.func) == 'Pauli'
            and len(st.value.args) == 2]
    seen = set()
    for st, ctx in rets:
        a0 = st.value.args[0]
        for h in (0, 1, 2):
            from ..rules import tables
            if tables.holds(ctx.conds, {H: h}) is True:
                if isinstance(a0, ast.Name):
                    run.check(h == 0, 'R12.alloc', f, st, 'with %d non-qubit characters the string must be trimmed' % h)
                elif isinstance(a0, ast.Subscript) and isinstance(a0.slice, ast.Slice) and a0.slice.lower is None:
                    try:
                        up = ev(a0.slice.upper, {H: h})
                    except Undecidable:
                        up = None
                    run.check(h > 0 and up == -2 * h, 'R12.alloc', f, st, 'h=%d non-qubit positions leave 2*h unused slots at the end: trim [: -2*h] (found upper bound %r)' % (h, up))
                seen.add(h)
        run.check(norm(st.value.args[1]) == Pn, 'R12.alloc', f, st, 'the parsed phase must be passed to the operator')
    run.check(seen == {0, 1, 2}, 'R12.alloc', f, 'return', 'every prefix length must produce an operator (covered h: %s)' % sorted(seen))


def getitem_checks(run, repo, prel):
    # indexing in parallel
    for q in ('PauliList.__getitem__', 'PauliPolynomial.__getitem__'):
        g = repo.func(prel, q)
        n = parallel.parallel_args(run, g)
        item = g.posparams[1]
        from ..names import deref
        # the index must reach the arrays as given: numpy decides between element, slice, boolean-mask and index-array
        # selection from its type, so an integer conversion turns a boolean mask into the indices 0/1
        for st2, _ in walk(g.node):
            if isinstance(st2, ast.Assign) and any(isinstance(t, ast.Name) and t.id == item for t in ast.walk(st2.targets[0])):
                txt = norm(st2.value)
                intconv = any(k.arg == 'dtype' and ('int' in norm(k.value)) for c2 in ast.walk(st2.value) if isinstance(c2, ast.Call) for k in c2.keywords) \
                    or '.astype(int' in txt.replace(' ', '') or '.astype(numpy.int' in txt.replace(' ', '')
                if intconv:
                    run.violation('R13.getitem', g, st2, 'the index is converted to integers before use: a boolean mask then selects elements 0 and 1 '
                                  'repeatedly instead of the masked sub-list')
                else:
                    run.undecided('R13.getitem', g, st2, 'the index parameter is rebound before it is used')
        for c in ast.walk(g.node):
            if isinstance(c, ast.Call) and isinstance(c.func, ast.Name) and c.func.id in ('Pauli', 'PauliList', 'PauliMonomial', 'PauliPolynomial'):
                args = [norm(deref(g, a)).replace(' ', '') for a in c.args]
                run.check(args == ['self.gs[%s]' % item, 'self.ps[%s]' % item], 'R13.getitem', g, c, 'selection must take strings and phases with the same index')
        if q.startswith('PauliPolynomial'):
            cs = [c for c in ast.walk(g.node) if isinstance(c, ast.Call) and isinstance(c.func, ast.Attribute) and c.func.attr in ('set_cs', 'set_c')]
            for c in cs:
                run.check([norm(a).replace(' ', '') for a in c.args] == ['self.cs[%s]' % item], 'R13.getitem', g, c, 'coefficients are selected with the same index')
            for st, _ in walk(g.node):
                if isinstance(st, ast.Return):
                    v = st.value
                    ok = isinstance(v, ast.Call) and isinstance(v.func, ast.Attribute) and v.func.attr in ('set_cs', 'set_c')
                    run.check(ok, 'R13.getitem', g, st, 'a selection of a polynomial keeps its coefficients (every result needs set_cs / set_c)')


def list_printer(run, repo, prel, pref, letters, tl, tp, rule='R12.listrepr'):
    """PauliList.__repr__: either every element is printed by the element printer (Pauli.__repr__, decided above), or the list
    decodes its own token array - then it is a second printer and is executed on the tokens the writer emits for the four
    phases: every line must be what the element printer prints for that operator."""
    from ..names import inlined
    from .. import mini
    f = repo.func(prel, 'PauliList.__repr__')
    if not all(isinstance(p_, int) for p_ in (0, 1, 2, 3)) or any(tp.get(p_) is None for p_ in range(4)) or any(letters.get(k) is None or tl.get(k) is None for k in ((1, 0), (0, 1))):
        run.undecided(rule, f, '__repr__', 'the list prints by itself and the writer tables are not available')
        return
    rows = tuple((tl[(1, 0)], tl[(0, 1)], tp[p_]) for p_ in range(4))
    lines_want = [(pref[p_] or '') + letters[(1, 0)] + letters[(0, 1)] for p_ in range(4)]
    want = '\n'.join(lines_want)
    heap = {}

    class _Elem:
        # an element of the list: printing it (repr / str / format) is the element printer's line for that operator
        def __init__(self, k):
            self.k = k

        def __repr__(self):
            return lines_want[self.k]
        __str__ = __repr__
    elems = tuple(_Elem(k) for k in range(4))

    def attr(n, env, rec):
        t = norm(n)
        if t == 'self.N':
            return 2
        if t == 'self.L':
            return 4
        raise Undecidable('attribute ' + t)

    def call(n, env, rec):
        fn = n.func
        if isinstance(fn, ast.Attribute):
            if norm(fn) == 'self.tokenize' and not n.args:
                return rows
            if fn.attr in ('long', 'int', 'tolist', 'cpu', 'numpy', 'detach', 'astype', 'to') :
                return rec(fn.value)
            base = rec(fn.value)
            if isinstance(base, _Elem) and fn.attr in ('__repr__', '__str__') and not n.args:
                return str(base)
            if isinstance(base, str) and fn.attr == 'join' and len(n.args) == 1:
                return base.join(rec(n.args[0]))
            if isinstance(base, str) and fn.attr == 'format':
                return base.format(*[rec(a) for a in n.args])
        if isinstance(fn, ast.Name) and fn.id in ('str', 'repr') and len(n.args) == 1:
            return str(rec(n.args[0]))
        if isinstance(fn, ast.Name) and fn.id == 'map' and len(n.args) == 2 and norm(n.args[0]) in ('repr', 'str'):
            return tuple(str(x) for x in rec(n.args[1]))
        if isinstance(fn, ast.Name) and fn.id in ('len', 'list', 'tuple', 'iter') and len(n.args) == 1:
            v = rec(n.args[0])
            return len(v) if fn.id == 'len' else tuple(v)
        if isinstance(fn, ast.Name) and fn.id == 'range':
            return tuple(range(*[rec(a) for a in n.args]))
        raise Undecidable('call ' + norm(n.func))

    def sub(n, env, rec):
        base, idx = rec(n.value), rec(n.slice)
        try:
            return base[idx]
        except Exception as e:
            raise Undecidable('subscript %s: %s' % (norm(n), e))
    res = []
    try:
        env0 = {'self': elems}

        def on_expr(e, env, value):
            # lines.append(x): the list local grows
            if isinstance(e, ast.Call) and isinstance(e.func, ast.Attribute) and e.func.attr == 'append' and isinstance(e.func.value, ast.Name) and len(e.args) == 1:
                heap.setdefault(e.func.value.id, []).append(value(e.args[0]))
                return None
            return value(e)

        # a local list that is appended to is read back from the heap
        appended = {e.func.value.id for e in ast.walk(f.node) if isinstance(e, ast.Call) and isinstance(e.func, ast.Attribute) and e.func.attr == 'append'
                    and isinstance(e.func.value, ast.Name)}

        def call2(n, env, rec):
            if isinstance(n.func, ast.Attribute) and n.func.attr == 'join' and len(n.args) == 1 and isinstance(n.args[0], ast.Name) and n.args[0].id in appended:
                return rec(n.func.value).join(heap.get(n.args[0].id, []))
            return call(n, env, rec)
        mini.execute(f.node, env0, sub=sub, call=call2, attr=attr, on_expr=on_expr, result=res)
    except (Undecidable, TypeError, KeyError, IndexError) as e:
        run.undecided(rule, f, '__repr__', 'the list prints by itself in a form this rule does not execute: %s' % e)
        return
    got = res[0] if res else None
    if not isinstance(got, str):
        run.undecided(rule, f, '__repr__', 'the printed text of the model list could not be computed')
        return
    bad = [(p_, a, b) for p_, (a, b) in enumerate(zip(got.split('\n'), want.split('\n'))) if a != b]
    run.check(got == want, rule, f, '__repr__', 'the printed list differs from the element printer: the operator with phase i^%s is printed as %r, the element printer gives %r '
              '(phase tokens are 4=+ 5=- 6=+i 7=-i, not ordered by the phase exponent)' % (bad[0] if bad else ('', got, want)))


from ..names import inlined as inlined_


def second_readers(run, repo, prel, tok_phase, rule='R12.reader'):
    """paulis(): every returned list is either the argument itself, or collects .g / .p of the operators parsed by pauli() (the
    one reader).  A return that decodes codes by itself is a second reader and is held to the writer's tables: its phase
    expression, evaluated on the phase tokens the writer emits, must give back the phase (tok_phase: p -> token), and its slot
    expressions must give (x, z) of the letter codes 0..3."""
    from ..names import single_def
    from ..flow import assigned_pairs
    f = repo.func(prel, 'paulis')
    n = 0
    defs = {}
    for st, ctx in walk(f.node):
        if isinstance(st, ast.Assign):
            for t, v in assigned_pairs(st):
                if isinstance(t, ast.Name) and not isinstance(v, tuple):
                    defs.setdefault(t.id, []).append((st, v, ctx))
    # the descriptions may come as a generator (paulis accepts one): they can be walked once
    OBJ = f.vararg or 'objs'
    count, first_walk, materialised = 0, None, False
    for st, ctx in walk(f.node):
        if isinstance(st, (ast.If, ast.While, ast.With, ast.Try, ast.FunctionDef)):
            heads = [st.test] if isinstance(st, (ast.If, ast.While)) else []
        elif isinstance(st, ast.For):
            heads = [st.iter]
            if isinstance(st.iter, ast.Name) and st.iter.id == OBJ and not materialised:
                count += 1
                first_walk = first_walk or st
        else:
            heads = [st]
        for h in heads:
            for nd in ast.walk(h):
                if isinstance(nd, ast.comprehension) and isinstance(nd.iter, ast.Name) and nd.iter.id == OBJ and not materialised:
                    count += 1
                    first_walk = first_walk or st
        if isinstance(st, ast.Assign) and any(isinstance(t, ast.Name) and t.id == OBJ for t in st.targets) \
                and (isinstance(st.value, (ast.ListComp, ast.List, ast.Tuple)) or (isinstance(st.value, ast.Call) and norm(st.value.func) in ('list', 'tuple'))):
            materialised = True           # from here on the descriptions are a list: walking them again is harmless
    if count > 1:
        run.violation(rule, f, first_walk, 'the descriptions are walked %d times before they are put in a list: when they are given as a generator, what the '
                      'first pass consumes is missing from the result' % count)
    for st, ctx in walk(f.node):
        if not (isinstance(st, ast.Return) and isinstance(st.value, ast.Call) and norm(st.value.func) == 'PauliList'):
            continue
        args = st.value.args
        if len(args) == 1 and not any(k.arg == 'ps' for k in st.value.keywords) and any(isinstance(x, ast.Attribute) and x.attr == 'g' for x in ast.walk(inlined_(f, args[0]))):
            n += 1
            run.violation(rule, f, st, 'a list is built from the strings of parsed operators without their phases: every sign given with the '
                          'operators is dropped')
            continue
        srcs = []
        for a in args[:2]:
            cands = [v for s2, v, c2 in defs.get(a.id, []) if s2.lineno < st.lineno] if isinstance(a, ast.Name) else [a]
            srcs.append(cands)
        parsed = all(any(isinstance(x, ast.Attribute) and x.attr in ('g', 'p') for x in ast.walk(v)) for cands in srcs for v in cands) and all(srcs)
        if not parsed and len(args) >= 2:
            # the operators may be parsed one by one and their fields collected in lists: decided by dependence (every
            # definition of the string source that reaches this return depends on a .g, and every one of the phase source on a
            # .p, of what pauli() returned)
            from ..names import expr_deps, local_deps
            dps = local_deps(f)

            def reaching(a):
                if not isinstance(a, ast.Name):
                    return [a]
                here = [(norm(t), pol) for t, pol in ctx.conds]
                out = []
                for s2, v, c2 in defs.get(a.id, []):
                    there = [(norm(t), pol) for t, pol in c2.conds]
                    if s2.lineno < st.lineno and there == here[:len(there)]:
                        out.append(v)
                return out
            rg, rp_ = reaching(args[0]), reaching(args[1])
            parsed = bool(rg) and bool(rp_) and all({('attr', 'g'), ('call', 'pauli')} <= expr_deps(f, v, dps) for v in rg) \
                and all({('attr', 'p'), ('call', 'pauli')} <= expr_deps(f, v, dps) for v in rp_)
        if parsed:
            continue
        # a private decoder: evaluate its phase expression on the writer's phase tokens
        n += 1
        ph = [v for v in (srcs[1] if len(srcs) > 1 else []) if not (isinstance(v, ast.Constant) and v.value is None)]
        if len(ph) != 1:
            run.undecided(rule, f, st, 'a list is built without pauli(); its phase source is not a single expression')
            continue
        bad = None
        try:
            for p_, t in sorted(tok_phase.items()):
                def sub(nd, env, rec, t=t):
                    base = nd.value
                    if isinstance(base, ast.Call) and base.args and norm(base.func).split('.')[-1] in ('array', 'asarray', 'tensor'):
                        base = base.args[0]
                    if isinstance(base, (ast.List, ast.Tuple)):          # a literal lookup table indexed by the decoded token
                        return rec(base)[rec(nd.slice)]
                    if isinstance(base, ast.Name):
                        return t                                          # the token column of the input
                    raise Undecidable('subscript ' + norm(nd))
                got = ev(ph[0], {}, sub=sub)
                if got != p_:
                    bad = (t, p_, got)
                    break
        except Undecidable as e:
            run.undecided(rule, f, st, 'second reader in paulis(): %s' % e)
            continue
        run.check(bad is None, rule, f, ph[0], 'paulis() decodes phase tokens by itself here (not through pauli()): the token %s written for phase %s '
                  'is read back as %s' % (bad if bad else ('', '', '')))
    return n


def check(run):
    repo = run.repo
    per_pkg = {}
    for pkg, prel, urel, loop in (('pyclifford', K.PY_P, K.PY_U, True), ('torchclifford', K.TC_P, K.TC_U, False)):
        rp = repo.func(prel, 'Pauli.__repr__')
        pref, letters = RW.repr_tables(rp)
        for (x, z), L in sorted(oracle.LETTER.items()):
            run.check(letters.get((x, z)) == L, 'R12.letters', rp, '(x=%d,z=%d) -> %r' % (x, z, letters.get((x, z))),
                      'sigma(x=%d,z=%d) is %s by the Pauli matrices, printed as %r' % (x, z, L, letters.get((x, z))))
        want_pref = {0: '+', 1: '+i', 2: '-', 3: '-i'}
        for p in range(4):
            got = (pref.get(p) or '').strip()
            run.check(got == want_pref[p], 'R12.prefix', rp, 'p=%d -> %r' % (p, pref.get(p)), 'phase i^%d must print as %r (found %r)' % (p, want_pref[p], pref.get(p)))
            run.check(pref.get(p) is not None and len(pref[p]) == 2, 'R12.prefix', rp, 'width of %r' % (pref.get(p),), 'prefixes have two characters so that columns align and the parser consumes two positions')
        tk = repo.func(urel, 'pauli_tokenize')
        try:
            tl, tp = RW.token_tables(tk, loop)
        except Undecidable as e:
            run.undecided('R8.token', tk, 'pauli_tokenize', str(e))
            tl, tp = {}, {}
        code = {'I': 0, 'X': 1, 'Y': 2, 'Z': 3}
        for (x, z), L in sorted(oracle.LETTER.items()):
            run.check(tl.get((x, z)) == code[L], 'R8.token', tk, '(x=%d,z=%d) -> %r' % (x, z, tl.get((x, z))), 'token of %s must be %d (docstring: 0=I 1=X 2=Y 3=Z)' % (L, code[L]))
        for p, t in ((0, 4), (2, 5), (1, 6), (3, 7)):
            run.check(tp.get(p) == t, 'R8.token', tk, 'p=%d -> %r' % (p, tp.get(p)), 'phase token of i^%d must be %d (4=+ 5=- 6=+i 7=-i)' % (p, t))
        run.check(tp.get('col') == 'N', 'R8.token', tk, 'phase token column', 'the phase token is the last entry (column N) of each row')
        rd = repo.func(prel, 'pauli')
        tab = check_reader(run, rd, (pref, letters, tl, tp))
        check_alloc(run, rd)
        second_readers(run, repo, prel, {p_: t_ for p_, t_ in tp.items() if isinstance(p_, int)} or {0: 4, 2: 5, 1: 6, 3: 7})
        list_printer(run, repo, prel, pref, letters, tl, tp)
        # for the comparison of the two packages only what a token DOES counts: `continue` after the last effect is the same
        # reader as an if / elif chain that falls through to nothing
        ntab = {k: tuple(sorted((e for e in v if e != ('skip',)), key=repr)) for k, v in (tab or {}).items()}
        per_pkg[pkg] = (pref, letters, tl, {k: v for k, v in tp.items()}, ntab)
        # polynomial / monomial printing goes through coefficient * i^p
        # scalar multiples and negation
        for q, fld in (('Pauli', 'g'), ('PauliList', 'gs')):
            RW.check_rmul(run, repo.func(prel, q + '.__rmul__'), field=fld)
            ng = repo.func(prel, q + '.__neg__')
            rets = [st.value for st, _ in walk(ng.node) if isinstance(st, ast.Return)]
            ps = RW.phase_shift_of(rets[0]) if len(rets) == 1 else None
            run.check(ps is not None and ps[1] == 2 and ps[0] == 'self.' + fld, 'R12.neg', ng, '-P', 'negation adds 2 to the phase and keeps the string (found %s)' % (ps,))
        getitem_checks(run, repo, prel)
        # N, L, weight
        for q, want in (('Pauli.N', 'self.g.shape[0]//2'), ('PauliList.L', 'self.gs.shape[0]'), ('PauliList.N', 'self.gs.shape[1]//2')):
            m = repo.func(prel, q)
            rets = [st.value for st, _ in walk(m.node) if isinstance(st, ast.Return)]
            # evaluated on sample shapes (g of 8 slots, gs of 5 rows x 8 slots): N = 4, L = 5, whatever the arithmetic looks like
            okv = None
            if len(rets) == 1:
                def attr(nd, env, rec):
                    if nd.attr == 'shape' and norm(nd.value) == 'self.g':
                        return (8,)
                    if nd.attr == 'shape' and norm(nd.value) == 'self.gs':
                        return (5, 8)
                    raise Undecidable('attribute ' + norm(nd))

                def sub(nd, env, rec):
                    return rec(nd.value)[rec(nd.slice)]

                def call(nd, env, rec):
                    if norm(nd.func) == 'len' and len(nd.args) == 1 and norm(nd.args[0]) in ('self.g', 'self.gs'):
                        return 8 if norm(nd.args[0]) == 'self.g' else 5
                    raise Undecidable('call')
                try:
                    okv = ev(rets[0], {}, attr=attr, sub=sub, call=call) == (5 if q.endswith('.L') else 4)
                except (Undecidable, TypeError, IndexError):
                    okv = None
            if okv is None:
                run.undecided('R12.size', m, q, 'size expression not evaluable')
            else:
                run.check(okv, 'R12.size', m, q, '%s must be %s (found %s)' % (q, want, [norm(r) for r in rets]))
        for q, shp in (('Pauli.weight', ['self.N', '2']), ('PauliList.weight', ['self.L', 'self.N', '2'])):
            m = repo.func(prel, q)
            rs = [c for c in ast.walk(m.node) if isinstance(c, ast.Call) and isinstance(c.func, ast.Attribute) and c.func.attr == 'reshape']
            run.check(len(rs) == 1 and [norm(a) for a in rs[0].args] == shp, 'R12.size', m, q, 'the weight groups the (x,z) pair of each qubit: reshape(%s)' % ', '.join(shp))
        ps_ = repo.func(prel, 'paulis')
        bind.check_function_calls(run, repo, ps_, only={'PauliList'})
        comps = [n for n in ast.walk(ps_.node) if isinstance(n, (ast.ListComp, ast.GeneratorExp)) and isinstance(n.elt, (ast.Attribute, ast.Call))]
        got = {}
        for cmp_ in comps:
            e = cmp_.elt
            while isinstance(e, ast.Call) and e.args:
                e = e.args[0]
            if isinstance(e, ast.Attribute) and norm(e.value) == norm(cmp_.generators[0].target) and norm(cmp_.generators[0].iter) == 'objs':
                got[e.attr] = True
        if not (got.get('g') and got.get('p')):
            # other shapes (explicit loops, temporaries): decided by may-dependence of the two constructor arguments
            from ..names import local_deps, expr_deps
            dps = local_deps(ps_)
            got = {}
            for st, _ in walk(ps_.node):
                if isinstance(st, ast.Return) and isinstance(st.value, ast.Call) and norm(st.value.func) == 'PauliList' and len(st.value.args) >= 2:
                    dg, dp = expr_deps(ps_, st.value.args[0], dps), expr_deps(ps_, st.value.args[1], dps)
                    if ('attr', 'g') in dg and ('call', 'pauli') in dg:
                        got['g'] = True
                    if ('attr', 'p') in dp and ('call', 'pauli') in dp:
                        got['p'] = True
        run.check(got.get('g') and got.get('p'), 'R12.defaults', ps_, 'gs from obj.g, ps from obj.p', 'the list collects string and phase of every parsed operator (found %s)' % sorted(got))
        # constructor defaults: phase 0 when omitted
        for q, fld, zero in (('Pauli.__init__', 'p', '0'), ('PauliList.__init__', 'ps', 'zeros')):
            ini = repo.func(prel, q)
            # the constructor is executed by the checker's interpreter twice: phase omitted (None) and phase given
            from .. import mini

            class _S:
                def __init__(self, tag):
                    self.tag = tag

                def __repr__(self):
                    return self.tag
            gname, pname = ini.posparams[1], ini.posparams[2]
            results = {}
            for label, pv in (('omitted', None), ('given', _S('GIVEN'))):
                stored = {}

                def call(nd, env, rec):
                    last = norm(nd.func).split('.')[-1]
                    if last in ('zeros', 'zeros_like'):
                        return _S('ZEROS')
                    if last == 'super' or norm(nd.func).startswith('super('):
                        return _S('SUPER')
                    raise Undecidable('call ' + norm(nd.func))

                def attr(nd, env, rec):
                    v = rec(nd.value) if not isinstance(nd.value, ast.Name) or nd.value.id in env else None
                    if isinstance(v, _S):
                        return _S(v.tag + '.' + nd.attr)
                    if norm(nd.value) in ('numpy', 'np', 'torch'):
                        return _S(norm(nd))
                    raise Undecidable('attribute ' + norm(nd))

                def on_store(t, v, env, value, stored=stored):
                    if isinstance(t, ast.Attribute) and norm(t.value) == ini.posparams[0]:
                        stored[t.attr] = v

                def sub(nd, env, rec):
                    return _S('SUB')
                env = {ini.posparams[0]: _S('self'), gname: _S('G'), pname: pv}
                for extra in ini.posparams[3:] + ini.kwonly:
                    env[extra] = _S('P_' + extra)
                try:
                    mini.execute(ini.node, env, call=call, attr=attr, on_store=on_store, sub=sub)
                    results[label] = stored
                except Undecidable as e:
                    results[label] = str(e)
            if any(isinstance(v, str) for v in results.values()):
                run.undecided('R12.defaults', ini, 'self.' + fld, 'constructor not interpretable: %s' % results)
            else:
                om, gv = results['omitted'].get(fld), results['given'].get(fld)
                ok = (om == 0 or (isinstance(om, _S) and om.tag == 'ZEROS')) and isinstance(gv, _S) and gv.tag == 'GIVEN'
                run.check(ok, 'R12.defaults', ini, 'self.' + fld, 'an omitted phase means +1 (phase indicator 0); a given one is stored as is '
                          '(omitted -> %r, given -> %r)' % (om, gv))
                gfld = 'g' if fld == 'p' else 'gs'
                gval = results['given'].get(gfld)
                run.check(isinstance(gval, _S) and gval.tag == 'G', 'R12.defaults', ini, 'self.' + gfld, 'the string is stored as given (found %r)' % (gval,))
    a, b = per_pkg['pyclifford'], per_pkg['torchclifford']
    for i, what in enumerate(('phase prefixes', 'letters', 'letter tokens', 'phase tokens', 'reader table')):
        run.check(a[i] == b[i], 'R12.port', (K.TC_P, 'paulialg'), what, '%s differ between pyclifford and torchclifford: %r vs %r' % (what, a[i], b[i]))
    entries = []
    for prel in (K.PY_P, K.TC_P):
        entries += [repo.func(prel, n) for n in ('pauli', 'paulis', 'Pauli.__repr__', 'PauliList.__repr__', 'PauliList.__getitem__',
                                                 'Pauli.__neg__', 'Pauli.__rmul__', 'PauliList.__neg__', 'PauliList.__rmul__',
                                                 'Pauli.tokenize', 'PauliList.tokenize', 'Pauli.weight', 'PauliList.weight')]
    resolve.check_cone(run, repo, entries, 'descriptions')
    run.floor('R12.reader', 32)
    run.floor('R12.letters', 8)
    run.floor('R12.prefix', 16)
    run.floor('R8.token', 18)
    run.floor('R12.rmul', 16)
    run.floor('R12.neg', 4)
    run.floor('R13.getitem', 8)
    run.floor('R12.alloc', 10)
    run.floor('R12.listrepr', 2)
    run.floor('R12.port', 5)
    run.floor('R12.defaults', 10)
    run.decide('reader(writer(x)) = x on letters, prefixes, letter tokens and phase tokens; letters equal the Pauli matrices; '
               'c = i^k for scalar multiples and negation; parallel indexing; size/weight layout; allocation / trim arithmetic; py = tc')
    run.decline('numpy / torch indexing semantics themselves (slices, masks, index arrays)')
