"""C05 Every reachable stabilizer state is a valid density matrix (tableau invariant) -- structural necessary conditions."""
import ast

from ..flow import walk
from ..model import norm
from ..rules import resolve, bind, inout, kinds, effect, rowclass
from . import common as K
from . import projk

EXPLANATION = ('necessary structure of every tableau writer: row-class guards and the replacement / relocation index logic '
               'of all projection kernels (pyclifford loop form, torchclifford vectorised form) against the documented '
               'layout for all N<=3; Pauli products keep strings in {0,1} and phases in {0..3} with a phase companion; no '
               'bit or odd constant is stored where a sign (0/2) is expected; constructor, copy, set_r, to_state, to_map '
               'carry (gs, ps, r) to the same-named fields; every rank-changing kernel call stores the new rank back.  '
               'That the invariant is inductive over all histories is not decided')
TRUSTED = ['CPython ast', 'tableau layout of the StabilizerState docstring', 'C01-C03', 'naming scheme',
           'effects.py view/copy table']

PY_KERNELS = [('stabilizer_project', False), ('stabilizer_measure', True), ('stabilizer_projection_trace', True),
              ('stabilizer_postselection', True)]
TC_KERNELS = [('stabilizer_project', False), ('stabilizer_measure', True), ('stabilizer_projection_trace', True)]


def check(run):
    repo = run.repo
    eff = K.effects_of(repo)
    for name, signed in PY_KERNELS:
        f, k = projk.guards_and_block(run, repo, K.PY_U, name, signed=signed)
        if name == 'stabilizer_measure':
            from ..rules import rowclass as _rc
            _rc.check_priority(run, f, k)          # scan order: a standby hit must not pre-empt an active row (destabilizers left unpaired)
        K.product_sites(run, f, floor=1)
        kinds.check_function(run, repo, f)
    for name, signed in TC_KERNELS:
        f, k = projk.guards_and_block(run, repo, K.TC_U, name, signed=signed, loop_form=False)
        K.product_sites(run, f)
        kinds.check_function(run, repo, f)
    # post-selection hands the kernel the requested stabilizer phase: (2*outcome + operator phase) mod 4 (a phase of the tableau)
    from .C14 import postselect_site
    postselect_site(run, repo)
    # phase kinds at the state / map constructors and sign writers
    sites = [(K.PY_S, n) for n in ('random_pauli_map', 'random_clifford_map', 'random_bit_state_gs_ps', 'random_bit_state',
                                   'one_state', 'StabilizerState.get_prob', 'StabilizerState.postselect',
                                   'clifford_rotation_map', 'stabilizer_state', 'CliffordMap.to_state', 'StabilizerState.to_map',
                                   'StabilizerState.copy', 'CliffordMap.copy')]
    sites += [(K.TC_S, n) for n in ('random_pauli_map', 'random_clifford_map', 'one_state', 'StabilizerState.get_prob',
                                    'clifford_rotation_map', 'stabilizer_state', 'CliffordMap.to_state',
                                    'StabilizerState.to_map', 'StabilizerState.copy', 'CliffordMap.copy')]
    sites += [(K.PY_C, 'MeasureLayer.obs_gs_ps')]
    for rel, n in sites:
        f = repo.func(rel, n)
        kinds.check_function(run, repo, f)
        bind.check_function_calls(run, repo, f, only={'StabilizerState', 'CliffordMap', 'map_to_state', 'state_to_map',
                                                      'stabilizer_project', 'stabilizer_postselection'})
        bind.check_unpacks(run, repo, f)
    # postselect: the requested sign handed to the kernel is 2*bit (+ the observable's own phase)
    f = repo.func(K.PY_S, 'StabilizerState.postselect')
    for c, t, h in repo.callees(f):
        if h == 'name' and t[0].name == 'stabilizer_postselection':
            arg = c.args[3]
            kd = kinds.kind_of(f, arg)
            run.check(kd != 'BIT' and kd != 'ODD', 'R3a', f, c, 'post-selected sign must be a phase (0/2), not a bit')
    # get_prob writes 2*readout
    for rel in (K.PY_S, K.TC_S):
        f = repo.func(rel, 'StabilizerState.get_prob')
        stores = [st for st, _ in walk(f.node) if isinstance(st, ast.Assign) and isinstance(st.targets[0], ast.Subscript)
                  and isinstance(st.targets[0].value, ast.Attribute) and st.targets[0].value.attr == 'ps']
        run.check(len(stores) == 1, 'R3a.site', f, 'readout_state.ps[...] = ...', 'the readout bits must be written as signs exactly once')
    # constructor / copy / conversions carry (gs, ps, r)
    for pkg in ('pyclifford', 'torchclifford'):
        st = repo.cls(pkg, 'StabilizerState')
        effect.check_copy(run, eff, st.methods['copy'], ['gs', 'ps', 'r'])
        effect.check_copy(run, eff, repo.cls(pkg, 'CliffordMap').methods['copy'], ['gs', 'ps'])
        # to_state / to_map: result fields derive from the converted arrays of self
        for cname, mname, fields in (('CliffordMap', 'to_state', ['gs', 'ps']), ('StabilizerState', 'to_map', ['gs', 'ps'])):
            m = repo.cls(pkg, cname).methods[mname]
            from .. import effects as E
            res = E.result_fields(eff, m)
            if res is None or not res[0]:
                run.violation('R4d', m, 'return', '%s must return a newly constructed object' % m.qual)
                continue
            objs, heap, ret = res
            for fld in fields:
                v = set()
                for o in objs:
                    v |= set(heap.get(o[1], {}).get(fld, ()))
                ok = any(a[0] in ('loc', 'copyof') and a[1].startswith('self.' + fld) for a in v)
                run.check(ok, 'R4d', m, 'result.%s' % fld, 'field `%s` of the converted object is not derived from self.%s' % (fld, fld))
        # set_r stores the rank
        m = st.methods['set_r']
        srs = [s for s, _ in walk(m.node) if isinstance(s, ast.Assign) and norm(s.targets[0]) == 'self.r']
        run.check(len(srs) == 1 and m.posparams[1] in norm(srs[0].value), 'R2.set_r', m, 'self.r = r', 'set_r must store its argument as the rank')
        ini = st.methods['__init__']
        srs = [s for s, _ in walk(ini.node) if isinstance(s, ast.Assign) and norm(s.targets[0]) == 'self.r']
        run.check(len(srs) == 1 and norm(srs[0].value) == 'r', 'R2.init', ini, 'self.r = r', 'the constructor must store the rank')
        sup = [c for c in ast.walk(ini.node) if isinstance(c, ast.Call) and isinstance(c.func, ast.Attribute) and c.func.attr == '__init__']
        ok = len(sup) == 1 and [norm(a) for a in sup[0].args] + ['%s=%s' % (k.arg, norm(k.value)) for k in sup[0].keywords] in (
            ['gs', 'ps'], ['gs', 'ps=ps'], ['gs=gs', 'ps=ps'])
        run.check(ok, 'R2.init', ini, sup[0] if sup else '__init__', 'the constructor must forward (gs, ps) to PauliList.__init__')
    # constructors hand out fresh tableaux (a shared identity table would be corrupted by the first in-place embed / rotate)
    for rel in (K.PY_S, K.TC_S):
        for n in ('identity_map', 'zero_state', 'maximally_mixed_state', 'one_state', 'stabilizer_state', 'random_pauli_map', 'random_clifford_map', 'clifford_rotation_map'):
            if repo.has_func(rel, n):
                g = repo.func(rel, n)
                effect.check_pure(run, eff, g)
                effect.check_fresh_result(run, eff, g)
    # every rank-changing kernel call stores r
    for rel, q in ((K.PY_S, 'StabilizerState.measure'), (K.TC_S, 'StabilizerState.measure'), (K.PY_C, 'MeasureLayer.forward'),
                   (K.PY_S, 'stabilizer_state'), (K.TC_S, 'stabilizer_state'), (K.PY_S, 'StabilizerState.postselect')):
        f = repo.func(rel, q)
        inout.check_function(run, repo, f, {'stabilizer_measure', 'stabilizer_project', 'stabilizer_postselection',
                                            'stabilizer_projection_trace'})
    entries = [repo.func(K.PY_U, n) for n, _ in PY_KERNELS] + [repo.func(K.TC_U, n) for n in ('stabilizer_project', 'stabilizer_projection_trace')]
    entries += [repo.func(K.PY_S, 'StabilizerState.measure'), repo.func(K.PY_S, 'StabilizerState.postselect'),
                repo.func(K.PY_S, 'StabilizerState.copy'), repo.func(K.PY_S, 'CliffordMap.to_state'),
                repo.func(K.PY_S, 'StabilizerState.to_map'), repo.func(K.PY_S, 'stabilizer_state'),
                repo.func(K.TC_S, 'StabilizerState.copy'), repo.func(K.TC_S, 'CliffordMap.to_state'),
                repo.func(K.TC_S, 'stabilizer_state')]
    resolve.check_cone(run, repo, entries, 'tableau writers')
    run.floor('R9.pivot', 7)
    run.floor('R9.extend', 3)
    run.floor('R9.block', 7)
    run.floor('R9.phase', 5)
    run.floor('R7d', 10)
    run.floor('R3a', 25)
    run.floor('R5', 10)
    run.floor('R4d', 14)
    run.floor('R2', 30)
    run.decide('all 7 projection kernels: pivot/standby/phase/accumulation guards equal the row classes of the layout, '
               'replacement block keeps the pairing and the rank bookkeeping for all N<=3; products stay in range with a '
               'phase companion; sign slots receive 0/2 kinds; (gs, ps, r) reach the same-named fields in constructor, '
               'copy, set_r, to_state, to_map; rank-changing calls store r')
    run.decline('that the invariant is inductive over histories (mutual commutation / independence of all rows after an '
                'update needs symbolic row algebra through loops); validity of user-supplied tables')
