"""C13 torchclifford computes the same results as pyclifford (port equivalence) -- what can be decided structurally."""
import ast

from ..exprnf import Undecidable
from ..flow import walk
from ..model import norm, Func
from ..rules import resolve, nf, banned, live, readwrite as RW, rotate, pair, parallel, rowclass, circuitrules as CR
from . import common as K
from . import projk
from . import circ

EXPLANATION = ('sibling comparison of the two packages on normal forms and tables rather than on values: per-qubit truth tables and '
               'moduli of acq / ipow / ps0 / acq_mat are equal (and equal to the oracle); token, prefix, letter, scalar-multiple, '
               'reader and qutip tables are equal; map<->state permutations are equal; the torch rotation / combine / transform '
               'kernels satisfy the same records as the numba ones; the torch projection kernels have layout-true guards and '
               'replacement blocks; same-named functions take the same leading parameters and constructors return the same classes; '
               'no real-valued linear algebra replaces GF(2) algebra (R17: torch z2rank is a recorded finding); no pure result is '
               'discarded (R16); R1 over the torch functions that have a pyclifford namesake')
TRUSTED = ['CPython ast', 'oracle.py', 'class inference', 'effects.py']


def check(run):
    repo = run.repo
    eff = K.effects_of(repo)
    types = K.types_of(repo)
    # ---- kernel normal forms equal
    forms = {}
    for rel, name, shape, ops, kind in K.KERNELS:
        fm = K.kernel_form(run, repo, rel, name, shape, ops, kind)
        if fm is not None:
            forms[(rel.split('/')[0], name)] = (fm, kind)
    pairs = [('acq', 'acq'), ('ipow', 'ipow'), ('ps0', 'ps0'), ('acq_mat', 'acq_mat'), ('acq', 'acq_grid'), ('ipow', 'ipow_product')]
    for pn, tn in pairs:
        a, b = forms.get(('pyclifford', pn)), forms.get(('torchclifford', tn))
        if a is None or b is None:
            run.undecided('R8.port', (K.TC_U, tn), tn, 'normal form of one side not available')
            continue
        (fa, ka), (fb, kb) = a, b
        m = {'acq': 2, 'ipow': 4, 'p0': 4}[ka]
        same = fa.modulus == fb.modulus and all((int(fa.table[k]) - int(fb.table[k])) % m == 0 for k in fa.table)
        run.check(same, 'R8.port', repo.func(K.TC_U, tn), '%s == pyclifford %s' % (tn, pn),
                  'the per-qubit normal form of torchclifford %s differs from pyclifford %s' % (tn, pn))
    # ---- tables
    tabs = {}
    for pkg, prel, urel, loop in (('pyclifford', K.PY_P, K.PY_U, True), ('torchclifford', K.TC_P, K.TC_U, False)):
        pref, letters = RW.repr_tables(repo.func(prel, 'Pauli.__repr__'))
        try:
            tl, tp = RW.token_tables(repo.func(urel, 'pauli_tokenize'), loop)
        except Undecidable as e:
            run.undecided('R12.port', (urel, 'pauli_tokenize'), 'tokens', str(e))
            tl, tp = {}, {}
        rd = RW.reader_table(repo.func(prel, 'pauli'))
        rd = {k: tuple(sorted((e for e in v if e != ('skip',)), key=repr)) for k, v in (rd or {}).items()} or rd    # what a token does, not how the chain is laid out
        rm = {q: {k: v for k, v in RW.rmul_table(repo.func(prel, q + '.__rmul__')).items() if k != 2.5} for q in ('Pauli', 'PauliList')}
        qt = {q: RW.qutip_letters(repo.func(prel, q + '.to_qutip')) for q in ('Pauli', 'PauliList', 'PauliPolynomial')}
        tabs[pkg] = {'phase prefixes': pref, 'letters': letters, 'letter tokens': tl, 'phase tokens': tp, 'reader table': rd,
                     'scalar multiples': rm, 'qutip letters': qt}
    for what in tabs['pyclifford']:
        a, b = tabs['pyclifford'][what], tabs['torchclifford'][what]
        run.check(a == b and a, 'R12.port', (K.TC_P, 'paulialg'), what, '%s differ between the packages: %r vs %r' % (what, a, b))
    # ---- permutations
    for n in ('map_to_state', 'state_to_map'):
        for Nq in (2, 3):
            try:
                A = parallel.permutation_exec(repo.func(K.PY_U, n), Nq)
                B = parallel.permutation_exec(repo.func(K.TC_U, n), Nq)
            except Undecidable as e:
                run.undecided('R13.port', repo.func(K.TC_U, n), n, 'row permutation not interpretable: %s' % e)
                continue
            run.check(A == B, 'R13.port', repo.func(K.TC_U, n), '%s, N=%d' % (n, Nq), 'row permutation of %s differs between the packages: %s vs %s' % (n, A, B))
    # ---- same records for the rewritten kernels
    rotate.check_masked_rotation(run, repo.func(K.TC_U, 'clifford_rotate'), signed=True)
    rotate.check_masked_rotation(run, repo.func(K.TC_U, 'clifford_rotate_signless'), signed=False)
    K.product_sites(run, repo.func(K.TC_U, 'pauli_combine'), order='acc_left', floor=1)
    K.product_sites(run, repo.func(K.TC_U, 'batch_dot'), order='params', floor=1)
    from .C03 import transform
    transform(run, repo, repo.func(K.TC_U, 'pauli_transform'))
    for name, signed in (('stabilizer_project', False), ('stabilizer_projection_trace', True), ('stabilizer_measure', True)):
        projk.guards_and_block(run, repo, K.TC_U, name, signed=signed, loop_form=False)
    f = repo.func(K.TC_U, 'stabilizer_expect')
    rowclass.check_expect_guards(run, f)
    projk.check_decodes(run, f, sign_form=True)
    # circuit layer: same wiring rules
    gate = repo.cls('torchclifford', 'CliffordGate')
    circ.gate_dispatch(run, gate.methods['forward'], 'forward')
    circ.gate_dispatch(run, gate.methods['backward'], 'backward')
    cc = repo.cls('torchclifford', 'CliffordCircuit')
    dirs = CR.check_generators(run, repo, cc)
    CR.check_application_order(run, cc.methods['forward'], dirs, 'forward')
    CR.check_application_order(run, cc.methods['backward'], dirs, 'backward')
    CR.check_compile_folds(run, cc.methods['compile'], dirs)
    CR.check_take(run, repo, repo.cls('torchclifford', 'CliffordLayer').methods['take'], False)
    CR.check_take(run, repo, cc.methods['take'], False)
    # ---- copies are true copies in both packages; broadcast pairing of the polynomial product
    from ..rules import effect
    from .C17 import COPY_FIELDS
    for cname, fields in COPY_FIELDS.items():
        c = repo.find_cls('torchclifford', cname)
        if c is not None and 'copy' in c.methods:
            effect.check_copy(run, eff, c.methods['copy'], fields)
    from .C01 import broadcast_layout, coef_product
    broadcast_layout(run, repo)
    coef_product(run, repo.func(K.TC_U, 'batch_dot'))
    # ---- signatures and classes of namesakes
    shared = []
    for m in repo.modules.values():
        if m.pkg != 'torchclifford':
            continue
        pm = repo.modules.get('pyclifford/%s.py' % m.name)
        if pm is None:
            continue
        for q, tf in m.funcs.items():
            pf = pm.funcs.get(q)
            if pf is None:
                continue
            shared.append(tf)
            if tf.name == '__init__':
                continue     # construction differs by design (device handling, lazily inferred N); not an operation on shared inputs
            pp, tp_ = pf.posparams, tf.posparams
            ok = tp_[:len(pp)] == pp
            extra = tp_[len(pp):]
            n_def = tf.ndefaults
            ok = ok and len(extra) <= n_def
            run.check(ok, 'R2.sig', tf, q, 'same-named functions must accept the same leading arguments (pyclifford %s, torchclifford %s; extra '
                      'parameters need defaults)' % (pp, tp_))
            ra, rb = types.rets.get(pf.key(), set()), types.rets.get(tf.key(), set())
            if ra is None or rb is None or not ra or not rb:
                continue
            # torchclifford has no PauliMonomial (a monomial is a one-term polynomial) and no MeasureLayer
            mapped = {{'PauliMonomial': 'PauliPolynomial'}.get(c.name, c.name) for c in ra} - {'MeasureLayer'}
            run.check(mapped == {c.name for c in rb}, 'R18.port', tf, q, 'result classes differ: pyclifford %s, torchclifford %s'
                      % (sorted(c.name for c in ra), sorted(c.name for c in rb)))
    # ---- R17 / R16
    banned.check_package(run, repo, 'torchclifford')
    banned.check_package(run, repo, 'pyclifford')
    run.ok('R17', None, 'scan of both packages for linalg.matrix_rank / inv / solve / det / lstsq')
    for f in repo.all_funcs('torchclifford'):
        live.check_function(run, repo, eff, f)
    # ---- R1 on the torch namesakes
    resolve.check_cone(run, repo, shared, 'torch namesakes')
    run.floor('R4c', 7)
    # every phase accumulation of the port's kernels: no ipow of an operand with itself
    from ..rules import pair as _pair
    for q, f in sorted(repo.modules[K.TC_U].funcs.items()):
        _pair.check_self_products(run, f)
    run.floor('R7.self', 7)
    run.floor('R13.bcast', 8)
    run.floor('R8', 11)
    run.floor('R8.port', 6)
    run.floor('R12.port', 7)
    run.floor('R13.port', 4)
    run.floor('R2.sig', 120)
    run.floor('R18.port', 30)
    run.floor('R9.block', 3)
    run.floor('R16', 20)
    run.floor('R11.gate', 64)
    run.decide('normal forms, tables, permutations, kernel records, guards / blocks, circuit wiring, signatures and result classes agree '
               'between the packages; no pure result discarded; crash-free torch namesakes')
    run.decline('numerical equality in general; the vectorised re-implementations with a different algorithm (phase accumulation of '
                'stabilizer_measure / stabilizer_projection_trace via cumsum, vectorizable_stabilizer_expect, batched random_pair); '
                'torch entropy (z2rank finding); numpy-style indexing applied to tensors (embed)')
