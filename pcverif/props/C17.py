"""C17 copy is faithful and independent; queries have no side effects."""
import ast
from ..model import Func
from ..rules import effect, resolve
from . import common as K

EXPLANATION = ('interprocedural, field-sensitive mutation/alias/copy summaries (views alias, mask indexing and '
               '.copy()/.clone()/numpy.array copy) decide: every copy() returns a fresh object whose mutable fields '
               'share nothing with the original and whose denotation fields are derived from the same-named fields; '
               'every query method/constructor writes nothing reachable from its receiver or arguments; every '
               'in-place operation writes only its receiver (lazy inverse-map caching of gates accepted)')
TRUSTED = ['CPython ast', 'numpy/torch view-vs-copy table in effects.py', 'numba kernels mutate ndarray arguments in place',
           'appendix A.3 query / in-place lists', 'class inference (types.py) for resolved method edges']

COPY_FIELDS = {
    'Pauli': ['g', 'p'], 'PauliList': ['gs', 'ps'], 'PauliMonomial': ['g', 'p', 'c'],
    'PauliPolynomial': ['gs', 'ps', 'cs'], 'CliffordMap': ['gs', 'ps'], 'StabilizerState': ['gs', 'ps', 'r'],
    'CliffordGate': ['qubits', 'generator', 'forward_map', 'backward_map'],
    'CliffordLayer': ['gates', 'forward_map', 'backward_map'],
    'CliffordCircuit': ['first_layer', 'forward_map', 'backward_map'],
}
INPLACE = {'rotate_by', 'transform_by', 'measure', 'postselect', 'embed', 'set_r', 'set_c', 'set_cs', '__init__'}
ALG_CLASSES = ['Pauli', 'PauliList', 'PauliMonomial', 'PauliPolynomial', 'CliffordMap', 'StabilizerState']


def check(run):
    repo = run.repo
    eff = K.effects_of(repo)
    ncopy = 0
    for pkg in ('pyclifford', 'torchclifford'):
        for cname, fields in COPY_FIELDS.items():
            c = repo.find_cls(pkg, cname)
            if c is None:
                continue
            cm = c.methods.get('copy')
            if cm is None:
                # inherited copy(): the method of the nearest base class runs with this class's fields
                b = c
                seen_b = set()
                while cm is None and b is not None and b.name not in seen_b:
                    seen_b.add(b.name)
                    nb = None
                    for bn in b.base_names:
                        nb = repo.find_cls(pkg, bn.split('.')[-1]) or nb
                    b = nb
                    cm = b.methods.get('copy') if b is not None else None
                if cm is None:
                    continue
                effect.check_copy(run, eff, cm, fields, receiver=cname)
                ncopy += 1
                continue
            effect.check_copy(run, eff, cm, fields)
            ncopy += 1
            if cname == 'CliffordCircuit':
                # the copy of a circuit is the same chain of (copied) layers: the relinking loop is interpreted on three layers
                from ..rules import circuitrules
                circuitrules.check_linked_list(run, c.methods['copy'])
        # (a) queries of the algebra / state classes
        for cname in ALG_CLASSES:
            c = repo.find_cls(pkg, cname)
            if c is None:
                continue
            for name, m in sorted(c.methods.items()):
                if name in INPLACE:
                    continue
                effect.check_pure(run, eff, m)
        # module-level constructors and helpers of paulialg / stabilizer
        for rel in ('%s/paulialg.py' % pkg, '%s/stabilizer.py' % pkg):
            mod = repo.module(rel)
            for name, d in sorted(mod.defs.items()):
                if isinstance(d, Func):
                    effect.check_pure(run, eff, d)
        # (b) in-place operations leave their arguments alone
        for cname in ('Pauli', 'PauliList'):
            c = repo.find_cls(pkg, cname)
            for name in ('rotate_by', 'transform_by'):
                m = c.methods[name]
                effect.check_pure(run, eff, m, roots=m.posparams[1:], rule='R4b', what='in-place operation')
        st = repo.cls(pkg, 'StabilizerState')
        for name in ('measure', 'postselect'):
            if name in st.methods:
                m = st.methods[name]
                effect.check_pure(run, eff, m, roots=m.posparams[1:], rule='R4b', what='in-place operation')
        m = repo.cls(pkg, 'CliffordMap').methods['embed']
        effect.check_pure(run, eff, m, roots=m.posparams[1:], rule='R4b', what='in-place operation')
        # circuit classes
        crel = '%s/circuit.py' % pkg
        for cname in ('CliffordGate', 'CliffordLayer', 'MeasureLayer', 'CliffordCircuit', 'Circuit'):
            c = repo.find_cls(pkg, cname)
            if c is None:
                continue
            for name in ('forward', 'backward'):
                if name in c.methods:
                    # the gate/layer/circuit itself is not changed by being applied (lazy inverse caching and the
                    # measurement record are the accepted self-writes)
                    effect.check_pure(run, eff, c.methods[name], roots=['self'], rule='R4b',
                                      allow=effect.LAZY_CACHE | {'attr:result', 'attr:log2prob', 'attr:measure_result'},
                                      what='application')
                    extra = [p_ for p_ in c.methods[name].posparams[2:]]
                    if extra:
                        # what is passed along with the object (a measurement record) is only read
                        effect.check_pure(run, eff, c.methods[name], roots=extra, rule='R4b', what='application')
            for name in ('copy', '__repr__', 'independent_from', 'layers_forward', 'layers_backward', 'povm'):
                if name in c.methods:
                    effect.check_pure(run, eff, c.methods[name], allow=effect.LAZY_CACHE)
            if 'povm' in c.methods:
                # a generator that yields inside a loop hands out one object per iteration: an object allocated before the loop and
                # yielded (or transformed in place and yielded) in every iteration is the SAME object for all samples
                m = c.methods['povm']
                for lp in [x for x in ast.walk(m.node) if isinstance(x, (ast.For, ast.While))]:
                    fresh = set()
                    for x in lp.body:
                        for nd in ast.walk(x):
                            if isinstance(nd, ast.Assign) and isinstance(nd.value, ast.Call):
                                for t in nd.targets:
                                    if isinstance(t, ast.Name):
                                        fresh.add(t.id)
                    for y in [nd for x in lp.body for nd in ast.walk(x) if isinstance(nd, ast.Yield) and nd.value is not None]:
                        names = {nd.id for nd in ast.walk(y.value) if isinstance(nd, ast.Name) and nd.id != 'self'}
                        calls = [nd for nd in ast.walk(y.value) if isinstance(nd, ast.Call)]
                        stale = sorted(nm for nm in names if nm not in fresh and nm not in {a.id for cl in calls if isinstance(cl.func, ast.Name)
                                                                                           for a in [cl.func]})
                        run.check(not stale, 'R4c.yield', m, y, 'the object yielded in every iteration is built from `%s`, which is allocated outside the loop: '
                                  'all samples are one object (the next iteration rewrites the samples handed out before, and in-place evolution '
                                  'accumulates)' % ', '.join(stale))
            if 'take' in c.methods:
                m = c.methods['take']
                effect.check_pure(run, eff, m, roots=m.posparams[1:], rule='R4b', what='in-place operation',
                                  allow={'attr:prev_layer'})
            if 'compose' in c.methods:
                m = c.methods['compose']
                effect.check_pure(run, eff, m, roots=m.posparams[1:], rule='R4b', what='in-place operation')
                effect.check_no_capture(run, eff, m)
        for name in ('clifford_rotation_gate', 'identity_circuit', 'brickwall_rcc', 'onsite_rcc', 'global_rcc',
                     'diagonalize', 'SBRG'):
            if repo.has_func(crel, name):
                effect.check_pure(run, eff, repo.func(crel, name))
    # masked updates gather-modify-scatter; an in-place kernel must be handed the object's own arrays (R5)
    from ..rules import inout
    for rel in (K.PY_P, K.TC_P):
        inout.check_function(run, repo, repo.func(rel, 'PauliList.rotate_by'), {'clifford_rotate'})
        inout.check_function(run, repo, repo.func(rel, 'PauliList.transform_by'), {'pauli_transform'})
    # ClassicalShadow.snapshots leaves the base state untouched
    f = repo.func(K.PY_D, 'ClassicalShadow.snapshots')
    ms = [(p, k, via) for p, k, via in eff.summary(f).mod if p.startswith('self.state')]
    hard = [x for x in ms if not x[2]]
    run.check(not hard, 'R4a', f, 'self.state', 'taking snapshots writes the base state: %s' % hard)
    for p, k, via in ms:
        if via:
            run.undecided('R4a', f, '%s %s' % (p, k), 'write exists only through name-resolved method calls', declared=True)
    # kernels that work in place on their arguments: callers on query paths pass copies -- covered by (a) above;
    # record the kernels' own MOD sets as evidence
    for rel, name in ((K.PY_U, 'clifford_rotate'), (K.PY_U, 'stabilizer_measure'), (K.PY_U, 'z2rank'),
                      (K.PY_U, 'stabilizer_projection_trace'), (K.PY_U, 'stabilizer_postselection'),
                      (K.PY_U, 'stabilizer_project'), (K.TC_U, 'stabilizer_projection_trace'), (K.TC_U, 'stabilizer_project')):
        f = repo.func(rel, name)
        run.notes.append('MOD(%s::%s) = %s' % (rel, name, sorted(p for p, k, v in eff.summary(f).mod)))
    entries = []
    for pkg in ('pyclifford', 'torchclifford'):
        for cname in COPY_FIELDS:
            c = repo.find_cls(pkg, cname)
            if c is not None and 'copy' in c.methods:
                entries.append(c.methods['copy'])
    resolve.check_cone(run, repo, entries, 'copies')
    run.floor('R4c', 16)
    run.floor('R4d', 40)
    run.floor('R4a', 150)
    run.floor('R4b', 20)
    run.floor('R5', 8)
    run.floor('R4e', 2)
    run.floor('R10.link', 2)
    run.decide('%d copy methods: fresh result, no mutable field aliases the original, every denotation field derived from '
               'the same-named field; all query methods / constructors of the algebra, map and state classes and the '
               'circuit constructors write nothing reachable from receiver or arguments; in-place operations write '
               'only their receiver' % ncopy)
    run.decline('aliasing through user-held views such as state.stabilizers / list[item] (documented behaviour); '
                'effects that exist only through name-resolved (CHA) call edges are listed as undecided sites')
