"""Shared building blocks of the per-property checks."""
import ast

from ..exprnf import Undecidable
from ..model import AnalysisError, norm
from ..rules import nf, pair

PY_U = 'pyclifford/utils.py'
TC_U = 'torchclifford/utils.py'
PY_P = 'pyclifford/paulialg.py'
TC_P = 'torchclifford/paulialg.py'
PY_S = 'pyclifford/stabilizer.py'
TC_S = 'torchclifford/stabilizer.py'
PY_C = 'pyclifford/circuit.py'
TC_C = 'torchclifford/circuit.py'
PY_D = 'pyclifford/device.py'

KERNELS = [
    # (file, function, shape, operand params, oracle kind)
    (PY_U, 'acq', 'loop', ['g1', 'g2'], 'acq'),
    (PY_U, 'ipow', 'loop', ['g1', 'g2'], 'ipow'),
    (PY_U, 'acq_mat', 'loop', None, 'acq'),
    (PY_U, 'p0', 'loop', None, 'p0'),
    (PY_U, 'ps0', 'loop', None, 'p0'),
    (TC_U, 'acq', 'vector', ['g1', 'g2'], 'acq'),
    (TC_U, 'acq_grid', 'vector', ['g1', 'g2'], 'acq'),
    (TC_U, 'acq_mat', 'vector', ['gs'], 'acq'),
    (TC_U, 'ipow', 'vector', ['g1', 'g2'], 'ipow'),
    (TC_U, 'ipow_product', 'vector', ['g1', 'g2'], 'ipow'),
    (TC_U, 'ps0', 'vector', ['gs'], 'p0'),
]


def kernel_form(run, repo, rel, name, shape, ops, kind, rule='R8'):
    """Extract and check one reduction kernel against the oracle.  Returns the Form or None."""
    f = repo.func(rel, name)
    if ops is not None:
        ops = [f.posparams[i] for i in range(len(ops))] if len(f.posparams) >= len(ops) else ops
    try:
        form = nf.scalar_loop_form(f, ops) if shape == 'loop' else nf.vector_form(f, ops)
    except nf.Breach as b:
        run.violation(rule, f, b.node, b.msg)
        return None
    except Undecidable as e:
        if shape == 'loop' and ops and all(o in f.posparams for o in ops):
            # the shape is not the one the normal form reads: at least every entry of the operands must be read on some path
            try:
                miss = nf.read_coverage(f, ops)
            except Undecidable:
                miss = None
            if miss is not None:
                N_, p_, idx = miss
                run.violation(rule + '.cover', f, name, 'on strings of %d qubits (%d entries) the entries %s of `%s` are never read on any path through %s: '
                              'the result cannot depend on those qubits' % (N_, 2 * N_, idx, p_, name))
                return None
        run.undecided(rule, f, name, str(e))
        return None
    bad, m = nf.compare(form, kind)
    what = {'acq': 'anticommutation indicator', 'ipow': 'power of i of the product', 'p0': 'x.z phase'}[kind]
    if bad:
        b, g, w = bad[0]
        run.violation(rule, f, form.site_text, 'per-qubit term of %s is not the %s of the Pauli matrices: on '
                      '(x1,z1,x2,z2)=%r it gives %r, the matrices give %r (mod %d); %d of %d inputs differ'
                      % (name, what, b, g, w, m, len(bad), len(form.table)))
    else:
        run.ok(rule, f, form.site_text, '%s == oracle on all %d inputs (mod %d), for every N' % (what, len(form.table), m))
    run.check(form.modulus == m, rule + '.mod', f, 'result modulus of %s' % name,
              'result of %s is reduced modulo %r, the %s lives modulo %d' % (name, form.modulus, what, m))
    if shape == 'loop':
        run.check(form.init_ok, rule + '.init', f, 'accumulator of %s' % name,
                  'the accumulator of %s does not start at 0 before the loop' % name)
        if not form.bound_ok:
            run.undecided(rule + '.bound', f, name, 'loop bound is not recognisably (last dimension)//2')
        else:
            run.ok(rule + '.bound', f, 'for i in range(N), N = shape[-1]//2')
    return form


def product_sites(run, f, order=None, floor=None, rule='R7'):
    sites = pair.find_sites(f)
    for s in sites:
        pair.check_site(run, s, order=order, rule=rule)
    if floor is not None and len(sites) < floor and not run._new_findings():
        # no product site although phases still accumulate i-powers: an ordered product needs its partial products - ipow of a
        # string that the loop never multiplies by the rows gives pairwise signs, which cancel
        import ast
        from ..flow import walk
        from ..model import norm
        for st, ctx in walk(f.node):
            if not (isinstance(st, (ast.Assign, ast.AugAssign)) and ctx.loops):
                continue
            tgt = st.targets[0] if isinstance(st, ast.Assign) else st.target
            if not (isinstance(tgt, ast.Name) and tgt.id.startswith('p') and any(isinstance(x, ast.Name) and x.id == tgt.id for x in ast.walk(st.value))
                    or isinstance(st, ast.AugAssign) and isinstance(tgt, ast.Name) and tgt.id.startswith('p')):
                continue
            for c in pair.ipow_calls(st.value):
                loop = ctx.loops[-1]
                lvars = {x.id for x in ast.walk(loop.target) if isinstance(x, ast.Name)} if isinstance(loop, ast.For) else set()
                stored = set()
                for s2 in ast.walk(loop):
                    if isinstance(s2, (ast.Assign, ast.AugAssign)):
                        for t in (s2.targets if isinstance(s2, ast.Assign) else [s2.target]):
                            r = t
                            while isinstance(r, (ast.Subscript, ast.Attribute)):
                                r = r.value
                            if isinstance(r, ast.Name):
                                stored.add(r.id)
                ops = []
                for a in c.args:
                    r = a
                    while isinstance(r, (ast.Subscript, ast.Attribute)):
                        r = r.value
                    ops.append((a, r.id if isinstance(r, ast.Name) else None, any(isinstance(x, ast.Name) and x.id in lvars for x in ast.walk(a))))
                rows = [o for o in ops if o[2]]
                fixed = [o for o in ops if not o[2] and o[1] is not None and o[1] not in stored]
                if len(rows) == 1 and len(fixed) == 1:
                    run.violation(rule + 'b', f, st, 'the phase accumulates ipow(%s, %s) over the rows, but %s is never multiplied by those rows inside the loop: '
                                  'the sign of an ordered product needs the running product as the left factor (pairwise i-powers with the final '
                                  'string cancel)' % (norm(c.args[0]), norm(c.args[1]), norm(fixed[0][0])))
                    return sites
        raise AnalysisError('%s::%s: %d Pauli product site(s) recognised, %d confirmed by hand' % (
            f.rel, f.qual, len(sites), floor))
    return sites


def effects_of(repo):
    """Solved effect summaries, computed once per analysed tree."""
    from .. import effects
    from ..types import Types
    if not hasattr(repo, '_effects'):
        repo._types = Types(repo)
        repo._effects = effects.Effects(repo, repo._types)
    return repo._effects


def types_of(repo):
    effects_of(repo)
    return repo._types


def actuals(callee, call, is_method=False):
    """Actual argument nodes of a call in the order of the callee's formals (positional and keyword actuals bound by
    Python's rules); None where a formal receives no explicit actual."""
    from ..rules.resolve import bind
    m, err = bind(callee, call, is_method)
    ps = callee.posparams[1:] if is_method else callee.posparams
    return [m.get(p) for p in ps]


def actual_texts(callee, call, is_method=False):
    from ..model import norm
    return [norm(a) if a is not None else None for a in actuals(callee, call, is_method)]


def mask_function(run, repo, rel, rule='R13.maskfn'):
    """utils.mask(qubits, N): a boolean vector of length N that is True exactly at the given qubits."""
    import ast
    from ..flow import walk
    from ..model import norm
    f = repo.func(rel, 'mask')
    q, n = f.posparams[0], f.posparams[1]
    allocs = [st for st, _ in walk(f.node) if isinstance(st, ast.Assign) and isinstance(st.value, ast.Call)
              and norm(st.value.func).split('.')[-1] == 'zeros']
    ok = len(allocs) == 1 and allocs[0].value.args and norm(allocs[0].value.args[0]) == n and 'bool' in norm(allocs[0].value)
    run.check(ok, rule, f, allocs[0] if allocs else 'zeros(N, bool)', 'the mask is a boolean vector with one entry per qubit of the register (zeros(%s, dtype=bool))' % n)
    if not allocs:
        return
    # the qubits reach the store as given (or through a plain array / tensor conversion): an explicit integer conversion turns a
    # boolean region mask into the indices 0 / 1
    for st, _ in walk(f.node):
        for c in ast.walk(st):
            if isinstance(c, ast.Call) and norm(c.func).split('.')[-1] in ('as_tensor', 'tensor', 'array', 'asarray', 'astype', 'to', 'long', 'int') \
                    and any(isinstance(x, ast.Name) and x.id == q for x in ast.walk(c)):
                conv = [k for k in c.keywords if k.arg == 'dtype' and any(w in norm(k.value) for w in ('long', 'int'))] or \
                    ([c] if norm(c.func).split('.')[-1] in ('long', 'int') else []) or \
                    ([c] if norm(c.func).split('.')[-1] in ('astype', 'to') and c.args and any(w in norm(c.args[0]) for w in ('long', 'int')) else [])
                if conv:
                    run.violation(rule, f, c, 'the qubits are converted to integers before they index the mask: a boolean region mask (the documented ~mask idiom) '
                                  'then selects qubits 0 and 1 instead of the marked ones')
    mv = norm(allocs[0].targets[0])
    stores = [st for st, _ in walk(f.node) if isinstance(st, ast.Assign) and isinstance(st.targets[0], ast.Subscript) and norm(st.targets[0].value) == mv]
    ok = len(stores) == 1 and isinstance(stores[0].value, ast.Constant) and stores[0].value.value is True
    if ok:
        idx = stores[0].targets[0].slice
        while isinstance(idx, ast.Call) and idx.args:
            idx = idx.args[0]
        ok = norm(idx) == q
    run.check(ok, rule, f, stores[0] if stores else 'mask[qubits] = True', 'exactly the listed qubits are set to True')
    rets = [norm(st.value) for st, _ in walk(f.node) if isinstance(st, ast.Return)]
    run.check(rets == [mv], rule, f, 'return', 'the mask vector is returned')


def stabilizers_property(run, repo, rel, rule='R13.active'):
    """StabilizerState.stabilizers = rows [r, N) of the tableau as a list"""
    import ast
    from ..flow import walk
    from ..model import norm
    f = repo.func(rel, 'StabilizerState.stabilizers')
    rets = [st.value for st, _ in walk(f.node) if isinstance(st, ast.Return)]
    ok = len(rets) == 1 and isinstance(rets[0], ast.Subscript) and norm(rets[0].value) == 'self' and isinstance(rets[0].slice, ast.Slice) \
        and norm(rets[0].slice.lower) == 'self.r' and norm(rets[0].slice.upper) == 'self.N' and rets[0].slice.step is None
    run.check(ok, rule, f, rets[0] if rets else 'stabilizers', 'the active stabilizers are the rows [self.r : self.N] of the tableau')


def own_rank_bounds(run, repo, rel, rule='R13.ownrank'):
    """Rows of a tableau are selected by that tableau's own rank: a slice X.gs[..] / X.ps[..] / X[..] whose bounds mention Y.r for
    another object Y selects the wrong rows whenever the two ranks differ (a pure observable state measured on a mixed state).
    Bounds held in locals are not judged here (the callers' R13 rules read those); `.N` is not judged (equal by precondition)."""
    import ast
    from ..model import norm
    n = 0
    cls = repo.cls(rel.split('/')[0], 'StabilizerState')
    for name, m in sorted(cls.methods.items()):
        for nd in ast.walk(m.node):
            if not (isinstance(nd, ast.Subscript) and isinstance(nd.slice, ast.Slice)):
                continue
            base = nd.value
            if isinstance(base, ast.Attribute) and base.attr in ('gs', 'ps') and isinstance(base.value, ast.Name):
                owner = base.value.id
            elif isinstance(base, ast.Name):
                owner = base.id
            else:
                continue
            ranks = {x.value.id for b in (nd.slice.lower, nd.slice.upper) if b is not None for x in ast.walk(b)
                     if isinstance(x, ast.Attribute) and x.attr == 'r' and isinstance(x.value, ast.Name)}
            if not ranks:
                continue
            n += 1
            other = sorted(ranks - {owner})
            run.check(not other, rule, m, nd, 'rows of `%s` are selected with the rank of `%s`: the active rows of a tableau are [r, N) for its own r '
                      '(the two ranks differ when a pure state is measured on a mixed one)' % (owner, ', '.join(other)))
    return n
