"""C09 A circuit acts as the ordered product of its gates."""
import ast

from ..flow import walk
from ..model import norm
from ..rules import resolve, circuitrules as CR, parallel, bind, effect
from . import common as K
from . import circ

EXPLANATION = ('layer generators walk first->next / last->prev; forward applies layers ascending; take() hands a gate to an '
               'earlier layer only when independent_from holds (and never across a measurement), placing it exactly once on '
               'every path; appended layers are linked in both directions before last_layer moves; gate dispatch path by path '
               '(generator / forward map / lazily inverted backward map / fresh random map; mask(self.qubits, N) unless '
               'global); layer compile embeds each compiled gate map at mask(gate.qubits, N) into the identity; circuit '
               'compile folds the forward map in ascending order; compose re-takes the other circuit\'s gates in forward order; '
               'copy is independent (R4).  Equality of the compiled map with the sequential action is not decided')
TRUSTED = ['CPython ast', 'C02, C03, C04 (rotation, transform, embed, compose semantics)', 'propositional entailment of path conditions']


def indep_truth(fn, other):
    """Execute a gate-independence predicate (the whole method body) on concrete qubit tuples - sorted and unsorted, of one to
    three qubits; the predicate only compares qubit indices, so these orderings exhaust its behaviours on supports this small.
    True iff it equals set-disjointness on all of them, else the first failing pair; None if not executable."""
    from ..exprnf import Undecidable
    from .. import mini
    import itertools
    tuples = [t for k in (1, 2) for t in itertools.permutations(range(4), k)] + [(4, 2, 0), (0, 1, 2), (3, 1), (5,), (4, 6), (2, 5, 3)]
    cases = [(a, b) for a in tuples for b in tuples]
    try:
        for a, b in cases:
            def attr(n, env, rec, a=a, b=b):
                t = norm(n)
                if t == 'self.qubits':
                    return a
                if t == '%s.qubits' % other:
                    return b
                raise Undecidable('attr')

            def call(n, env, rec):
                fn_ = norm(n.func)
                if fn_ in ('set', 'len', 'tuple', 'list', 'frozenset', 'any', 'all', 'bool', 'sorted', 'min', 'max'):
                    return {'set': set, 'len': len, 'tuple': tuple, 'list': list, 'frozenset': frozenset, 'any': any,
                            'all': all, 'bool': bool, 'sorted': lambda x: tuple(sorted(x)), 'min': min, 'max': max}[fn_](*[rec(x) for x in n.args])
                if isinstance(n.func, ast.Attribute) and n.func.attr in ('isdisjoint', 'intersection'):
                    return getattr(set(rec(n.func.value)), n.func.attr)(*[set(rec(x)) for x in n.args])
                raise Undecidable('call')
            from ..rules.tables import std_sub
            res = []
            mini.execute(fn.node, {}, sub=std_sub, call=call, attr=attr, result=res)
            if len(res) != 1:
                return None
            if bool(res[0]) != (not (set(a) & set(b))):
                return (a, b)
        return True
    except (Undecidable, TypeError, IndexError, ValueError):
        return None


def independence(run, repo, pkg):
    """gates are independent iff their qubit sets are disjoint; a layer is independent iff all of its gates are.
    (Gates of one layer are applied, replayed backwards and embedded without regard to order, which is only valid
    for disjoint supports.)"""
    gate = repo.cls(pkg, 'CliffordGate')
    layer = repo.cls(pkg, 'CliffordLayer')
    gi = gate.methods['independent_from']
    rets = [st.value for st, _ in walk(gi.node) if isinstance(st, ast.Return)]
    other = gi.posparams[1]
    verdict = indep_truth(gi, other)
    if verdict is None:
        run.undecided('R11.indep', gi, 'independent_from', 'predicate not executable on concrete qubit tuples')
    else:
        run.check(verdict is True, 'R11.indep', gi, rets[0] if len(rets) == 1 else 'independent_from',
                  'two gates are independent iff their qubit sets are disjoint (differs for qubits %s and %s)' % (verdict if verdict is not True else ('', '')))
    li = layer.methods['independent_from']
    o2 = li.posparams[1]
    # a layer is independent from a gate iff every one of its gates is: the method is executed on layers of 0..3 stub gates with
    # every pattern of answers
    import itertools
    from .. import mini
    from ..exprnf import Undecidable

    class _G:
        def __init__(self, qubits):
            self.qubits = qubits
    verdict = True
    layers = [(), ((0,),), ((2,),), ((0, 1),), ((1, 2),), ((3, 1),), ((0,), (2,)), ((0, 1), (2, 3)), ((1, 0), (3, 2)), ((2, 3), (0,)), ((0,), (1,), (3,))]
    incoming = [(0,), (1,), (2,), (3,), (0, 1), (1, 2), (2, 3), (0, 2), (0, 3), (1, 3), (2, 0), (3, 1), (3, 0), (2, 1)]
    try:
        for lay in layers:
            for inc in incoming:
                gates = tuple(_G(q) for q in lay)
                gin = _G(inc)

                def attr(n, env, rec, gates=gates):
                    if norm(n) == 'self.gates':
                        return gates
                    if n.attr == 'qubits':
                        b_ = rec(n.value)
                        if isinstance(b_, _G):
                            return b_.qubits
                    raise Undecidable('attribute ' + norm(n))

                def call(n, env, rec):
                    f_ = n.func
                    if isinstance(f_, ast.Attribute) and f_.attr == 'independent_from' and len(n.args) == 1:
                        b_, o_ = rec(f_.value), rec(n.args[0])
                        if isinstance(b_, _G) and isinstance(o_, _G):
                            return not (set(b_.qubits) & set(o_.qubits))      # the gate predicate, decided on its own above
                    if isinstance(f_, ast.Name) and f_.id in ('all', 'any', 'bool', 'len', 'list', 'tuple', 'sum', 'set', 'min', 'max', 'sorted') and len(n.args) == 1:
                        return {'all': all, 'any': any, 'bool': bool, 'len': len, 'list': tuple, 'tuple': tuple, 'sum': sum, 'set': set, 'min': min, 'max': max,
                                'sorted': lambda x: tuple(sorted(x))}[f_.id](rec(n.args[0]))
                    raise Undecidable('call ' + norm(f_))
                from ..rules.tables import std_sub
                res = []
                mini.execute(li.node, {o2: gin}, call=call, attr=attr, sub=std_sub, result=res)
                if len(res) != 1:
                    raise Undecidable('no result')
                if bool(res[0]) != all(not (set(q) & set(inc)) for q in lay):
                    verdict = (lay, inc)
                    raise StopIteration
    except StopIteration:
        pass
    except (Undecidable, TypeError, ValueError) as e:
        verdict = None
        run.undecided('R11.indep', li, 'independent_from', 'layer predicate not executable on stub gates: %s' % e)
    if verdict is not None:
        run.check(verdict is True, 'R11.indep', li, 'layer.independent_from', 'a layer is independent from a gate iff ALL of its gates are: for (layer gates, incoming gate) = %s '
                  'the layer answers otherwise (a gate that overlaps one gate of the layer would be packed into it or slide past it)' % (repr(verdict) if verdict is not True else '',))


def check(run):
    repo = run.repo
    eff = K.effects_of(repo)
    for pkg, rel in (('pyclifford', K.PY_C), ('torchclifford', K.TC_C)):
        has_measure = repo.find_cls(pkg, 'MeasureLayer') is not None
        gate = repo.cls(pkg, 'CliffordGate')
        circ.gate_dispatch(run, gate.methods['forward'], 'forward')
        layer = repo.cls(pkg, 'CliffordLayer')
        circ.layer_application(run, layer.methods['forward'], 'forward')
        circ.layer_compile(run, layer.methods['compile'])
        circ.gate_compile(run, gate.methods['compile'])
        CR.check_take(run, repo, layer.methods['take'], has_measure)
        # copies of gates and layers are the same gates and layers (every field carried over, none under a foreign condition)
        from .C17 import COPY_FIELDS as _CF
        from ..rules import effect as _E
        for c_, n_ in ((gate, 'CliffordGate'), (layer, 'CliffordLayer')):
            if 'copy' in c_.methods:
                _E.check_copy(run, eff, c_.methods['copy'], _CF[n_])
        CR.check_placement(run, layer.methods['take'])
        for cn in ('CliffordGate', 'CliffordLayer', 'MeasureLayer', 'CliffordCircuit', 'Circuit'):
            kc = repo.find_cls(pkg, cn)
            if kc is not None:
                CR.check_cache_coherence(run, repo, kc)
        # independent_from: gate = disjoint qubit sets; layer = all gates independent
        independence(run, repo, pkg)
        for cname in ('CliffordCircuit', 'Circuit'):
            c = repo.find_cls(pkg, cname)
            if c is None:
                continue
            dirs = CR.check_generators(run, repo, c)
            CR.check_application_order(run, c.methods['forward'], dirs, 'forward')
            circ.layer_application(run, c.methods['forward'], 'forward')
            CR.check_compile_folds(run, c.methods['compile'], dirs, only='forward_map')
            CR.check_recompile(run, c.methods['compile'])
            CR.check_take(run, repo, c.methods['take'], has_measure and cname == 'Circuit')
            CR.check_placement(run, c.methods['take'])
            CR.check_linked_list(run, c.methods['take'])
            if pkg == 'pyclifford':
                CR.check_bound_raise(run, c.methods['take'])
                CR.check_bound_raise(run, c.methods['gate'])
            g = c.methods['gate']
            rets = [norm(st.value).replace(' ', '') for st, _ in walk(g.node) if isinstance(st, ast.Return)]
            run.check(len(rets) == 1 and rets[0].startswith('self.take(CliffordGate(*qubits'), 'R11.gate.new', g, 'gate()',
                      'gate(*qubits) must take a fresh map-less CliffordGate on those qubits (found %s)' % rets)
            if 'copy' in c.methods:
                from .C17 import COPY_FIELDS
                from ..rules import effect as E2_
                if cname in COPY_FIELDS:
                    E2_.check_copy(run, eff, c.methods['copy'], COPY_FIELDS[cname])     # the copy is the same circuit: every field carried over
                # order and links of the copy are decided by executing the method on a three-layer circuit (R10.link)
                CR.check_linked_list(run, c.methods['copy'])
            if 'compose' in c.methods:
                cm = c.methods['compose']
                oth = cm.posparams[1]
                loops = [st for st, _ in walk(cm.node) if isinstance(st, ast.For)]
                outer = [l for l in loops if isinstance(l.iter, ast.Call) and isinstance(l.iter.func, ast.Attribute)
                         and l.iter.func.attr in ('layers_forward', 'layers_backward')]
                run.check(len(outer) == 1 and outer[0].iter.func.attr == 'layers_forward' and norm(outer[0].iter.func.value) == oth,
                          'R10.order', cm, 'compose', 'compose must re-take the other circuit\'s gates layer by layer in forward order')
                takes = [n for n in ast.walk(cm.node) if isinstance(n, ast.Call) and isinstance(n.func, ast.Attribute)
                         and n.func.attr == 'take' and norm(n.func.value) == 'self']
                run.check(len(takes) == 1, 'R10.order', cm, 'self.take(gate)', 'every gate of the other circuit is taken exactly once')
                # a gate handed to a layer directly (x.take(gate), x a layer) bypasses the scheduling of self.take: with x read from
                # self.last_layer before the loop and never refreshed, it is a stale layer as soon as self.take has opened a new one
                for lt in [n for n in ast.walk(cm.node) if isinstance(n, ast.Call) and isinstance(n.func, ast.Attribute) and n.func.attr == 'take'
                           and isinstance(n.func.value, ast.Name) and n.func.value.id != 'self']:
                    x = lt.func.value.id
                    inloop = any(isinstance(a, ast.Assign) and any(isinstance(t, ast.Name) and t.id == x for t in ast.walk(a))
                                 for l in loops for b in l.body for a in ast.walk(b))
                    before = [a for a in ast.walk(cm.node) if isinstance(a, ast.Assign) and any(isinstance(t, ast.Name) and t.id == x for t in a.targets)
                              and 'last_layer' in norm(a.value)]
                    if before and not inloop and takes:
                        run.violation('R10.order', cm, lt, 'compose places gates into `%s`, read from %s before the loop and never refreshed, while self.take in '
                                      'the same loop can open a new last layer: later gates sink below gates they overlap' % (x, norm(before[0].value)))
                    else:
                        run.undecided('R10.order', cm, lt, 'compose hands gates to a layer directly (%s.take): the scheduling is not read by this rule' % x)
                # every way through compose that does not raise re-takes the gates: a path around the loop either drops the other
                # circuit or adopts its layers
                from ..rules import guards as G_, effect as E_
                for pth, end in G_.paths(cm.node.body):
                    if end == 'raise':
                        continue
                    through = any(not isinstance(x, tuple) and any(n is t for t in takes for n in ast.walk(x)) for x in pth)
                    conds = ' and '.join(('' if x[2] else 'not ') + norm(x[1]) for x in pth if isinstance(x, tuple))[:120]
                    if not through:
                        # a path around the loop is harmless only if it is taken for an empty argument, which its condition must have looked at
                        looks = any(isinstance(x, tuple) and any(isinstance(a, ast.Attribute) and norm(a.value).split('.')[0] == oth and a.attr != 'N'
                                                                 for a in ast.walk(x[1])) for x in pth)
                        if looks:
                            continue
                    run.check(through, 'R10.order', cm, 'path [%s]' % conds, 'this path through compose returns without taking the gates of the other circuit one by one, '
                              'and its condition never looks at what the other circuit contains')
                E_.check_no_capture(run, eff, cm)
    # rotation gates (what diagonalize / SBRG / user code feed to take) sit on the qubits of their generator's support
    from .C18 import rotation_gate_rule
    for crel_ in (K.PY_C, K.TC_C):
        rotation_gate_rule(run, repo, eff, crel_)
    K.mask_function(run, repo, K.PY_U)
    K.mask_function(run, repo, K.TC_U)
    entries = []
    for pkg in ('pyclifford', 'torchclifford'):
        for cname in ('CliffordGate', 'CliffordLayer', 'CliffordCircuit', 'Circuit'):
            c = repo.find_cls(pkg, cname)
            if c is not None:
                for m in ('forward', 'take', 'compile', 'compose', 'copy', 'gate'):
                    if m in c.methods:
                        entries.append(c.methods[m])
        # rotation gates are what diagonalize / SBRG / user code feed to take(): their qubit indices must be comparable by value
        entries.append(repo.func('%s/circuit.py' % pkg, 'clifford_rotation_gate'))
    resolve.check_cone(run, repo, entries, 'circuit forward')
    run.floor('R11.indep', 4)
    run.floor('R11.recompile', 4)
    run.floor('R13.maskfn', 6)
    run.floor('R10.gen', 12)
    run.floor('R10.order', 8)
    run.floor('R4e', 2)
    run.floor('R10.fold', 3)
    run.floor('R10.link', 7)
    run.floor('R11.take', 8)
    run.floor('R11.place', 10)
    run.floor('R11.gate', 67)
    run.floor('R13.local', 14)
    run.floor('R11.lcompile', 10)
    run.floor('R11.compile', 36)
    run.decide('ordering (generators, forward loops, forward fold, compose, copy), packing guards of all take methods, '
               'exactly-once placement, bidirectional linking, gate dispatch and locality on every path, layer / gate compile wiring')
    run.decline('equality of the compiled map with the sequential action (needs the semantics of C03/C04); independence of '
                'gates inside one layer is established by the take guards, not re-proved for hand-built layers')
