"""C07 Expectations, overlaps and bit-string probabilities equal the trace formulas -- structural clauses."""
import ast

from ..flow import walk
from ..model import norm
from ..exprnf import ev, Undecidable
from ..rules import resolve, bind, dispatch, effect, kinds, parallel, rowclass, pair
from . import common as K
from . import projk

EXPLANATION = ('dispatch order of expect (subclasses before PauliList), zero/accumulate guards and sign decode of '
               'stabilizer_expect, the projection-trace kernel (guards, replacement block, halving / zeroing of the trace), '
               'the polynomial branch (phase-free list weighted by cs * i^ps), the overlap branch (fresh copies, active rows '
               'of both arrays, division by 2^obs.r, pure-state guard), get_prob (2*readout signs, overlap with the basis '
               'state), purity of the queries, call binding.  Numerical equality with Tr(rho P) is not decided')
TRUSTED = ['CPython ast', 'layout docstring', 'C01', 'naming scheme', 'effects.py']


def poly_branch(run, repo, f):
    """Branch guarded by isinstance(obs, PauliPolynomial): phases of the terms must enter as i^ps weights (the list
    kernel decodes signs with //2, valid for Hermitian operators only)."""
    obs = f.posparams[1]
    for st, ctx in walk(f.node):
        if isinstance(st, ast.Return) and st.value is not None:
            pos = [t for t, pol in ctx.conds if pol and 'isinstance' in norm(t) and 'PauliPolynomial' in norm(t)]
            if not pos:
                continue
            # the list handed to the recursive call
            lists = []
            for s2, c2 in walk(f.node):
                if c2.conds == ctx.conds and isinstance(s2, ast.Assign):
                    for n in ast.walk(s2.value):
                        if isinstance(n, ast.Call) and norm(n.func) == 'PauliList':
                            lists.append((s2, n))
            reduced = any(isinstance(n, ast.Call) and isinstance(n.func, ast.Attribute) and n.func.attr == 'reduce'
                          for s2, c2 in walk(f.node) if c2.conds == ctx.conds for n in ast.walk(s2))
            txt = norm(st.value)
            uses_cs = '%s.cs' % obs in txt
            run.check(uses_cs, 'R6.poly', f, st, 'polynomial expectation must be weighted by the coefficients %s.cs' % obs)
            for s2, n in lists:
                args = [norm(a) for a in n.args] + [norm(k.value) for k in n.keywords]
                carries = '%s.ps' % obs in args
                weights = ('1j ** %s.ps' % obs) in txt or ('1j**%s.ps' % obs) in txt
                if carries and not reduced:
                    run.violation('R3b', f, s2, 'general phases %s.ps of a polynomial (i, -i allowed) are fed to the list '
                                  'branch, whose kernel decodes phases with //2 (Hermitian only): imaginary units are dropped'
                                  % obs)
                elif not carries and not weights and not reduced:
                    run.violation('R6.poly', f, st, 'phases of the polynomial terms never enter the expectation '
                                  '(neither as i**ps weights nor through reduce())')
                else:
                    run.ok('R3b', f, s2, 'phase-free list weighted by cs * 1j**ps' if weights else 'phases handled')
            if not lists:
                run.undecided('R3b', f, st, 'no PauliList constructed in the polynomial branch')


def overlap_branch(run, repo, f):
    obs = f.posparams[1]
    for c, t, h in repo.callees(f):
        if h == 'name' and t[0].name == 'stabilizer_projection_trace':
            bind.check_call(run, repo, f, c, t[0])
            a = K.actuals(t[0], c)
            if len(a) >= 5 and None not in a[:5]:
                run.check('self.gs' in norm(a[0]) and 'self.ps' in norm(a[1]), 'R2.overlap', f, c,
                          'the projected state must be the receiver')
                acc_g, acc_p = parallel.field_access(a[2]), parallel.field_access(a[3])
                ok = acc_g is not None and acc_p is not None and acc_g[0] == obs and acc_p[0] == obs \
                    and acc_g[2] == acc_p[2] and acc_g[2] is not None
                run.check(ok, 'R13.par', f, c, 'active stabilizers of the other state: rows [r:N] of both %s.gs and %s.ps' % (obs, obs))
                if ok:
                    run.check(acc_g[2].replace(' ', '') == '%s.r:%s.N' % (obs, obs), 'R13.par', f, c,
                              'the active rows of the other state are [%s.r : %s.N], found [%s]' % (obs, obs, acc_g[2]))
                run.check(norm(a[4]) == '0', 'R2.overlap', f, c, 'the receiver is pure in this branch: rank argument 0')
    for st, ctx in walk(f.node):
        if isinstance(st, ast.Return) and st.value is not None and any(
                pol and 'StabilizerState' in norm(t) for t, pol in ctx.conds):
            ok = True
            try:
                for tv in (1.0, 0.25, 0.0):
                    for rv in (0, 1, 3):
                        def attr(n, env, rec, rv=rv):
                            if norm(n) == '%s.r' % obs:
                                return rv
                            raise Undecidable('attr')
                        env = {n.id: tv for n in ast.walk(st.value) if isinstance(n, ast.Name) and n.id not in f.params}
                        if abs(ev(st.value, env, attr=attr) - tv / 2 ** rv) > 1e-12:
                            ok = False
            except Undecidable:
                ok = None
            if ok is None:
                run.undecided('R6.overlap', f, st, 'overlap result is not an arithmetic expression of trace and %s.r' % obs)
            else:
                run.check(ok, 'R6.overlap', f, st,
                          'Tr(rho sigma) = (projection trace) / 2^r_sigma: the result must equal trace / 2**%s.r' % obs)
    raises = [st for st, ctx in walk(f.node) if isinstance(st, ast.Raise) and any('self.r' in norm(t) for t, _ in ctx.conds)]
    run.check(bool(raises), 'R11.pure', f, 'self.r != 0 -> raise', 'overlap with a mixed receiver must be rejected')


def trace_kernel(run, repo, rel, loop_form):
    f, k = projk.guards_and_block(run, repo, rel, 'stabilizer_projection_trace', signed=True, loop_form=loop_form)
    if k is None or k.block is None:
        return
    from ..names import return_names
    rn = return_names(f)
    TR = rn[-1] if rn and rn[-1] else 'trace'
    halves = [s for s in k.block if isinstance(s, ast.Assign) and norm(s.targets[0]) == TR]
    ok = len(halves) == 1
    if ok:
        try:
            ok = all(abs(ev(halves[0].value, {TR: tv}) - tv / 2) < 1e-12 for tv in (1.0, 0.25))
        except Undecidable:
            ok = False
    run.check(ok, 'R11.trace', f, halves[0] if halves else TR, 'projecting onto an undetermined stabilizer halves the trace, exactly once')
    owner = None
    for st, ctx in walk(f.node):
        if isinstance(st, ast.If) and st.body is k.block:
            owner = st
    if owner is not None:
        zero = [n for s in owner.orelse for n in ast.walk(s) if isinstance(n, ast.Assign) and norm(n.targets[0]) == TR]
        ok = len(zero) == 1 and isinstance(zero[0].value, ast.Constant) and zero[0].value.value == 0
        run.check(ok, 'R11.trace', f, owner.test, 'a determined stabilizer with the opposite sign makes the trace zero')
        for s in owner.orelse:
            if isinstance(s, ast.If):
                t = s.test
                # not pa == ps_obs[k]   /  pa != ps_obs[k]
                ok = True
                try:
                    for A in (0, 2):
                        for B in (0, 2):
                            def sub(n, env, rec, B=B):
                                if isinstance(n.value, ast.Name) and n.value.id in ('ps_obs', 'ps_ob'):
                                    return B
                                raise Undecidable('sub')
                            env = {n.id: A for n in ast.walk(t) if isinstance(n, ast.Name) and n.id not in f.params}
                            env['ps_ob'] = B
                            if bool(ev(t, env, sub=sub)) != (A != B):
                                ok = False
                except Undecidable:
                    ok = None
                if ok is None:
                    run.undecided('R11.trace', f, t, 'sign comparison not evaluable')
                else:
                    run.check(ok, 'R11.trace', f, t,
                              'the trace vanishes exactly when the accumulated sign differs from the projector\'s sign')
    init = [st for st, ctx in walk(f.node) if isinstance(st, ast.Assign) and not ctx.loops and any(
        isinstance(t, ast.Name) and t.id == TR for t in ast.walk(st.targets[0]))]
    if init:
        v = init[0].value
        if isinstance(init[0].targets[0], ast.Tuple):
            idx = [norm(e) for e in init[0].targets[0].elts].index(TR)
            v = init[0].value.elts[idx]
        run.check(isinstance(v, ast.Constant) and v.value == 1, 'R11.trace', f, init[0], 'the trace starts at 1')


def check(run):
    repo = run.repo
    # per-item results spread back over repeated items (expect of lists / polynomials with repeated strings)
    from ..rules import parallel as _par
    for rel_ in (K.PY_S, K.TC_S, K.PY_P, K.TC_P):
        for q_, f_ in sorted(repo.module(rel_).funcs.items()):
            _par.check_unique_scatter(run, f_)
    eff = K.effects_of(repo)
    for rel in (K.PY_S, K.TC_S):
        f = repo.func(rel, 'StabilizerState.expect')
        dispatch.check_function(run, repo, f)
        from ..rules import depend
        depend.check_branch_reads(run, repo, f)
        poly_branch(run, repo, f)
        overlap_branch(run, repo, f)
        effect.check_pure(run, eff, f)
        for c, t, h in repo.callees(f):
            if h == 'name' and t[0].name == 'stabilizer_expect':
                bind.check_call(run, repo, f, c, t[0])
                obs = f.posparams[1]
                from ..names import itext
                at = [itext(f, a) for a in K.actuals(t[0], c)]
                # the list handed to the kernel is the observable itself, or (polynomial branch written out instead of recursing)
                # the phase-free list PauliList(obs.gs): strings and phases of ONE list
                bases = ('%s' % obs, 'PauliList(%s.gs)' % obs)
                okx = len(at) == 5 and at[0] == 'self.gs' and at[1] == 'self.ps' and at[4] == 'self.r' and \
                    any(at[2] == b + '.gs' and at[3] == b + '.ps' for b in bases)
                run.check(okx, 'R2.expect', f, c, 'list expectation must hand (self.gs, self.ps, obs.gs, obs.ps, self.r) to the kernel (found %s)' % at)
        g = repo.func(rel, 'StabilizerState.get_prob')
        effect.check_pure(run, eff, g)
        kinds.check_function(run, repo, g)
        rets = [st.value for st, _ in walk(g.node) if isinstance(st, ast.Return)]
        run.check(len(rets) == 1 and norm(rets[0]).startswith('self.expect('), 'R2.getprob', g, 'return',
                  'the probability of a bit string is the overlap with its basis state')
        built = [norm(st.value) for st, _ in walk(g.node) if isinstance(st, ast.Assign) and isinstance(st.targets[0], ast.Name)]
        run.check(any('identity_map(self.N).to_state()' in b.replace(' ', '') for b in built), 'R2.getprob', g, 'basis state',
                  'the basis state must be built from the zero state of self.N qubits')
        stores = [st for st, _ in walk(g.node) if isinstance(st, ast.Assign) and isinstance(st.targets[0], ast.Subscript)
                  and isinstance(st.targets[0].value, ast.Attribute) and st.targets[0].value.attr == 'ps']
        for st in stores:
            sl = norm(st.targets[0].slice).replace(' ', '')
            run.check(sl == ':self.N', 'R13.getprob', g, st, 'the readout signs belong to the N stabilizer rows [:self.N]')
    # kernels
    from ..rules import pair as _pair
    for rel in (K.PY_U, K.TC_U):
        for q in ('stabilizer_expect', 'stabilizer_projection_trace'):
            _pair.check_self_products(run, repo.func(rel, q))
    for rel in (K.PY_U, K.TC_U):
        f = repo.func(rel, 'stabilizer_expect')
        rowclass.check_expect_guards(run, f)
        rowclass.check_flag_resets(run, f)
        K.product_sites(run, f, floor=1)
        projk.check_decodes(run, f, sign_form=True)
        # the zero is final: the row loop is left (break) and the sign write is skipped (trivial flag)
        brk = [st for st, ctx in walk(f.node) if isinstance(st, ast.Break)]
        run.check(bool(brk), 'R11.zero', f, 'break', 'once a stabilizer/standby row anticommutes the expectation is 0 and must stay 0')
        sign = [(st, ctx) for st, ctx in walk(f.node) if isinstance(st, ast.Assign) and isinstance(st.targets[0], ast.Subscript)
                and norm(st.targets[0].value) == 'xs' and not isinstance(st.value, ast.Constant)]
        # the flag that guards the sign: set to a constant before the row loop and cleared next to the zero store / break;
        # the same protocol written as for ... else (the else arm runs only when the loop was not left by break) is accepted
        zero_breaks = [b for b, cb in walk(f.node) if isinstance(b, ast.Break)
                       and any(isinstance(s2, ast.Assign) and isinstance(s2.targets[0], ast.Subscript) and isinstance(s2.value, ast.Constant)
                               and s2.value.value == 0 for s2 in cb.block)]
        for st, ctx in sign:
            flag_ok = False
            for t, pol in ctx.conds:
                if isinstance(t, ast.Name) and pol:
                    clears = [s2 for s2, c2 in walk(f.node) if isinstance(s2, ast.Assign) and norm(s2.targets[0]) == t.id
                              and isinstance(s2.value, ast.Constant) and s2.value.value is False
                              and any(isinstance(b, ast.Break) for b in c2.block)]
                    flag_ok = flag_ok or bool(clears)
            par = ctx.parent_stmt
            else_ok = isinstance(par, ast.For) and any(s2 is st for s2 in par.orelse) and \
                any(b in [x for x in ast.walk(par) if isinstance(x, ast.Break)] for b in zero_breaks)
            run.check(flag_ok or else_ok, 'R11.zero', f, st,
                      'the sign may only be written when no stabilizer/standby row anticommutes (a flag cleared where the loop is left, '
                      'or the else arm of the row loop)')
    trace_kernel(run, repo, K.PY_U, True)
    trace_kernel(run, repo, K.TC_U, False)
    K.product_sites(run, repo.func(K.PY_U, 'stabilizer_projection_trace'), floor=2)
    run.floor('R7.self', 4)
    entries = [repo.func(K.PY_S, 'StabilizerState.expect'), repo.func(K.PY_S, 'StabilizerState.get_prob'),
               repo.func(K.TC_S, 'StabilizerState.expect'), repo.func(K.TC_S, 'StabilizerState.get_prob')]
    resolve.check_cone(run, repo, entries, 'expect')
    run.floor('R14', 8)
    run.floor('R6.branch', 6)
    run.floor('R3b', 2)
    run.floor('R6.overlap', 2)
    run.floor('R13.par', 4)
    run.floor('R9.zero', 4)
    run.floor('R9.accum', 8)
    run.floor('R3.decode', 2)
    run.floor('R11.trace', 6)
    run.floor('R4a', 4)
    run.floor('R9.block', 2)
    run.decide('expect dispatch is not shadowed; list kernel: zero on {SS,AS,SD} rows, accumulate on {AD} from row j-N, sign '
               'decode table; polynomial branch carries i^ps weights and cs; overlap: fresh copies, rows [r:N] of both arrays, '
               '/2^obs.r, pure receiver only; trace kernel halves / zeroes correctly with layout-true guards and block; '
               'get_prob writes 2*readout on [:N] and returns the overlap; queries are pure')
    run.decline('numerical equality with Tr(rho P); probabilities summing to one; torch vectorizable_stabilizer_expect '
                '(a different algorithm)')
