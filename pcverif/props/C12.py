"""C12 State-map duality and state constructors denote the documented states -- structural clauses."""
import ast

from ..exprnf import ev, Undecidable, affine_in
from ..flow import walk
from ..model import norm
from ..rules import resolve, bind, inout, kinds, parallel, rngsites, guards, effect
from . import common as K

EXPLANATION = ('map_to_state / state_to_map are read as affine row permutations (loop form) or slice assignments (torch) and '
               'decided to send X images to destabilizer rows N+i and Z images to stabilizer rows i, identically for strings and '
               'phases, and to be mutually inverse; to_state / to_map / the named constructors bind (gs, ps, r) correctly and '
               'return the documented class; stabilizer_state raises ValueError on anticommuting input before projecting the '
               'maximally mixed tableau, stores the new rank, and assigns the signs to the active rows in input order; to_qutip '
               'multiplies the active projectors and divides by 2^r.  That projection + sign assignment denote the joint +1 '
               'eigenspace is not decided')
TRUSTED = ['CPython ast', 'layout docstring', 'naming scheme', 'class inference (types.py)', 'C05 (projection kernel structure)']

WANT_M2S = {((1, 1, 0), (2, 0, 0)), ((1, 0, 0), (2, 0, 1))}     # target row a*i+k*N+c  <-  source row


def perm(run, f, loop_form):
    res = parallel.permutation_any(f)
    out = {}
    for arr, items in res.items():
        pairs = set()
        for ft, fv, src, st in items:
            if ft is None or fv is None:
                run.undecided('R13.perm', f, st, 'row index is not affine in the loop variable and N')
                return None
            pairs.add((ft, fv))
        out[arr] = pairs
    return out


def check(run):
    repo = run.repo
    # density_matrix enumerates the stabilizer group through binary_repr (all 2^(N-r) selectors, every bit column)
    from .C19 import bits_rule, combine_site
    bits_rule(run, repo)
    for rel_ in (K.PY_S, K.TC_S):
        combine_site(run, repo, repo.func(rel_, 'StabilizerState.density_matrix'))     # strings and signs of the same active rows
    # the exported density matrix is built from the exported stabilizers: Pauli / PauliList to_qutip letters and i^p
    from .C15 import qutip_export, FIELDS as _F15
    for pkg_ in ('pyclifford', 'torchclifford'):
        for cn_ in ('Pauli', 'PauliList'):
            c_ = repo.find_cls(pkg_, cn_)
            if c_ is not None and 'to_qutip' in c_.methods:
                qutip_export(run, c_.methods['to_qutip'], _F15[cn_])
    # stabilizer_state parses its input through paulis(): the one reader, signs included
    from .C20 import second_readers
    for prel_ in (K.PY_P, K.TC_P):
        second_readers(run, repo, prel_, {0: 4, 2: 5, 1: 6, 3: 7})
    types = K.types_of(repo)
    for rel, loop_form in ((K.PY_U, True), (K.TC_U, False)):
        m2s, s2m = repo.func(rel, 'map_to_state'), repo.func(rel, 'state_to_map')
        # both kernels are executed by the checker's interpreter on row labels for N = 2 and N = 3 (loops, slices, index vectors,
        # cat / stack forms alike): X images (rows 2i) become destabilizers (rows N+i), Z images (rows 2i+1) stabilizers (rows i),
        # identically for strings and phases; state_to_map is the inverse
        for Nq in (2, 3):
            res = {}
            for f in (m2s, s2m):
                try:
                    res[f.name] = parallel.permutation_exec(f, Nq)
                except Undecidable as e:
                    run.undecided('R13.perm', f, f.name, 'the row permutation could not be interpreted (N = %d): %s' % (Nq, e))
            want_m = {'g': [None] * (2 * Nq), 'p': [None] * (2 * Nq)}
            for i in range(Nq):
                for c in 'gp':
                    want_m[c][Nq + i] = '%s%d' % (c, 2 * i)
                    want_m[c][i] = '%s%d' % (c, 2 * i + 1)
            want_s = {'g': [None] * (2 * Nq), 'p': [None] * (2 * Nq)}
            for i in range(Nq):
                for c in 'gp':
                    want_s[c][2 * i] = '%s%d' % (c, Nq + i)
                    want_s[c][2 * i + 1] = '%s%d' % (c, i)
            for f, want, what in ((m2s, want_m, 'X images (rows 2i) become destabilizers (rows N+i), Z images (rows 2i+1) stabilizers (rows i)'),
                                  (s2m, want_s, 'destabilizers (rows N+i) become X images (rows 2i), stabilizers (rows i) Z images (rows 2i+1)')):
                if f.name not in res:
                    continue
                g, p_ = res[f.name]
                run.check(g == want['g'], 'R13.perm', f, 'strings, N=%d: %s' % (Nq, g), '%s: the strings come out as %s' % (what, g))
                run.check(p_ == want['p'], 'R13.perm', f, 'phases, N=%d: %s' % (Nq, p_), '%s: the phases come out as %s' % (what, p_))
                run.check([x[1:] for x in g] == [x[1:] for x in p_], 'R13.perm', f, 'gs vs ps, N=%d' % Nq, 'strings and phases must be permuted identically')
            if len(res) == 2:
                gm = res['map_to_state'][0]
                gs_ = res['state_to_map'][0]
                back = [gm[int(x[1:])] if x else None for x in gs_]
                run.check(back == ['g%d' % i for i in range(2 * Nq)], 'R13.perm', s2m, 'inverse, N=%d' % Nq, 'state_to_map must be the inverse permutation of map_to_state')
        for f in (m2s, s2m):
            bind.check_function_calls(run, repo, f)
            rets = [st.value for st, _ in walk(f.node) if isinstance(st, ast.Return)]
            run.check(len(rets) == 1 and isinstance(rets[0], ast.Tuple) and [bind.expr_role(f, e) for e in rets[0].elts] == ['STRING', 'PHASE'],
                      'R2.ret', f, 'return', 'the conversion returns (strings, phases)')
    for pkg, rel in (('pyclifford', K.PY_S), ('torchclifford', K.TC_S)):
        for q in ('CliffordMap.to_state', 'StabilizerState.to_map'):
            f = repo.func(rel, q)
            bind.check_function_calls(run, repo, f, only={'StabilizerState', 'CliffordMap', 'map_to_state', 'state_to_map'})
            bind.check_unpacks(run, repo, f)
            conv = 'map_to_state' if q.endswith('to_state') else 'state_to_map'
            calls = [c for c, t, h in repo.callees(f) if h == 'name' and t[0].name == conv]
            run.check(len(calls) == 1 and K.actual_texts(repo.resolve_local(f, conv), calls[0]) == ['self.gs', 'self.ps'], 'R2.conv', f, conv,
                      '%s must convert (self.gs, self.ps) with %s' % (q, conv))
        ts = repo.func(rel, 'CliffordMap.to_state')
        rets = [st.value for st, _ in walk(ts.node) if isinstance(st, ast.Return)]
        ok = len(rets) == 1 and isinstance(rets[0], ast.Call) and isinstance(rets[0].func, ast.Attribute) and rets[0].func.attr == 'set_r' \
            and [norm(a) for a in rets[0].args] == [ts.posparams[1]]
        run.check(ok, 'R2.conv', ts, 'set_r(r)', 'to_state(r) must set the requested rank')
        # class of the constructors (R18)
        want = {'StabilizerState': ['stabilizer_state', 'maximally_mixed_state', 'zero_state', 'one_state', 'ghz_state',
                                    'random_pauli_state', 'random_clifford_state', 'random_bit_state'],
                'CliffordMap': ['identity_map', 'random_pauli_map', 'random_clifford_map', 'clifford_rotation_map']}
        for cname, fns in want.items():
            for n in fns:
                if not repo.has_func(rel, n):
                    continue
                f = repo.func(rel, n)
                rc = types.rets.get(f.key(), set())
                if rc is None:
                    run.undecided('R18', f, n, 'return class could not be inferred')
                else:
                    run.check({c.name for c in rc} == {cname}, 'R18', f, n, '%s must return a %s, it returns %s' % (n, cname, sorted(c.name for c in rc) or 'no repo object'))
        # rank of the named constructors
        mm = repo.func(rel, 'maximally_mixed_state')
        rets = [norm(st.value).replace(' ', '') for st, _ in walk(mm.node) if isinstance(st, ast.Return)]
        N = mm.posparams[0]
        run.check(len(rets) == 1 and rets[0].startswith('identity_map(%s' % N) and rets[0].endswith('.to_state(r=%s)' % N), 'R2.rank', mm, 'to_state(r=N)',
                  'the maximally mixed state is the identity tableau with rank N (found %s)' % rets)
        z = repo.func(rel, 'zero_state')
        rets = [norm(st.value).replace(' ', '') for st, _ in walk(z.node) if isinstance(st, ast.Return)]
        run.check(len(rets) == 1 and rets[0].startswith('identity_map(%s' % N) and rets[0].endswith('.to_state()'), 'R2.rank', z, 'to_state()',
                  'the zero state is the identity tableau with rank 0 (found %s)' % rets)
        o = repo.func(rel, 'one_state')
        kinds.check_function(run, repo, o)
        bind.check_function_calls(run, repo, o, only={'StabilizerState'})
        # read from the sink: the two arguments of the StabilizerState(...) that is returned, with temporaries read through
        from ..names import inlined
        def arg(c, k, name):
            for kw in c.keywords:
                if kw.arg == name:
                    return kw.value
            return c.args[k] if len(c.args) > k else None
        ctor = [c for c in ast.walk(o.node) if isinstance(c, ast.Call) and norm(c.func) == 'StabilizerState'
                and arg(c, 0, 'gs') is not None and arg(c, 1, 'ps') is not None]
        src = [norm(inlined(o, arg(c, 0, 'gs'))).replace(' ', '') for c in ctor]
        run.check(len(src) == 1 and src[0].startswith('zero_state(%s' % N) and src[0].endswith('.gs'), 'R2.rank', o, 'gs = zero_state(N).gs',
                  'the all-ones state has the zero-state tableau with flipped signs (found %s)' % src)
        psd = [inlined(o, arg(c, 1, 'ps')) for c in ctor]
        run.check(len(psd) == 1 and kinds.kind_of(o, psd[0]) == 'HERM', 'R3a', o, 'ps = 2*ones', 'every stabilizer of the all-ones state has sign -1 (phase 2)')
        for n in ('random_pauli_state', 'random_clifford_state'):
            f = repo.func(rel, n)
            rets = [norm(st.value).replace(' ', '') for st, _ in walk(f.node) if isinstance(st, ast.Return)]
            mp = n.replace('_state', '_map')
            run.check(len(rets) == 1 and rets[0].startswith(mp + '(') and rets[0].endswith('.to_state(%s)' % f.posparams[1]), 'R2.rank', f, n,
                      '%s must convert a %s with the requested rank (found %s)' % (n, mp, rets))
        # stabilizer_state
        ss = repo.func(rel, 'stabilizer_state')
        inout.check_function(run, repo, ss, {'stabilizer_project'})
        bind.check_function_calls(run, repo, ss, only={'stabilizer_project'})
        bind.check_unpacks(run, repo, ss)
        raises = [(st, ctx) for st, ctx in walk(ss.node) if isinstance(st, ast.Raise)]
        ok = False
        for st, ctx in raises:
            for t, pol in ctx.conds:
                txt = norm(t).replace(' ', '')
                if 'acq_mat(stabilizers.gs)' in txt and isinstance(st.exc, ast.Call) and norm(st.exc.func) == 'ValueError':
                    # the test must be true exactly when some pair anticommutes: the anticommutation matrix is replaced by a
                    # name and the test is evaluated on "all zero" / "not all zero" (any spelling of that test is accepted)
                    import copy as _copy
                    from ..names import allzero_polarity

                    class _R(ast.NodeTransformer):
                        def visit_Call(self, n):
                            if norm(n).replace(' ', '') == 'acq_mat(stabilizers.gs)':
                                return ast.copy_location(ast.Name(id='__M__', ctx=ast.Load()), n)
                            self.generic_visit(n)
                            return n
                    pol_z = allzero_polarity(_R().visit(_copy.deepcopy(t)), '__M__')
                    ok = ok or (pol_z is not None and (pol_z is False) == pol) or \
                        (txt == '(acq_mat(stabilizers.gs)==1).any()' and pol)
        run.check(ok, 'R11.commute', ss, 'raise ValueError', 'anticommuting stabilizers must be rejected with ValueError')
        proj = [(st, ctx) for st, ctx in walk(ss.node) if isinstance(st, ast.Assign) and isinstance(st.value, ast.Call) and norm(st.value.func) == 'stabilizer_project']
        if raises and proj:
            run.check(raises[0][0].lineno < proj[0][0].lineno, 'R11.commute', ss, 'check before projection', 'the commutation check must come before the projection')
        from ..names import return_names
        rn = return_names(ss)
        SV = rn[0] if len(rn) == 1 and rn[0] else 'state'
        from ..names import itext
        base = [itext(ss, st.value) for st, _ in walk(ss.node) if isinstance(st, ast.Assign) and norm(st.targets[0]) == SV]
        run.check(len(base) == 1 and base[0].startswith('maximally_mixed_state(stabilizers.N'), 'R2.rank', ss, 'state = maximally_mixed_state(N)',
                  'the projection starts from the maximally mixed state (found %s)' % base)
        flipped_g = any('flipud(stabilizers.gs)' in itext(ss, st.value) or 'stabilizers.gs[::-1]' in itext(ss, st.value) for st, _ in proj)
        signs = [st for st, _ in walk(ss.node) if isinstance(st, ast.Assign) and isinstance(st.targets[0], ast.Subscript)
                 and norm(st.targets[0].value) == SV + '.ps']
        if len(signs) != 1:
            run.violation('R13.signs', ss, 'state.ps[...] = stabilizers.ps', 'the signs of the stabilizers must be assigned exactly once')
        else:
            st = signs[0]
            sl = itext(ss, st.targets[0].slice, skip=(SV,))
            # the state was built as maximally_mixed_state(stabilizers.N): its N is the N of the stabilizers
            run.check(sl in ('%s.r:%s.N' % (SV, SV), '%s.r:stabilizers.N' % SV, '%s.r:' % SV), 'R13.signs', ss, st, 'signs belong to the active stabilizer rows [state.r:state.N] (found [%s])' % sl)
            flipped_p = 'flipud' in itext(ss, st.value) or '[::-1]' in itext(ss, st.value)
            run.check(flipped_g != flipped_p and 'stabilizers.ps' in itext(ss, st.value), 'R13.signs', ss, st,
                      'each projection lands on the row just below the previous one, so the strings are projected in reverse order '
                      'and the signs assigned in input order (exactly one of the two is flipped)')
            run.check(st.lineno > proj[0][0].lineno if proj else False, 'R13.signs', ss, st, 'signs are assigned after the projection fixed the rank')
        rets = [norm(st.value) for st, _ in walk(ss.node) if isinstance(st, ast.Return)]
        run.check(rets == [SV] and len(base) == 1, 'R2.rank', ss, 'return state', 'the projected state is returned')
        # to_qutip
        tq = repo.func(rel, 'StabilizerState.to_qutip')
        loops = [st for st, _ in walk(tq.node) if isinstance(st, ast.For) and not isinstance(st.iter, ast.ListComp)]
        loops = [l for l in loops if itext(tq, l.iter).startswith('range(self.r')]
        run.check(len(loops) == 1 and itext(tq, loops[0].iter) == 'range(self.r,self.N)', 'R6.qutip', tq, 'range(self.r, self.N)',
                  'the density matrix is the product of the projectors of the active stabilizers [r, N)')
        if loops:
            i = loops[0].target.id
            pc = [c for c in ast.walk(loops[0]) if isinstance(c, ast.Call) and norm(c.func) == 'Pauli']
            run.check(len(pc) == 1 and [norm(a).replace(' ', '') for a in pc[0].args] == ['self.gs[%s]' % i, 'self.ps[%s]' % i], 'R6.qutip', tq, 'Pauli(self.gs[i], self.ps[i])',
                      'each projector uses string and sign of the same row')
        norms = [st for st, _ in walk(tq.node) if isinstance(st, (ast.Assign, ast.Return)) and st.value is not None and '2**self.r' in itext(tq, st.value)]
        run.check(len(norms) == 1 and isinstance(norms[0].value, ast.BinOp) and isinstance(norms[0].value.op, ast.Div), 'R6.qutip', tq, 'rho / 2**self.r',
                  'the density matrix is normalised by 2^r')
    # the projection kernel behind stabilizer_state
    from . import projk
    projk.guards_and_block(run, repo, K.PY_U, 'stabilizer_project', signed=False)
    projk.guards_and_block(run, repo, K.TC_U, 'stabilizer_project', signed=False, loop_form=False)
    # random_bit_state / ghz (pyclifford only has random_bit_state)
    rb = repo.func(K.PY_S, 'random_bit_state_gs_ps')
    rngsites.check_function(run, rb)
    kinds.check_function(run, repo, rb)
    # the kernel is executed by the checker's interpreter for N = 3: which (row, slot) entries of the tableau are set to 1
    from .. import mini
    ones = set()

    def _call(nd, env, rec):
        last = norm(nd.func).split('.')[-1]
        if last in ('zeros', 'empty', 'eye', 'choice', 'randint', 'array', 'astype'):
            return 'ARR'
        raise Undecidable('call ' + norm(nd.func))

    def _attr(nd, env, rec):
        return 'LIB'

    def _on_store(t, v, env, value):
        if isinstance(t, ast.Subscript) and isinstance(t.slice, ast.Tuple) and len(t.slice.elts) == 2:
            if v is Undecidable:
                raise Undecidable('stored value')
            ones.add((value(t.slice.elts[0]), value(t.slice.elts[1]), v))
    try:
        mini.execute(rb.node, {rb.posparams[0]: 3}, call=_call, attr=_attr, on_store=_on_store)
        want = {(i, 2 * i + 1, 1) for i in range(3)} | {(3 + i, 2 * i, 1) for i in range(3)}
        run.check(ones == want, 'R13.bits', rb, 'gs[i,2i+1] = gs[N+i,2i] = 1',
                  'a computational basis state has stabilizers Z_i (row i, slot 2i+1) and destabilizers X_i (row N+i, slot 2i): for N = 3 the '
                  'entries set are %s' % sorted(ones))
    except Undecidable as e:
        run.undecided('R13.bits', rb, 'random_bit_state_gs_ps', 'kernel not interpretable: %s' % e)
    rbs = repo.func(K.PY_S, 'random_bit_state')
    bind.check_function_calls(run, repo, rbs, only={'StabilizerState'})
    bind.check_unpacks(run, repo, rbs)
    for rel in (K.PY_S, K.TC_S):
        g = repo.func(rel, 'ghz_state')
        dicts = [n for n in ast.walk(g.node) if isinstance(n, ast.Dict)]
        ks = sorted((norm(k).replace(' ', '') for k in dicts[0].keys), key=len) if len(dicts) == 1 else []
        ok = len(ks) == 2 and ks[0].isidentifier() and ks[1] in (ks[0] + '+1', '1+' + ks[0]) and all(isinstance(v, ast.Constant) and v.value == 3 for v in dicts[0].values)
        run.check(ok, 'R12.ghz', g, 'ZZ on neighbours', 'GHZ stabilizers Z_i Z_{i+1} (code 3 on qubits i, i+1)')
        # the qubit variable of the ZZ dictionary runs over range(N-1): comprehension or explicit loop
        kv = sorted((norm(k) for k in dicts[0].keys), key=len)[0] if dicts else None
        its = [n.iter for n in ast.walk(g.node) if isinstance(n, (ast.comprehension, ast.For)) and isinstance(n.target, ast.Name) and n.target.id == kv]
        Np = g.posparams[0]
        run.check(len(its) == 1 and norm(its[0]).replace(' ', '') in ('range(%s-1)' % Np, 'range(0,%s-1)' % Np), 'R12.ghz', g, 'range(N-1)', 'N-1 neighbour stabilizers')
        xs = [n for n in ast.walk(g.node) if isinstance(n, ast.BinOp) and isinstance(n.op, ast.Mult) and isinstance(n.left, ast.List)]
        run.check(len(xs) == 1 and norm(xs[0]).replace(' ', '') in ('[1]*%s' % Np, '%s*[1]' % Np), 'R12.ghz', g, 'X...X', 'GHZ stabilizer X on every qubit (code 1 repeated N times)')
        from ..names import local_deps, expr_deps
        rets = [st.value for st, _ in walk(g.node) if isinstance(st, ast.Return)]
        dps = expr_deps(g, rets[0], local_deps(g)) if len(rets) == 1 else set()
        ok = len(rets) == 1 and isinstance(rets[0], ast.Call) and norm(rets[0].func) == 'stabilizer_state' \
            and ('call', 'pauli') in dps and ('const', 3) in dps and ('const', 1) in dps
        run.check(ok, 'R12.ghz', g, 'return', 'the GHZ state is the stabilizer state of these operators (the ZZ operators and the X string reach stabilizer_state)')
    # every constructor returns a new object built from nothing but its arguments: no module-level state is written and no
    # stored object is handed out twice (a cached identity table would be shared by every later state)
    eff = K.effects_of(repo)
    for rel in (K.PY_S, K.TC_S):
        for n in ('identity_map', 'maximally_mixed_state', 'zero_state', 'one_state', 'ghz_state', 'stabilizer_state',
                  'random_pauli_state', 'random_clifford_state', 'CliffordMap.to_state', 'StabilizerState.to_map'):
            g = repo.func(rel, n)
            effect.check_pure(run, eff, g, what='constructor')
            effect.check_fresh_result(run, eff, g)
    # the random-product constructor: one independent anticommuting pair per qubit on the diagonal 2x2 blocks
    from .C16 import pauli_blocks, flip_everywhere
    pauli_blocks(run, repo)
    flip_everywhere(run, repo)
    entries = []
    for rel in (K.PY_S, K.TC_S):
        for n in ('CliffordMap.to_state', 'StabilizerState.to_map', 'stabilizer_state', 'maximally_mixed_state', 'zero_state', 'one_state',
                  'ghz_state', 'random_pauli_state', 'random_clifford_state', 'StabilizerState.to_qutip'):
            entries.append(repo.func(rel, n))
    entries.append(repo.func(K.PY_S, 'random_bit_state'))
    resolve.check_cone(run, repo, entries, 'duality and constructors')
    run.floor('R13.perm', 28)
    run.floor('R18', 22)
    run.floor('R2.rank', 12)
    run.floor('R11.commute', 4)
    run.floor('R13.signs', 6)
    run.floor('R6.qutip', 6)
    run.floor('R5', 2)
    run.floor('R12.ghz', 8)
    run.floor('R4a.fresh', 20)
    run.floor('R13.sampler', 1)
    run.floor('R8.flip', 3)
    run.floor('R9.block', 2)
    run.floor('R9.pivot', 3)
    run.decide('map<->state row permutations (both packages, strings and phases, mutually inverse); conversion and constructor '
               'wiring incl. ranks and classes; commutation guard and sign/row order of stabilizer_state; structure of to_qutip; '
               'basis-state bit layout; GHZ generators')
    run.decline('that projection + flipud + sign assignment denote the joint +1 eigenspace for every independent commuting list; '
                'linear independence of the supplied stabilizers (precondition); numerical identity of the exported matrix')
