"""C10 backward is the exact inverse of forward -- mirror wiring."""
import ast

from ..flow import walk
from ..model import norm
from ..rules import resolve, circuitrules as CR
from . import common as K
from . import circ

EXPLANATION = ('mirror queries: CliffordGate.backward rotates by the negated generator / applies the backward map / the '
               'lazily inverted forward map, path by path; gate compile builds clifford_rotation_map(+-generator) or mutual '
               'inverses; layer and circuit backward use the backward map or visit their parts with backward; circuit '
               'backward walks layers in descending order; the compiled backward map is the descending product of the layer '
               'backward maps (or forward_map.inverse()); __neg__ adds 2.  Correctness of CliffordMap.inverse itself is C04')
TRUSTED = ['CPython ast', 'C02 (rotation by -G inverts rotation by G)', 'C04 (inverse wiring)', 'propositional entailment of path conditions']


def check(run):
    repo = run.repo
    from .C02 import tables_neg_const
    for pkg, rel, prel in (('pyclifford', K.PY_C, K.PY_P), ('torchclifford', K.TC_C, K.TC_P)):
        gate = repo.cls(pkg, 'CliffordGate')
        circ.gate_dispatch(run, gate.methods['backward'], 'backward')
        circ.gate_compile(run, gate.methods['compile'])
        layer = repo.cls(pkg, 'CliffordLayer')
        circ.layer_application(run, layer.methods['backward'], 'backward')
        from .C09 import independence
        independence(run, repo, pkg)   # a layer replays its gates in layer order: only valid for disjoint supports
        for cname in ('CliffordCircuit', 'Circuit'):
            c = repo.find_cls(pkg, cname)
            if c is None:
                continue
            dirs = CR.check_generators(run, repo, c)
            CR.check_application_order(run, c.methods['backward'], dirs, 'backward')
            circ.layer_application(run, c.methods['backward'], 'backward')
            CR.check_compile_folds(run, c.methods['compile'], dirs)
            CR.check_map_pairs(run, c)
        f = repo.func(prel, 'Pauli.__neg__')
        k = tables_neg_const(f)
        run.check(k == 2, 'R12.neg', f, '-generator', 'negating the generator must add 2 to its phase (found %r)' % (k,))
    entries = []
    for pkg in ('pyclifford', 'torchclifford'):
        for cname in ('CliffordGate', 'CliffordLayer', 'CliffordCircuit', 'Circuit'):
            c = repo.find_cls(pkg, cname)
            if c is not None and 'backward' in c.methods:
                entries.append(c.methods['backward'])
    resolve.check_cone(run, repo, entries, 'circuit backward')
    run.floor('R11.gate', 64)
    run.floor('R10.order', 3)
    run.floor('R10.fold', 6)
    run.floor('R11.apply', 8)
    run.floor('R11.compile', 36)
    run.floor('R10.gen', 12)
    run.floor('R11.indep', 4)
    run.floor('R11.pairmaps', 8)
    run.decide('backward mirrors forward at every level: negated generator, backward map or inverted forward map, '
               'descending layer order, descending fold of the compiled backward map, mutual-inverse gate compilation')
    run.decline('correctness of CliffordMap.inverse (C04) and of the rotation itself (C02); behaviour of random gates '
                '(not deterministic, excluded by the property)')
