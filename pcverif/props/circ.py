"""Shared circuit-level checks (gate dispatch paths, layer / circuit application, compile wiring)."""
import ast

from ..flow import walk, is_const_false, is_const_true
from ..model import norm
from ..rules import guards, circuitrules as CR


def live_paths(f):
    out = []
    for p, end in guards.paths(f.node.body):
        conds = [(x[1], x[2]) for x in p if isinstance(x, tuple)]
        dead = False
        for t, pol in conds:
            if (pol and is_const_false(t)) or (not pol and is_const_true(t)):
                dead = True
        if dead:
            continue
        ok, nm = guards.entails(conds, [])
        if nm == 0:
            continue
        out.append((p, end, conds))
    return out


def gate_dispatch(run, f, direction, rule='R11.gate'):
    """CliffordGate.forward / backward, path by path."""
    own, other = ('forward_map', 'backward_map') if direction == 'forward' else ('backward_map', 'forward_map')
    obj = f.posparams[1]
    n = 0
    for p, end, conds in live_paths(f):
        if end == 'raise':
            continue
        env = {}          # local name -> value text ; 'self.x' -> value text for attribute stores on the path
        stores = []
        calls = []
        for s in p:
            if isinstance(s, tuple):
                continue
            if isinstance(s, ast.Assign) and len(s.targets) == 1:
                t = s.targets[0]
                if isinstance(t, ast.Name):
                    v = norm(s.value)
                    env[t.id] = env.get(v, v)
                elif isinstance(t, ast.Attribute) and norm(t.value) == 'self':
                    env['self.' + t.attr] = norm(s.value)
                    stores.append((t.attr, norm(s.value), s))
            for c in ast.walk(s):
                if isinstance(c, ast.Call) and isinstance(c.func, ast.Attribute) and c.func.attr in ('rotate_by', 'transform_by') \
                        and norm(c.func.value) == obj:
                    calls.append((c, dict(env)))
        gen_known, _ = guards.entails(conds, [('self.generator is not None', True)])
        gen_none, _ = guards.entails(conds, [('self.generator is not None', False)])
        desc = ' and '.join(('' if pol else 'not ') + norm(t) for t, pol in conds)[:150]
        n += 1
        if len(calls) != 1:
            run.violation(rule, f, 'path [%s]' % desc, 'the gate must act exactly once on the object on every path (found %d '
                          'rotate_by/transform_by calls)' % len(calls))
            continue
        c, env_at = calls[0]
        arg0 = norm(c.args[0]) if c.args else None
        if gen_known:
            want = 'self.generator' if direction == 'forward' else '-self.generator'
            run.check(c.func.attr == 'rotate_by' and arg0 == want, rule, f, c,
                      '%s of a generator gate must rotate by %s (found %s(%s))' % (direction, want, c.func.attr, arg0))
            run.check(not stores, rule, f, c, 'a generator gate must not store maps while being applied')
        elif gen_none:
            val = env_at.get(arg0, arg0)
            own_none, _ = guards.entails(conds, [('self.%s is None' % own, True)])
            own_set, _ = guards.entails(conds, [('self.%s is None' % own, False)])
            oth_none, _ = guards.entails(conds, [('self.%s is None' % other, True)])
            oth_set, _ = guards.entails(conds, [('self.%s is None' % other, False)])
            if c.func.attr != 'transform_by':
                run.violation(rule, f, c, 'a gate without generator must apply a Clifford map')
            elif own_set:
                run.check(val == 'self.' + own, rule, f, c, '%s must apply self.%s when it is given (found %s)' % (direction, own, val))
                run.check(not stores, rule, f, c, 'nothing may be stored when the %s is already known' % own)
            elif own_none and oth_set:
                run.check(val == 'self.%s.inverse()' % other, rule, f, c,
                          '%s without a %s must apply the inverse of self.%s (found %s)' % (direction, own, other, val))
                bad = [s for s in stores if not (s[0] == own and s[1] == 'self.%s.inverse()' % other)]
                run.check(not bad, rule, f, c, 'only the lazily inverted %s may be cached: %s' % (own, [(a, b) for a, b, _ in bad]))
            elif own_none and oth_none:
                run.check(val.startswith('random_clifford_map(self.n'), rule + '.random', f, c,
                          'a gate without generator and maps is a random gate: it must draw random_clifford_map(self.n) (found %s)' % val)
                run.check(not stores, rule + '.random', f, c, 'a random gate is resampled at every call: the sampled map must not be '
                          'stored on the gate (%s)' % [(a, b) for a, b, _ in stores])
            else:
                run.undecided(rule, f, c, 'path condition does not determine which maps are given: ' + desc)
        else:
            run.undecided(rule, f, c, 'path condition does not determine whether a generator is given: ' + desc)
        # locality: no mask only for a global gate
        has_mask = len(c.args) >= 2 or any(k.arg == 'mask' for k in c.keywords)
        if has_mask:
            m = c.args[1] if len(c.args) >= 2 else [k.value for k in c.keywords if k.arg == 'mask'][0]
            txt = norm(m).replace(' ', '')
            run.check(txt.startswith('mask(self.qubits,%s.N' % obj), 'R13.local', f, c,
                      'a local gate acts through mask(self.qubits, %s.N): found %s' % (obj, norm(m)))
        else:
            glob, _ = guards.entails(conds, [('self.n == %s.N' % obj, True)])
            run.check(glob, 'R13.local', f, c, 'acting without a mask is only allowed for a global gate (self.n == %s.N)' % obj)
    return n


def layer_application(run, f, direction, rule='R11.apply'):
    """CliffordLayer / circuit forward / backward: compiled map of the right direction or gate-by-gate."""
    own = 'forward_map' if direction == 'forward' else 'backward_map'
    obj = f.posparams[1]
    n = 0
    for st, ctx in walk(f.node):
        for c in (ast.walk(st) if isinstance(st, (ast.Expr, ast.Assign)) else []):
            if isinstance(c, ast.Call) and isinstance(c.func, ast.Attribute) and c.func.attr == 'transform_by' \
                    and norm(c.func.value) == obj:
                n += 1
                arg = norm(c.args[0]) if c.args else ''
                run.check(arg == 'self.' + own, rule, f, c, '%s must apply the compiled %s (found %s)' % (f.qual, own, arg))
                ok, _ = guards.entails(ctx.conds, [('self.%s is None' % own, False)])
                run.check(ok, rule, f, c, 'the compiled %s is used without checking that it exists' % own)
            if isinstance(c, ast.Call) and isinstance(c.func, ast.Attribute) and c.func.attr in ('forward', 'backward') \
                    and isinstance(c.func.value, ast.Name) and c.func.value.id != 'self' and c.args and norm(c.args[0]) == obj:
                n += 1
                run.check(c.func.attr == direction, rule, f, c, '%s must call %s on its parts (found %s)' % (f.qual, direction, c.func.attr))
    return n


def gate_compile(run, f, rule='R11.compile'):
    n = 0
    for p, end, conds in live_paths(f):
        desc = ' and '.join(('' if pol else 'not ') + norm(t) for t, pol in conds)[:150]
        stores = {}
        for s in p:
            if isinstance(s, ast.Assign) and isinstance(s.targets[0], ast.Attribute) and norm(s.targets[0].value) == 'self':
                stores[s.targets[0].attr] = (norm(s.value).replace(' ', ''), s)
        gen, _ = guards.entails(conds, [('self.generator is not None', True)])
        n += 1
        if gen:
            fw = stores.get('forward_map', ('', None))[0]
            bw = stores.get('backward_map', ('', None))[0]
            run.check(fw == 'clifford_rotation_map(self.generator)', rule, f, 'forward_map [%s]' % desc,
                      'compiled forward map of a generator gate must be clifford_rotation_map(self.generator), found %s' % fw)
            run.check(bw == 'clifford_rotation_map(-self.generator)', rule, f, 'backward_map [%s]' % desc,
                      'compiled backward map of a generator gate must be clifford_rotation_map(-self.generator), found %s' % bw)
            continue
        if end == 'raise':
            both, _ = guards.entails(conds, [('self.forward_map is None', True), ('self.backward_map is None', True)])
            run.check(both, rule, f, 'raise [%s]' % desc, 'compile may only refuse a gate with neither generator nor maps')
            continue
        for own, other in (('forward_map', 'backward_map'), ('backward_map', 'forward_map')):
            own_none, _ = guards.entails(conds, [('self.%s is None' % own, True)])
            if own_none:
                got = stores.get(own, ('', None))[0]
                run.check(got == 'self.%s.inverse()' % other, rule, f, '%s [%s]' % (own, desc),
                          'a missing %s must be compiled as self.%s.inverse(), found %s' % (own, other, got or 'nothing'))
            elif own in stores:
                run.violation(rule, f, stores[own][1], 'compile overwrites a given %s' % own)
    return n


def layer_compile(run, f, rule='R11.lcompile'):
    N = f.posparams[1]
    inits = {}
    embeds = []
    compiled = False
    for st, ctx in walk(f.node):
        if isinstance(st, ast.Assign) and not ctx.loops:
            tg = [t for t in st.targets if isinstance(t, ast.Attribute) and norm(t.value) == 'self']
            for t in tg:
                inits[t.attr] = norm(st.value).replace(' ', '')
            if len(tg) > 1 and {t.attr for t in tg} >= {'forward_map', 'backward_map'}:
                run.violation(rule, f, st, 'forward and backward layer maps are bound to ONE object: every in-place embed of a backward map '
                              'overwrites the forward map (the two maps must be separate identity maps)')
        if isinstance(st, ast.Expr) and isinstance(st.value, ast.Call) and isinstance(st.value.func, ast.Attribute):
            c = st.value
            if c.func.attr == 'compile' and ctx.loops:
                compiled = (norm(c.func.value), st.lineno)
            if c.func.attr == 'embed' and ctx.loops:
                embeds.append((c, ctx, st.lineno))
    for which in ('forward_map', 'backward_map'):
        v = inits.get(which, '')
        run.check(v.startswith('identity_map(%s' % N), rule, f, 'self.%s = identity_map(%s)' % (which, N),
                  'the layer map must start from the identity on %s qubits (found %s)' % (N, v))
    seen = set()
    for c, ctx, ln in embeds:
        recv = norm(c.func.value)
        lp = ctx.loops[-1]
        g = lp.target.id if isinstance(lp.target, ast.Name) else '?'
        which = recv.split('.')[-1]
        seen.add(which)
        a0 = norm(c.args[0]) if c.args else ''
        from ..names import itext
        a1 = itext(f, c.args[1]) if len(c.args) > 1 else ''        # a mask computed once and named is read through
        run.check(recv == 'self.' + which and a0 == '%s.%s' % (g, which), rule, f, c,
                  'the %s of each gate must be embedded into the layer\'s %s (found %s.embed(%s))' % (which, which, recv, a0))
        run.check(a1.startswith('mask(%s.qubits,%s' % (g, N)), 'R13.local', f, c,
                  'each gate map is embedded at mask(gate.qubits, N): found %s' % a1)
        run.check(bool(compiled) and compiled[0] == g and compiled[1] < ln, rule, f, c,
                  'the gate must be compiled before its maps are embedded')
        run.check(norm(lp.iter) == 'self.gates', rule, f, lp.iter, 'every gate of the layer must be embedded')
    run.check(seen == {'forward_map', 'backward_map'}, rule, f, 'embed', 'both directions must be embedded (found %s)' % sorted(seen))
