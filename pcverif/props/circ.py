"""Shared circuit-level checks (gate dispatch paths, layer / circuit application, compile wiring)."""
import ast

from ..flow import walk, is_const_false, is_const_true
from ..model import norm
from ..rules import guards, circuitrules as CR


def live_paths(f):
    out = []
    for p, end in guards.paths(f.node.body):
        conds = [(x[1], x[2]) for x in p if isinstance(x, tuple)]
        dead = False
        for t, pol in conds:
            if (pol and is_const_false(t)) or (not pol and is_const_true(t)):
                dead = True
        if dead:
            continue
        ok, nm = guards.entails(conds, [])
        if nm == 0:
            continue
        out.append((p, end, conds))
    return out


class _Sym:
    """A symbolic object of the gate interpreter (a map, a generator, a mask ...)."""
    def __init__(self, *desc):
        self.desc = desc

    def __neg__(self):
        return _Sym('neg', self)

    def __eq__(self, other):
        return isinstance(other, _Sym) and self.desc == other.desc

    def __hash__(self):
        return hash(self.desc)

    def __repr__(self):
        return '%s(%s)' % (self.desc[0], ', '.join(map(repr, self.desc[1:]))) if len(self.desc) > 1 else str(self.desc[0])


def gate_dispatch(run, f, direction, rule='R11.gate'):
    """CliffordGate.forward / backward decided by executing the method (the checker's interpreter, symbolic maps) in every
    configuration of the gate: generator given or not, own map given or not, other map given or not, global or local gate.
    Required: a generator gate rotates by (+/-) the generator; otherwise the own map is applied when it is given, else the
    inverse of the other map (which may be cached as the own map, nothing else), else a freshly drawn random map that is not
    stored; the action goes through mask(self.qubits, obj.N) unless the gate is global."""
    import itertools
    from .. import mini
    from ..exprnf import Undecidable
    own, other = ('forward_map', 'backward_map') if direction == 'forward' else ('backward_map', 'forward_map')
    obj = f.posparams[1]
    n = 0
    for has_gen, has_own, has_oth, glob in itertools.product((True, False), repeat=4):
        heap = {'generator': _Sym('G') if has_gen else None, own: _Sym('OWN') if has_own else None,
                other: _Sym('OTHER') if has_oth else None, 'n': 2, 'qubits': _Sym('Q'), 'device': _Sym('dev')}
        objN = 2 if glob else 3
        state = {}
        depth = [0]

        def attr(nd, env, rec, heap=heap, objN=objN):
            base = norm(nd.value)
            if base == 'self' and nd.attr in heap:
                return heap[nd.attr]
            if base == obj and nd.attr == 'N':
                return objN
            raise Undecidable('attribute ' + norm(nd))

        def call(nd, env, rec):
            fn = nd.func
            if isinstance(fn, ast.Attribute) and fn.attr == 'inverse' and not nd.args:
                return _Sym('inv', rec(fn.value))
            if isinstance(fn, ast.Attribute) and fn.attr in ('copy', 'clone') and not nd.args:
                return _Sym('copy', rec(fn.value))
            if isinstance(fn, ast.Name) and fn.id == 'random_clifford_map':
                return _Sym('random', rec(nd.args[0]) if nd.args else None)
            if isinstance(fn, ast.Name) and fn.id == 'mask':
                return _Sym('mask', *[rec(a) for a in nd.args[:2]])
            if isinstance(fn, ast.Name) and fn.id == 'random_clifford' and len(nd.args) == 1 and not nd.keywords:
                return _Sym('random-strings', rec(nd.args[0]))      # the symplectic matrix only: no phases are drawn by this call
            if isinstance(fn, ast.Name) and fn.id == 'CliffordMap' and len(nd.args) == 1 and not nd.keywords:
                inner = rec(nd.args[0])
                if isinstance(inner, _Sym) and inner.desc[0] == 'random-strings':
                    return _Sym('map-with-default-phases', inner)   # PauliList.__init__ fills ps with zeros when it is not given
                raise Undecidable('call ' + norm(nd))
            if isinstance(fn, ast.Name) and fn.id == 'Pauli' and len(nd.args) == 1 and not any(k.arg in ('p',) for k in nd.keywords):
                return _Sym('pauli-without-phase')          # an operator built from a string only: phase 0, whatever the generator's sign
            if isinstance(fn, ast.Name) and fn.id in ('getattr', 'setattr') and len(nd.args) >= 2 and norm(nd.args[0]) == 'self':
                # reflective access to a field of the gate whose name is a known string
                fld = rec(nd.args[1])
                if not isinstance(fld, str):
                    raise Undecidable('call ' + norm(nd))
                if fn.id == 'getattr':
                    if fld in heap:
                        return heap[fld]
                    if len(nd.args) == 3:
                        return rec(nd.args[2])
                    raise Undecidable('attribute self.' + fld)
                if len(nd.args) != 3:
                    raise Undecidable('call ' + norm(nd))
                v = rec(nd.args[2])
                heap[fld] = v
                state['stores'].append((fld, v, nd))
                return None
            if isinstance(fn, ast.Attribute) and fn.attr in ('rotate_by', 'transform_by') and norm(fn.value) == obj:
                args = [rec(a) for a in nd.args]
                kw = {k.arg: rec(k.value) for k in nd.keywords}
                state['acts'].append((fn.attr, args[0] if args else None, args[1] if len(args) > 1 else kw.get('mask'), nd))
                return _Sym('obj')
            if isinstance(fn, ast.Attribute) and norm(fn.value) == 'self' and f.cls is not None and fn.attr in f.cls.methods and depth[0] < 2:
                # a helper method of the gate: executed with the same heap and hooks
                callee = f.cls.methods[fn.attr]
                vals = [rec(a) for a in nd.args]
                if len(vals) + 1 != len(callee.posparams) or nd.keywords:
                    raise Undecidable('call ' + norm(fn))
                out = []
                depth[0] += 1
                try:
                    mini.execute(callee.node, dict(zip(callee.posparams, [_Sym('self')] + vals)), attr=attr, call=call, on_store=on_store,
                                 on_expr=on_expr, choices=state.get('choices'), result=out)
                finally:
                    depth[0] -= 1
                return out[0] if out else None
            raise Undecidable('call ' + norm(fn))

        def on_store(t, v, env, value, heap=heap):
            if isinstance(t, ast.Attribute) and norm(t.value) == 'self':
                if v is Undecidable:
                    raise Undecidable('value stored into self.' + t.attr)
                heap[t.attr] = v
                state['stores'].append((t.attr, v, t))

        def on_expr(e, env, value):
            value(e)      # calls on the object are recorded by the call hook
        desc = '%s%s %s %s, %s gate' % (direction, '', 'generator' if has_gen else ('own map' if has_own else ('other map only' if has_oth else 'no maps')),
                                         '' if has_gen or has_own or not has_oth else '', 'global' if glob else 'local')
        def run_once(choices, heap=heap):
            saved = dict(heap)
            state['stores'], state['acts'] = [], []
            state['choices'] = choices
            try:
                mini.execute(f.node, {obj: _Sym('obj')}, attr=attr, call=call, on_store=on_store, on_expr=on_expr, choices=choices)
                return list(state['stores']), list(state['acts'])
            finally:
                heap.clear()
                heap.update(saved)
        try:
            outcomes = list(mini.all_paths(run_once))
        except Undecidable as e:
            run.undecided(rule, f, desc, 'the method could not be interpreted in this configuration: %s' % e)
            continue
        for choices, (stores, acts) in outcomes:
          n += 1
          pdesc = desc + ('' if not choices else ' (undecidable tests taken as %s)' % choices)
          _judge(run, rule, f, direction, own, other, obj, objN, glob, has_gen, has_own, has_oth, stores, acts, pdesc)
    return n


def _judge(run, rule, f, direction, own, other, obj, objN, glob, has_gen, has_own, has_oth, stores, acts, desc):
    if True:
        if len(acts) != 1:
            run.violation(rule, f, desc, 'the gate must act exactly once on the object (found %d rotate_by / transform_by calls)' % len(acts))
            return
        kind, what, m, node = acts[0]
        if has_gen and isinstance(what, _Sym) and what.desc[0] in ('pauli-without-phase',) or \
                (has_gen and isinstance(what, _Sym) and what.desc[0] == 'neg' and isinstance(what.desc[1], _Sym) and what.desc[1].desc[0] == 'pauli-without-phase'):
            run.violation(rule, f, node, '%s of a generator gate rotates by an operator rebuilt from the string of the generator only: the sign of '
                          'the generator is lost (a gate with generator -G rotates like +G)' % direction)
            return
        if has_gen:
            want = _Sym('G') if direction == 'forward' else _Sym('neg', _Sym('G'))
            run.check(kind == 'rotate_by' and what == want, rule, f, node,
                      '%s of a generator gate must rotate by %s (found %s(%r))' % (direction, 'self.generator' if direction == 'forward' else '-self.generator', kind, what))
            run.check(not stores, rule, f, node, 'a generator gate must not store maps while being applied')
        elif kind != 'transform_by':
            run.violation(rule, f, node, 'a gate without generator must apply a Clifford map')
        elif has_own:
            run.check(what == _Sym('OWN'), rule, f, node, '%s must apply self.%s when it is given (found %r)' % (direction, own, what))
            run.check(not stores, rule, f, node, 'nothing may be stored when the %s is already known' % own)
        elif has_oth:
            run.check(what == _Sym('inv', _Sym('OTHER')), rule, f, node,
                      '%s without a %s must apply the inverse of self.%s (found %r)' % (direction, own, other, what))
            bad = [(a, v) for a, v, _ in stores if not (a == own and v == _Sym('inv', _Sym('OTHER')))]
            run.check(not bad, rule, f, node, 'only the lazily inverted %s may be cached: %s' % (own, bad))
        else:
            if isinstance(what, _Sym) and what.desc[0] == 'map-with-default-phases':
                run.violation(rule + '.random', f, node, 'the random gate applies CliffordMap(random_clifford(n)) built without phases: the 2n sign bits '
                              'are never drawn (all zero), so only 1/4^n of the Clifford group is reachable in this direction')
                return
            run.check(isinstance(what, _Sym) and what.desc[0] == 'random' and what.desc[1] == 2, rule + '.random', f, node,
                      'a gate without generator and maps is a random gate: it must draw random_clifford_map(self.n) (found %r)' % (what,))
            run.check(not stores, rule + '.random', f, node, 'a random gate is resampled at every call: the sampled map must not be '
                      'stored on the gate (%s)' % [(a, v) for a, v, _ in stores])
        if m is not None:
            run.check(m == _Sym('mask', _Sym('Q'), objN), 'R13.local', f, node,
                      'a local gate acts through mask(self.qubits, %s.N): found %r' % (obj, m))
        else:
            run.check(glob, 'R13.local', f, node, 'acting without a mask is only allowed for a global gate (self.n == %s.N)' % obj)


def layer_application(run, f, direction, rule='R11.apply'):
    """CliffordLayer / circuit forward / backward: compiled map of the right direction or gate-by-gate."""
    own = 'forward_map' if direction == 'forward' else 'backward_map'
    obj = f.posparams[1]
    n = 0
    for st, ctx in walk(f.node):
        for c in (ast.walk(st) if isinstance(st, (ast.Expr, ast.Assign)) else []):
            if isinstance(c, ast.Call) and isinstance(c.func, ast.Attribute) and c.func.attr == 'transform_by' \
                    and norm(c.func.value) == obj:
                n += 1
                arg = norm(c.args[0]) if c.args else ''
                run.check(arg == 'self.' + own, rule, f, c, '%s must apply the compiled %s (found %s)' % (f.qual, own, arg))
                ok, _ = guards.entails(ctx.conds, [('self.%s is None' % own, False)])
                run.check(ok, rule, f, c, 'the compiled %s is used without checking that it exists' % own)
            if isinstance(c, ast.Call) and isinstance(c.func, ast.Attribute) and c.func.attr in ('forward', 'backward') \
                    and isinstance(c.func.value, ast.Name) and c.func.value.id != 'self' and c.args and norm(c.args[0]) == obj:
                n += 1
                run.check(c.func.attr == direction, rule, f, c, '%s must call %s on its parts (found %s)' % (f.qual, direction, c.func.attr))
    return n


def gate_compile(run, f, rule='R11.compile'):
    """CliffordGate.compile decided by executing it in the eight configurations (generator / forward map / backward map given
    or not): a generator gate gets clifford_rotation_map(+generator) and clifford_rotation_map(-generator) (whatever maps it had
    before: compile must follow the current generator); otherwise a missing map becomes the inverse of the other one, a given
    map is kept, and only a gate with nothing at all is refused."""
    import itertools
    from .. import mini
    from ..exprnf import Undecidable
    n = 0
    for has_gen, has_f, has_b in itertools.product((True, False), repeat=3):
        heap = {'generator': _Sym('G') if has_gen else None, 'forward_map': _Sym('F') if has_f else None,
                'backward_map': _Sym('B') if has_b else None, 'n': 2, 'qubits': _Sym('Q'), 'device': _Sym('dev')}
        init = dict(heap)
        raised = [False]

        def attr(nd, env, rec, heap=heap):
            if norm(nd.value) == 'self' and nd.attr in heap:
                return heap[nd.attr]
            raise Undecidable('attribute ' + norm(nd))

        def call(nd, env, rec):
            fn = nd.func
            if isinstance(fn, ast.Attribute) and fn.attr == 'inverse' and not nd.args:
                return _Sym('inv', rec(fn.value))
            if isinstance(fn, ast.Attribute) and fn.attr in ('copy', 'clone') and not nd.args:
                return _Sym('copy', rec(fn.value))
            if isinstance(fn, ast.Name) and fn.id == 'clifford_rotation_map' and nd.args:
                return _Sym('rotmap', rec(nd.args[0]))
            if isinstance(fn, ast.Name) and fn.id in ('Exception', 'ValueError', 'RuntimeError', 'NotImplementedError'):
                return _Sym('exc')
            raise Undecidable('call ' + norm(fn))

        def on_store(t, v, env, value, heap=heap):
            if isinstance(t, ast.Attribute) and norm(t.value) == 'self':
                if v is Undecidable:
                    raise Undecidable('value stored into self.' + t.attr)
                heap[t.attr] = v
        desc = 'generator %s, forward map %s, backward map %s' % tuple('given' if x else 'None' for x in (has_gen, has_f, has_b))
        try:
            tr = mini.execute(f.node, {}, attr=attr, call=call, on_store=on_store)
        except Undecidable as e:
            run.undecided(rule, f, desc, 'compile could not be interpreted in this configuration: %s' % e)
            continue
        raised = bool(tr) and isinstance(tr[-1][0], ast.Raise)
        n += 1
        if has_gen:
            run.check(not raised and heap['forward_map'] == _Sym('rotmap', _Sym('G')), rule, f, 'forward_map [%s]' % desc,
                      'compiled forward map of a generator gate must be clifford_rotation_map(self.generator), found %r' % (heap['forward_map'],))
            run.check(not raised and heap['backward_map'] == _Sym('rotmap', _Sym('neg', _Sym('G'))), rule, f, 'backward_map [%s]' % desc,
                      'compiled backward map of a generator gate must be clifford_rotation_map(-self.generator), found %r' % (heap['backward_map'],))
            continue
        if not has_f and not has_b:
            run.check(raised, rule, f, 'raise [%s]' % desc, 'a gate with neither generator nor maps cannot be compiled: compile must refuse it')
            continue
        run.check(not raised, rule, f, 'raise [%s]' % desc, 'compile may only refuse a gate with neither generator nor maps')
        for own, other, has_own in (('forward_map', 'backward_map', has_f), ('backward_map', 'forward_map', has_b)):
            if has_own:
                run.check(heap[own] == init[own], rule, f, '%s [%s]' % (own, desc), 'compile overwrites a given %s (with %r)' % (own, heap[own]))
            else:
                run.check(heap[own] == _Sym('inv', init[other]), rule, f, '%s [%s]' % (own, desc),
                          'a missing %s must be compiled as self.%s.inverse(), found %r' % (own, other, heap[own]))
    return n


def layer_compile(run, f, rule='R11.lcompile'):
    N = f.posparams[1]
    inits = {}
    embeds = []
    compiled = False
    alias = {}        # local name bound to the same object as a field of self (chained assignment, or x = self.field)
    for st, ctx in walk(f.node):
        if isinstance(st, ast.Assign) and not ctx.loops:
            flds = [t.attr for t in st.targets if isinstance(t, ast.Attribute) and norm(t.value) == 'self']
            names_ = [t.id for t in st.targets if isinstance(t, ast.Name)]
            if len(flds) == 1:
                for x in names_:
                    alias[x] = 'self.' + flds[0]
            if isinstance(st.value, ast.Attribute) and norm(st.value.value) == 'self':
                for x in names_:
                    alias[x] = norm(st.value)
    for st, ctx in walk(f.node):
        if isinstance(st, ast.Assign) and not ctx.loops:
            tg = [t for t in st.targets if isinstance(t, ast.Attribute) and norm(t.value) == 'self']
            for t in tg:
                inits[t.attr] = norm(st.value).replace(' ', '')
            if len(tg) > 1 and {t.attr for t in tg} >= {'forward_map', 'backward_map'}:
                run.violation(rule, f, st, 'forward and backward layer maps are bound to ONE object: every in-place embed of a backward map '
                              'overwrites the forward map (the two maps must be separate identity maps)')
        if isinstance(st, ast.Expr) and isinstance(st.value, ast.Call) and isinstance(st.value.func, ast.Attribute):
            c = st.value
            if c.func.attr == 'compile' and ctx.loops:
                compiled = (norm(c.func.value), st.lineno)
            if c.func.attr == 'embed' and ctx.loops:
                embeds.append((c, ctx, st.lineno))
    for which in ('forward_map', 'backward_map'):
        v = inits.get(which, '')
        run.check(v.startswith('identity_map(%s' % N), rule, f, 'self.%s = identity_map(%s)' % (which, N),
                  'the layer map must start from the identity on %s qubits (found %s)' % (N, v))
    seen = set()
    for c, ctx, ln in embeds:
        recv = norm(c.func.value)
        recv = alias.get(recv, recv)
        lp = ctx.loops[-1]
        g = lp.target.id if isinstance(lp.target, ast.Name) else '?'
        which = recv.split('.')[-1]
        seen.add(which)
        a0 = norm(c.args[0]) if c.args else ''
        from ..names import itext
        a1 = itext(f, c.args[1]) if len(c.args) > 1 else ''        # a mask computed once and named is read through
        run.check(recv == 'self.' + which and a0 == '%s.%s' % (g, which), rule, f, c,
                  'the %s of each gate must be embedded into the layer\'s %s (found %s.embed(%s))' % (which, which, recv, a0))
        run.check(a1.startswith('mask(%s.qubits,%s' % (g, N)), 'R13.local', f, c,
                  'each gate map is embedded at mask(gate.qubits, N): found %s' % a1)
        run.check(bool(compiled) and compiled[0] == g and compiled[1] < ln, rule, f, c,
                  'the gate must be compiled before its maps are embedded')
        run.check(norm(lp.iter) == 'self.gates', rule, f, lp.iter, 'every gate of the layer must be embedded')
    run.check(seen == {'forward_map', 'backward_map'}, rule, f, 'embed', 'both directions must be embedded (found %s)' % sorted(seen))
    # no gate is passed over: a statement that leaves the iteration early (continue / break) in the loop that embeds, on a path
    # that has not embedded both maps yet, leaves that gate out of the compiled layer (it then acts as the identity)
    for lp in {id(ctx.loops[-1]): ctx.loops[-1] for c, ctx, ln in embeds}.values():
        emb_pos = [(ln, c.col_offset) for c, ctx, ln in embeds if ctx.loops[-1] is lp]
        last_embed = max(emb_pos) if emb_pos else None
        for st, ctx in walk(f.node):
            if isinstance(st, (ast.Continue, ast.Break)) and ctx.loops and ctx.loops[-1] is lp and last_embed is not None \
                    and (st.lineno, st.col_offset) < last_embed:
                conds = ' and '.join(('' if pol else 'not ') + norm(t) for t, pol in ctx.conds)[:140]
                run.violation(rule, f, st, 'a gate for which [%s] holds is skipped by the loop that builds the layer maps: it is left out of the compiled '
                              'layer, which then acts on its qubits as the identity' % conds)

