"""C11 Named gates are the textbook Cliffords; C(0..23) enumerates the 1-qubit group."""
import itertools

from .. import oracle
from ..rules import tables, resolve
from ..model import norm

EXPLANATION = ('constant tables of H,S,X,Y,Z,C(0..23),CNOT are read out of the AST by guard evaluation and '
               'literal folding and checked against first-principles Pauli algebra: validity (canonical '
               'commutation relations, Hermitian phases), textbook action, pairwise distinctness, exhaustion of '
               'the 24-element group, closure under composition and inverse, both CNOT orientations, arity / '
               'index guards; complete for the tables')
TRUSTED = ['CPython ast', 'oracle.py (2x2 Pauli matrices)', 'literal folding of numpy.array([...])']
REL = 'pyclifford/circuit.py'


def tup(t):
    return (tuple(tuple(r) for r in t[0]), tuple(t[1]))


def ctor_qubits(repo):
    """expression stored as self.qubits by CliffordGate.__init__ (normally just `qubits`)"""
    import ast
    from ..flow import walk
    ini = repo.cls('pyclifford', 'CliffordGate').methods['__init__']
    for st, ctx in walk(ini.node):
        if isinstance(st, ast.Assign) and norm(st.targets[0]) == 'self.qubits':
            return st.value, (ini.vararg or 'qubits')
    return None, None


def with_gate_attrs(repo, envs):
    """add 'gate.qubits' (what the constructed gate stores) to every env, so that guards on the gate object are decidable"""
    from ..exprnf import ev, Undecidable
    expr, pname = ctor_qubits(repo)
    out = []
    for e in envs:
        e = dict(e)
        if expr is not None and 'qubits' in e:
            try:
                e['gate.qubits'] = ev(expr, {pname: e['qubits']}, call=tables.std_call, sub=tables.std_sub)
            except Undecidable:
                pass
        out.append(e)
    return out


def check(run):
    repo = run.repo
    fs = {n: repo.func(REL, n) for n in ('H', 'S', 'X', 'Y', 'Z', 'C', 'CNOT')}
    resolve.check_cone(run, repo, list(fs.values()), 'gates')
    # ---- named one-qubit gates
    for name in ('H', 'S', 'X', 'Y', 'Z'):
        f = fs[name]
        valid = [{'qubits': (0,)}, {'qubits': (5,)}]
        res = tables.gate_tables(repo, f, valid)
        want = oracle.textbook_1q(name)
        for env, r in zip(valid, res):
            if r[0] != 'table':
                if r[0] == 'undecided':
                    run.undecided('R12', f, r[2], r[1])
                elif r[0] == 'raise':
                    run.violation('R12', f, 'qubits=%r' % (env['qubits'],), 'a valid single-qubit call raises instead of building the gate')
                else:
                    run.undecided('R12', f, 'qubits=%r' % (env['qubits'],), 'no literal CliffordMap assignment recognised on this path (%s)' % r[0])
                continue
            t = tup(r[1])
            ok, why = oracle.map_is_valid(t)
            run.check(ok, 'R12.valid', f, r[2], 'table of %s is not a valid Clifford map: %s' % (name, why))
            run.check(t == tup(want), 'R12.textbook', f, r[2],
                      '%s gate table %r differs from the textbook action %r' % (name, t, tup(want)))
        bad = [{'qubits': ()}, {'qubits': (0, 1)}, {'qubits': (0, 1, 2)}]
        for env, r in zip(bad, tables.gate_tables(repo, f, bad)):
            run.check(r[0] == 'raise', 'R11.arity', f, '%s%r' % (name, env['qubits']),
                      '%s accepts %d qubits without raising' % (name, len(env['qubits'])))
        ok, why = tables.gate_wiring(repo, f, valid)
        run.check(ok, 'R12.wiring', f, 'forward map of %s' % name, why)
    # ---- the 24 indexed gates
    f = fs['C']
    envs = [{'num': k, 'qubits': (0,)} for k in range(24)]
    res = tables.gate_tables(repo, f, envs)
    got = {}
    for env, r in zip(envs, res):
        k = env['num']
        if r[0] == 'table':
            t = tup(r[1])
            got[k] = (t, r[2])
            ok, why = oracle.map_is_valid(t)
            run.check(ok, 'R12.valid', f, r[2], 'C(%d) is not a valid Clifford map: %s' % (k, why))
        elif r[0] == 'undecided':
            run.undecided('R12', f, r[2], r[1])
        elif r[0] == 'raise':
            run.violation('R12.index', f, 'num == %d' % k, 'the valid index %d is rejected (no table is installed for it)' % k)
        else:
            run.undecided('R12.index', f, 'num == %d' % k, 'no single literal table recognised for index %d (%s)' % (k, r[0]))
    group = {tup(((a, b), p)) for ((a, b), p) in oracle.all_1q_cliffords()}
    seen = {}
    for k, (t, st) in sorted(got.items()):
        if t in seen:
            run.violation('R12.distinct', f, st, 'C(%d) has the same table as C(%d): the 24 indices do not give 24 '
                          'different gates' % (k, seen[t]))
        else:
            seen[t] = k
            run.ok('R12.distinct', f, 'C(%d)' % k)
    if len(got) == 24:
        missing = group - set(seen)
        run.check(not missing, 'R12.exhaust', f, 'C(0..23)',
                  'the indexed gates miss %d element(s) of the one-qubit Clifford group, e.g. %r' % (
                      len(missing), sorted(missing)[:1]))
        # closure under composition and inverse (oracle arithmetic on the extracted constants)
        tabs = set(seen)
        n_comp = 0
        bad_comp = None
        for a, b in itertools.product(sorted(tabs), repeat=2):
            c = tup(oracle.map_compose(a, b))
            n_comp += 1
            if c not in tabs and bad_comp is None:
                bad_comp = (seen[a], seen[b])
        run.check(bad_comp is None, 'R12.closure', f, 'C(a) then C(b), %d pairs' % n_comp,
                  'C(%s) followed by C(%s) is not one of the indexed gates' % (bad_comp or (0, 0)))
        ident = tup(oracle.map_identity(1))
        noinv = [seen[a] for a in sorted(tabs)
                 if not any(tup(oracle.map_compose(a, b)) == ident for b in tabs)]
        run.check(not noinv, 'R12.inverse', f, 'inverses of C(0..23)', 'no inverse among the indexed gates for C(%s)' % noinv)
    for k in (-1, 24, 25, 100):
        r = tables.gate_tables(repo, f, [{'num': k, 'qubits': (0,)}])[0]
        if r[0] in ('none', 'ambiguous'):
            run.undecided('R11.index', f, 'num == %d' % k, 'what C does with index %d is not readable (the index is not handled by guards this rule evaluates)' % k)
            continue
        run.check(r[0] == 'raise', 'R11.index', f, 'num == %d' % k, 'invalid index %d is not rejected (%s)' % (k, r[0]))
    for q in ((), (0, 1)):
        r = tables.gate_tables(repo, f, [{'num': 0, 'qubits': q}])[0]
        run.check(r[0] == 'raise', 'R11.arity', f, 'C%r' % (q,), 'C accepts %d qubits without raising' % len(q))
    ok, why = tables.gate_wiring(repo, f, envs)
    if not ok and not seen:
        run.undecided('R12.wiring', f, 'forward map of C', 'the tables of C are not readable, so its wiring is not decided: %s' % why)
    else:
        run.check(ok, 'R12.wiring', f, 'forward map of C', why)
    # ---- CNOT, both orientations (the mask is order-blind: local wire 0 is the smaller qubit index)
    f = fs['CNOT']
    valid = with_gate_attrs(repo, [{'qubits': q} for q in ((0, 1), (1, 0), (0, 2), (2, 0), (1, 3), (3, 1), (4, 5), (7, 2))])
    for env, r in zip(valid, tables.gate_tables(repo, f, valid)):
        q = env['qubits']
        if r[0] != 'table':
            if r[0] == 'undecided':
                run.undecided('R12', f, r[2], r[1])
            elif r[0] == 'raise':
                run.violation('R12', f, 'CNOT%r' % (q,), 'a valid two-qubit call raises instead of building the gate')
            else:
                run.undecided('R12', f, 'CNOT%r' % (q,), 'no single literal table recognised for qubits %r (%s)' % (q, r[0]))
            continue
        t = tup(r[1])
        control, target = (0, 1) if q[0] < q[1] else (1, 0)
        want = tup(oracle.textbook_cnot(control, target))
        ok, why = oracle.map_is_valid(t)
        run.check(ok, 'R12.valid', f, r[2], 'CNOT table is not a valid Clifford map: %s' % why)
        run.check(t == want, 'R12.textbook', f, 'CNOT%r -> %s' % (q, norm(r[2].value)[:80]),
                  'CNOT(control=%d, target=%d) does not send X_c -> X_c X_t, Z_t -> Z_c Z_t on the sorted wires: '
                  'table %r, textbook %r' % (q[0], q[1], t, want))
    for q in ((), (0,), (0, 1, 2)):
        r = tables.gate_tables(repo, f, [{'qubits': q}])[0]
        run.check(r[0] == 'raise', 'R11.arity', f, 'CNOT%r' % (q,), 'CNOT accepts %d qubits without raising' % len(q))
    ok, why = tables.gate_wiring(repo, f, valid)
    run.check(ok, 'R12.wiring', f, 'forward map of CNOT', why)
    # placement in a register: named gates act through transform_by with the gate's mask (details under C03 / C09)
    from ..rules import parallel
    from .C03 import correction_sites
    from . import common as K
    tb = repo.func(K.PY_P, 'PauliList.transform_by')
    parallel.masked_selection(run, repo, tb, {'pauli_transform'})
    parallel.mask_expansion(run, tb)
    correction_sites(run, repo, tb)
    correction_sites(run, repo, repo.func(K.PY_U, 'pauli_transform'))
    run.floor('R12.textbook', 5 * 2 + 8)
    run.floor('R12.valid', 5 * 2 + 24 + 8)
    run.floor('R12.distinct', 23)
    run.floor('R11', 15 + 4 + 2 + 3)
    run.floor('R13.masksel', 1)
    run.floor('R6.xz', 1)
    run.decide('all 31 literal gate tables are valid Clifford maps, named gates equal the textbook action, '
               'C(0..23) are pairwise distinct, exhaust the 24-element group, closed under composition and '
               'inverse; invalid indices and wrong qubit counts raise')
    run.decline('that the gate acts identically wherever it is placed in a register (mask/locality clauses are '
                'decided under C09); the action of transform_by on the table (C03)')
