"""C18 diagonalize and SBRG return circuits that really diagonalize -- claimed narrowly (wiring and crash-freedom)."""
import ast

from ..exprnf import ev, Undecidable, affine_in
from ..flow import walk
from ..model import norm
from ..rules import resolve, dispatch, effect, parallel, bind, pair
from . import common as K

EXPLANATION = ('R1 over the cones of diagonalize / SBRG (no unresolved name, removed library attribute, unbindable call or missing '
               'method); generators returned by pauli_diagonalize1 are wrapped by clifford_rotation_gate and taken in list order; '
               'causal mode slices the string at 2*i0 and places the gates on qubits arange(i0, N); clifford_rotation_gate condenses '
               'the generator to its support and keeps its sign; the state branch installs the encoding map as backward map of one '
               'global gate; in the diagonalisation kernels every emitted generator is mirrored on the tracked strings; SBRG copies its '
               'input, composes and applies the same per-qubit circuit, masks the x slot of qubit i0 and the slots after it.  That the '
               '<= 3 generators diagonalise, and SBRG exactness / spectrum, are not decided')
TRUSTED = ['CPython ast', 'installed numpy / torch namespaces', 'C02 (rotation), C09 (take / forward)']


def diag_kernel(run, f, tracked):
    """each emitted generator g (a modified copy of a tracked string T) is mirrored on the tracked strings:
    T = (T + g) % 2 (g anticommutes with T by construction) and, for the other tracked string, U = (U + acq(g, U) * g) % 2."""
    n = 0
    stmts = list(walk(f.node))
    for st, ctx in stmts:
        if not (isinstance(st, ast.Expr) and isinstance(st.value, ast.Call) and norm(st.value.func) == 'gs.append'):
            continue
        g = norm(st.value.args[0])
        # the tracked string g was copied from: last `g = T.copy()` before this statement
        src = None
        for s2, c2 in stmts:
            if s2.lineno < st.lineno and isinstance(s2, ast.Assign) and norm(s2.targets[0]) == g and isinstance(s2.value, ast.Call) \
                    and isinstance(s2.value.func, ast.Attribute) and s2.value.func.attr in ('copy', 'clone'):
                src = norm(s2.value.func.value)
        nxt = ctx.block[ctx.index + 1: ctx.index + 1 + len(tracked)]
        got = {}
        for s3 in nxt:
            if isinstance(s3, ast.Assign) and norm(s3.targets[0]) in tracked:
                got[norm(s3.targets[0])] = norm(s3.value).replace(' ', '')
        n += 1
        if src not in tracked:
            run.undecided('R7.mirror', f, st, 'generator %s is not a copy of a tracked string' % g)
            continue
        run.check(got.get(src) in ('(%s+%s)%%2' % (src, g), '(%s+%s)%%2' % (g, src)), 'R7.mirror', f, st,
                  'the generator anticommutes with %s by construction, so the rotation must be mirrored as %s = (%s + %s) %% 2 (found %s)'
                  % (src, src, src, g, got.get(src)))
        for t in tracked:
            if t != src and t in got:
                ok = got[t] in ('(%s+acq(%s,%s)*%s)%%2' % (t, g, t, g), '(%s+acq(%s,%s)*%s)%%2' % (t, t, g, g), '(%s+%s*acq(%s,%s))%%2' % (t, g, g, t))
                run.check(ok, 'R7.mirror', f, st, 'the other tracked string %s rotates only if it anticommutes with the generator: %s = (%s + acq(%s, %s) * %s) %% 2 (found %s)'
                          % (t, t, t, g, t, g, got[t]))
            elif t != src and src == tracked[0]:
                run.violation('R7.mirror', f, st, 'the generator derived from %s may anticommute with %s, whose rotation is not mirrored' % (src, t))
    return n


_UNSET = object()


def support_mask(run, cf, rule='R12.support'):
    """condense(g): the support mask of a string is True on a qubit iff its (x, z) pair is not (0, 0).  The function is executed
    on a one-qubit string for the four letters (loop form: N = 1, the stores into the mask are followed; vector form: g[::2] /
    g[1::2] are the x / z bit); the mask is the array that is expanded by repeat(mask, 2) / repeat_interleave(mask, 2)."""
    from .. import mini
    from ..rules import nf
    G = cf.posparams[0]
    mname = marg = None
    for c in ast.walk(cf.node):
        if isinstance(c, ast.Call) and norm(c.func).split('.')[-1] in ('repeat', 'repeat_interleave') and c.args \
                and not (isinstance(c.func, ast.Attribute) and norm(c.func.value) == G):
            marg = c.args[0]                   # the mask itself: a name, or the expression that computes it
            mname = norm(marg)
    if marg is None:
        run.undecided(rule, cf, cf.name, 'no mask expanded with repeat(mask, 2) found')
        return
    bad = None
    try:
        for x, z in ((0, 0), (1, 0), (0, 1), (1, 1)):
            heap = {}

            def sub(n, env, rec, x=x, z=z):
                if isinstance(n.value, ast.Name) and n.value.id == G:
                    s_ = nf._slice_slot(n)
                    if s_ is not None:
                        return {'x': x, 'z': z}[s_]
                    k = rec(n.slice)
                    if k in (0, 1):
                        return (x, z)[k]
                    raise Undecidable('index %r of a one-qubit string' % (k,))
                if isinstance(n.value, ast.Name) and n.value.id in heap:
                    return heap[n.value.id]
                raise Undecidable('subscript ' + norm(n))

            def attr(n, env, rec):
                if n.attr == 'shape' and norm(n.value) == G:
                    return (2,)
                raise Undecidable('attribute ' + norm(n))

            def call(n, env, rec):
                fn = norm(n.func).split('.')[-1]
                if fn in ('zeros', 'zeros_like'):
                    return False
                if fn in ('empty', 'empty_like'):
                    return _UNSET
                if fn in ('ones', 'ones_like'):
                    return True
                if isinstance(n.func, ast.Attribute) and not (isinstance(n.func.value, ast.Name) and n.func.value.id in ('numpy', 'torch', 'np')):
                    v = rec(n.func.value)
                    a = [rec(y) for y in n.args]
                    if fn in ('ge', 'gt', 'ne', 'eq', 'le', 'lt') and len(a) == 1:
                        return {'ge': v >= a[0], 'gt': v > a[0], 'ne': v != a[0], 'eq': v == a[0], 'le': v <= a[0], 'lt': v < a[0]}[fn]
                    if fn in ('bool', 'any') or (fn in ('astype', 'to', 'type') and 'bool' in norm(n)):
                        return bool(v)
                    if fn in ('long', 'int', 'float', 'clone', 'copy', 'flatten'):
                        return v
                    raise Undecidable('method ' + fn)
                a = [rec(y) for y in n.args]
                if fn in ('logical_or', 'bitwise_or', 'maximum') and len(a) == 2:
                    return (a[0] or a[1]) if fn != 'maximum' else max(a)
                if fn in ('logical_and', 'bitwise_and', 'minimum') and len(a) == 2:
                    return (a[0] and a[1]) if fn != 'minimum' else min(a)
                if fn in ('logical_xor', 'bitwise_xor') and len(a) == 2:
                    return bool(a[0]) != bool(a[1])
                if fn in ('logical_not',) and len(a) == 1:
                    return not a[0]
                if fn in ('abs',) and len(a) == 1:
                    return abs(a[0])
                raise Undecidable('call ' + norm(n.func))

            def on_store(t, v, env, value):
                if isinstance(t, ast.Subscript) and isinstance(t.value, ast.Name) and v is not Undecidable:
                    heap[t.value.id] = v

            body = [st for st in cf.node.body if not isinstance(st, ast.Return)]
            res = []
            # the value of the mask after the last statement
            mini.execute(cf.node, {G: None}, sub=sub, call=call, attr=attr, on_store=on_store,
                         body=body + [ast.Return(value=marg)], result=res)
            if not res:
                raise Undecidable('mask value not produced')
            val = heap.get(mname, res[0]) if isinstance(marg, ast.Name) else res[0]
            if val is _UNSET:
                bad = ((x, z), 'never assigned (uninitialised memory)')
                break
            if bool(val) != bool(x or z):
                bad = ((x, z), bool(val))
                break
    except (Undecidable, TypeError) as e:
        run.undecided(rule, cf, mname, 'support mask not executable on a one-qubit string: %s' % e)
        return
    run.check(bad is None, rule, cf, 'support mask `%s`' % mname, 'a qubit belongs to the support iff its (x, z) bits are not both 0: on (x, z) = %s the mask is %s '
              '(Y has both bits set)' % (bad if bad else ('', '')))


def rotation_gate_rule(run, repo, eff, crel):
    """clifford_rotation_gate: generator condensed to its support, placed on the qubits of that support (mapped through the labels given)."""
    # rotation gate
    rg = repo.func(crel, 'clifford_rotation_gate')
    effect.check_pure(run, eff, rg)
    bind.check_function_calls(run, repo, rg, only={'Pauli', 'CliffordGate', 'condense'})
    gens = [st for st, _ in walk(rg.node) if isinstance(st, ast.Assign) and norm(st.targets[0]).endswith('.generator')]
    GEN, QB = rg.posparams[0], rg.posparams[1]
    cd = [st for st, _ in walk(rg.node) if isinstance(st, ast.Assign) and isinstance(st.value, ast.Call) and norm(st.value.func) == 'condense']
    okc = len(cd) == 1 and norm(cd[0].value.args[0]) == '%s.g' % GEN and isinstance(cd[0].targets[0], ast.Tuple) and len(cd[0].targets[0].elts) == 2 \
        and all(isinstance(e, ast.Name) for e in cd[0].targets[0].elts)
    run.check(okc, 'R2.gate', rg, 'condense(generator.g)', 'support and condensed string come from the same condense call')
    GC, QC = ([e.id for e in cd[0].targets[0].elts] if okc else ['g_cond', 'qubits_cond'])
    ok = len(gens) == 1 and norm(gens[0].value).replace(' ', '') == 'Pauli(%s,%s.p)' % (GC, GEN)
    run.check(ok, 'R2.gate', rg, gens[0] if gens else 'generator', 'the gate generator is the condensed string with the sign of the generator')
    qs = {}
    G = __import__('pcverif.rules.guards', fromlist=['x'])
    for st, ctx in walk(rg.node):
        if isinstance(st, ast.Assign) and norm(st.targets[0]) == QB:
            if isinstance(st.value, ast.IfExp):        # one conditional expression instead of if / else
                t = st.value.test
                none, _ = G.entails(((t, True),), [('%s is None' % QB, True)])
                given, _ = G.entails(((t, False),), [('%s is None' % QB, True)])
                if none:
                    qs['none'], qs['given'] = norm(st.value.body).replace(' ', ''), norm(st.value.orelse).replace(' ', '')
                elif given:
                    qs['none'], qs['given'] = norm(st.value.orelse).replace(' ', ''), norm(st.value.body).replace(' ', '')
                continue
            none, _ = G.entails(ctx.conds, [('%s is None' % QB, True)])
            qs['none' if none else 'given'] = norm(st.value).replace(' ', '')
    run.check(qs == {'none': QC, 'given': '%s[%s]' % (QB, QC)}, 'R2.gate', rg, 'qubits', 'the gate acts on the support, mapped through the supplied qubit labels (found %s)' % qs)
    gctor = [c for c in ast.walk(rg.node) if isinstance(c, ast.Call) and norm(c.func) == 'CliffordGate']
    run.check(len(gctor) == 1 and norm(gctor[0].args[0]).replace(' ', '') == '*qubits', 'R2.gate', rg, 'CliffordGate(*qubits)', 'the gate is placed on those qubits')


class _FixedSlot(Exception):
    pass


def diag_guards(run, f, rule='R8.diag'):
    """Truth tables of the case analysis of pauli_diagonalize1/2 on the target qubit: nothing to do iff the operator is on-site
    with x = 0 (it is Z); a first generator is needed iff x = 0 (commutes with Z on the target); the pivot trick iff also z = 0."""
    i0 = f.posparams[-1]
    tracked = f.posparams[0]

    def table(test):
        out = {}
        for onsite in (False, True):
            for x0 in (0, 1):
                for z0 in (0, 1):
                    def call(n, env, rec, onsite=onsite):
                        if norm(n.func) == 'pauli_is_onsite' and norm(n.args[0]) == tracked:
                            return onsite
                        raise Undecidable('call ' + norm(n.func))

                    def sub(n, env, rec, x0=x0, z0=z0):
                        if norm(n.value) != tracked:
                            raise Undecidable('subscript ' + norm(n))
                        ab = affine_in(n.slice, i0)
                        if ab == (2, 0):
                            return x0
                        if ab == (2, 1):
                            return z0
                        if ab is not None and ab[0] == 0 and f.posparams[-1] == i0 and len(f.posparams) > 1:
                            raise _FixedSlot(norm(n))
                        raise Undecidable('slot')
                    out[(onsite, x0, z0)] = bool(ev(test, {}, call=call, sub=sub))
        return out
    ifs = [(st, ctx) for st, ctx in walk(f.node) if isinstance(st, ast.If)]
    # outermost guard on the tracked string, then the nested x-slot / z-slot tests (in source order)
    mine = [(st, ctx) for st, ctx in ifs if tracked in {n.id for n in ast.walk(st.test) if isinstance(n, ast.Name)}][:3]
    if len(mine) < 3:
        run.undecided(rule, f, f.name, 'case analysis on the target qubit not recognised')
        return
    want = [
        (lambda o, x, z: (not o) or x == 1, 'generators are needed unless the operator is on the target qubit with x = 0 (already Z): an on-site Y or X must still be rotated'),
        (lambda o, x, z: x == 0, 'an extra generator is needed exactly when the operator commutes with Z on the target (x slot 0)'),
        (lambda o, x, z: z == 0, 'the pivot construction is needed exactly when the operator is trivial on the target qubit (z slot 0 as well)'),
    ]
    for (st, ctx), (fn, what) in zip(mine, want):
        try:
            tb = table(st.test)
        except _FixedSlot as e:
            run.violation(rule, f, st.test, 'the case analysis on the target qubit %s reads the fixed slot %s: for a target other than qubit 0 it looks at the wrong qubit' % (i0, e))
            continue
        except Undecidable as e:
            run.undecided(rule, f, st.test, str(e))
            continue
        bad = [k for k, v in tb.items() if v != fn(*k)]
        run.check(not bad, rule, f, st.test, '%s; the test differs on (onsite, x, z) = %s' % (what, bad[:3]))


def pivot_update(run, f, rule='R8.pivot'):
    """pauli_diagonalize1/2, operator trivial on the target qubit: the generator is the operator with its letter on the pivot
    qubit i = front(g) replaced by another one, so that it anticommutes with the operator.  The statements that rewrite the two
    slots of the pivot are interpreted (plain assignments one after the other, a tuple assignment at once) on X, Y and Z; each
    must become a letter that anticommutes with it."""
    from .. import oracle
    n = 0
    for st, ctx in walk(f.node):
        if not (isinstance(st, ast.Assign) and isinstance(st.targets[0], ast.Name) and isinstance(st.value, ast.Call)
                and norm(st.value.func) == 'front' and len(st.value.args) == 1 and isinstance(st.value.args[0], ast.Name)):
            continue
        i, g = st.targets[0].id, st.value.args[0].id
        ups = []
        for s2 in ctx.block[ctx.index + 1:]:
            if not isinstance(s2, ast.Assign):
                break
            tg = s2.targets[0]
            pairs = list(zip(tg.elts, s2.value.elts)) if isinstance(tg, ast.Tuple) and isinstance(s2.value, ast.Tuple) and len(tg.elts) == len(s2.value.elts) else [(tg, s2.value)]
            group = []
            for t, v in pairs:
                if isinstance(t, ast.Subscript) and isinstance(t.value, ast.Name) and t.value.id == g:
                    slot = {(2, 0): 'x', (2, 1): 'z'}.get(affine_in(t.slice, i))
                    group.append((slot, v))
                else:
                    group = None
                    break
            if not group:
                break
            ups.append((s2, group))
        if not ups:
            continue              # no rewrite of the located string follows: not an instance of this rule (random_pair changes the OTHER string: R8.flip)
        n += 1
        if any(slot is None for _, grp in ups for slot, _ in grp):
            run.undecided(rule, f, st, 'the rewrite of the pivot letter after `%s = front(%s)` is not in a shape this rule reads' % (i, g))
            continue
        bad = None
        try:
            for x, z in ((1, 0), (1, 1), (0, 1)):
                b = {'x': x, 'z': z}
                for s2, grp in ups:
                    def sub(nd, env, rec, b=b):
                        if not (isinstance(nd.value, ast.Name) and nd.value.id == g):
                            raise Undecidable('subscript ' + norm(nd))
                        sl = {(2, 0): 'x', (2, 1): 'z'}.get(affine_in(nd.slice, i))
                        if sl is None:
                            raise Undecidable('slot ' + norm(nd))
                        return b[sl]
                    vals = [(slot, ev(v, {}, sub=sub)) for slot, v in grp]     # right-hand sides first (tuple assignment)
                    for slot, val in vals:
                        b[slot] = val
                if b['x'] not in (0, 1) or b['z'] not in (0, 1) or oracle.site_acq(x, z, b['x'], b['z']) != 1:
                    bad = ((x, z), (b['x'], b['z']))
                    break
        except Undecidable as e:
            run.undecided(rule, f, st, str(e))
            continue
        run.check(bad is None, rule, f, ups[0][0], 'the pivot letter must be replaced by one that anticommutes with it (X->Y, Y->Z, Z->X or the reverse): '
                  '(x, z) = %s becomes %s, which commutes with it, so the generator commutes with the operator and the rotation does nothing'
                  % (bad if bad else ((), ())))
    return n


class _Lin:
    """a*i0 + b, so that index arithmetic on the target qubit stays evaluable."""
    def __init__(self, a, b=0):
        self.a, self.b = a, b

    def _c(self, o):
        return o if isinstance(o, _Lin) else (_Lin(0, o) if isinstance(o, int) else None)

    def __add__(self, o):
        o = self._c(o)
        return _Lin(self.a + o.a, self.b + o.b) if o else NotImplemented
    __radd__ = __add__

    def __sub__(self, o):
        o = self._c(o)
        return _Lin(self.a - o.a, self.b - o.b) if o else NotImplemented

    def __mul__(self, o):
        return _Lin(self.a * o, self.b * o) if isinstance(o, int) else NotImplemented
    __rmul__ = __mul__

    def __eq__(self, o):
        o = self._c(o)
        return bool(o) and (self.a, self.b) == (o.a, o.b)

    def __hash__(self):
        return hash((self.a, self.b))

    def __repr__(self):
        return '%d*i0%+d' % (self.a, self.b) if self.b else '%d*i0' % self.a


def diagonalize_mode(dg, obj, i0, causal):
    """Execute the Pauli branch of diagonalize symbolically.  Returns (list of ('gate', generator label, qubits) taken in order,
    list of argument tuples of the pauli_diagonalize1 calls) or (None, reason)."""
    from .. import mini

    def attr(nd, env, rec):
        base = norm(nd.value)
        if base == obj and nd.attr == 'g':
            return 'G'
        if base == obj and nd.attr == 'N':
            return 'N'
        if base in ('numpy', 'np', 'torch'):
            return ('lib', nd.attr)
        raise Undecidable('attribute ' + norm(nd))

    def sub(nd, env, rec):
        v = rec(nd.value)
        if v == 'G' and isinstance(nd.slice, ast.Slice) and nd.slice.upper is None and nd.slice.step is None and nd.slice.lower is not None:
            return ('slice', 'G', rec(nd.slice.lower))
        raise Undecidable('subscript ' + norm(nd))
    taken, calls = [], []

    def call(nd, env, rec):
        fn = norm(nd.func)
        last = fn.split('.')[-1]
        if last == 'isinstance':
            cls = norm(nd.args[1])
            return 'Pauli' in cls and 'Stabilizer' not in cls if norm(nd.args[0]) == obj else (_ for _ in ()).throw(Undecidable('isinstance'))
        if last == 'identity_circuit':
            return 'CIRC'
        if last == 'pauli_diagonalize1':
            calls.append([rec(a) for a in nd.args])
            return ('g0', 'g1')           # two generator labels: order and completeness of the loop are visible
        if last == 'arange' and len(nd.args) == 2:
            return ('arange', rec(nd.args[0]), rec(nd.args[1]))
        if last == 'Pauli' and len(nd.args) == 1:
            return ('Pauli', rec(nd.args[0]))
        if last == 'clifford_rotation_gate':
            a = [rec(x) for x in nd.args]
            kw = {k.arg: k.value for k in nd.keywords}
            q = a[1] if len(a) > 1 else (rec(kw['qubits']) if 'qubits' in kw else None)
            if not (isinstance(a[0], tuple) and a[0][0] == 'Pauli'):
                raise Undecidable('generator of the rotation gate')
            return ('gate', a[0][1], q)
        if last == 'take' and isinstance(nd.func, ast.Attribute) and len(nd.args) == 1:
            taken.append(rec(nd.args[0]))
            return 'CIRC'
        raise Undecidable('call ' + fn)

    def on_expr(e, env, value):
        value(e)
    env = {obj: 'OBJ', i0: _Lin(1)}
    if len(dg.posparams) > 2:
        env[dg.posparams[2]] = causal
    for p_ in dg.posparams[3:] + dg.kwonly:
        env[p_] = 'P_' + p_
    try:
        mini.execute(dg.node, env, attr=attr, sub=sub, call=call, on_expr=on_expr)
    except Undecidable as e:
        return None, str(e)
    return taken, calls


def check(run):
    repo = run.repo
    eff = K.effects_of(repo)
    for pkg, crel, urel in (('pyclifford', K.PY_C, K.PY_U), ('torchclifford', K.TC_C, K.TC_U)):
        dg = repo.func(crel, 'diagonalize')
        dispatch.check_function(run, repo, dg)
        effect.check_pure(run, eff, dg)
        obj, i0 = dg.posparams[0], dg.posparams[1]
        # the Pauli branch is executed by the checker's interpreter in both modes: which string goes to pauli_diagonalize1, and on
        # which qubits every returned generator is turned into a rotation gate and taken, in list order
        seen = set()
        for causal in (True, False):
            taken, calls = diagonalize_mode(dg, obj, i0, causal)
            if taken is None:
                run.undecided('R10.gens', dg, 'causal=%s' % causal, 'the Pauli branch could not be interpreted: %s' % calls)
                continue
            mode = 'causal' if causal else 'global'
            seen.add(mode)
            run.check(len(calls) == 1 and all(isinstance(t, tuple) and len(t) == 3 and t[0] == 'gate' for t in taken) and [t[1] for t in taken] == ['g0', 'g1'],
                      'R10.gens', dg, mode, 'every generator is wrapped by clifford_rotation_gate and taken, in list order (found %s)' % (taken,))
            if len(calls) != 1:
                continue
            args = calls[0]
            if causal:
                run.check(args == [('slice', 'G', _Lin(2))], 'R13.offset', dg, mode,
                          'causal mode diagonalises the part of the string on qubits >= i0: slice [2*i0:] (found %s)' % (args,))
                run.check(all(q == ('arange', _Lin(1), 'N') for _, _, q in taken), 'R13.offset', dg, mode + ' qubits',
                          'the sliced generators act on qubits arange(i0, N): the qubit offset i0 matches the column offset 2*i0 (found %s)' % ([q for _, _, q in taken],))
            else:
                run.check(args == ['G', _Lin(1)], 'R13.offset', dg, mode, 'non-causal mode passes the whole string and the target qubit (found %s)' % (args,))
                run.check(all(q is None for _, _, q in taken), 'R13.offset', dg, mode + ' qubits', 'generators act on the whole register (found %s)' % ([q for _, _, q in taken],))
        run.check(seen == {'causal', 'global'}, 'R10.gens', dg, 'both modes', 'causal and non-causal diagonalisation must both be present (found %s)' % sorted(seen))
        # state branch
        sts = [st for st, ctx in walk(dg.node) if isinstance(st, ast.Assign) and norm(st.targets[0]).endswith('.backward_map')]
        ok = len(sts) == 1 and norm(sts[0].value).replace(' ', '') == '%s.to_map()' % obj
        run.check(ok, 'R2.encode', dg, sts[0] if sts else 'backward_map', 'the encoding map of the state is the backward map of the gate (its inverse decodes the state)')
        gdef = [st for st, ctx in walk(dg.node) if isinstance(st, ast.Assign) and isinstance(st.value, ast.Call) and norm(st.value.func) == 'CliffordGate']
        run.check(len(gdef) == 1 and norm(gdef[0].value.args[0]).replace(' ', '') == '*numpy.arange(%s.N)' % obj, 'R2.encode', dg, gdef[0] if gdef else 'gate', 'the decoding gate acts on all qubits')
        raises = [st for st, _ in walk(dg.node) if isinstance(st, ast.Raise)]
        run.check(bool(raises), 'R11.types', dg, 'else: raise', 'other argument types are rejected')
        rets = [norm(st.value) for st, _ in walk(dg.node) if isinstance(st, ast.Return)]
        run.check(rets == ['circ'], 'R2.encode', dg, 'return circ', 'the built circuit is returned')
        rotation_gate_rule(run, repo, eff, crel)
        # condense
        cf = repo.func(urel, 'condense')
        parallel.mask_expansion(run, cf)
        for c in ast.walk(cf.node):
            if isinstance(c, ast.Call) and norm(c.func).split('.')[-1] == 'masked_select' and len(c.args) == 2:
                run.check(parallel._is_expansion(c.args[1]), 'R13.mask', cf, c, 'the support mask must be expanded to the interleaved (x,z) columns with repeat_interleave(mask, 2)')
        # kernels
        if pkg == 'pyclifford' or True:
            diag_guards(run, repo.func(urel, 'pauli_diagonalize1'))
            diag_guards(run, repo.func(urel, 'pauli_diagonalize2'))
        # every place of the kernels module that rewrites a pivot letter after `i = front(g)` (also inside an extracted helper)
        for q, fq in sorted(repo.modules[urel].funcs.items()):
            pivot_update(run, fq)
        diag_kernel(run, repo.func(urel, 'pauli_diagonalize1'), ['g1'])
        diag_kernel(run, repo.func(urel, 'pauli_diagonalize2'), ['g1', 'g2'])
        K.product_sites(run, repo.func(urel, 'pauli_diagonalize1'), floor=2)
        K.product_sites(run, repo.func(urel, 'pauli_diagonalize2'), floor=5)
    # the returned circuits are packed by take(): packing is only order-preserving with the right independence predicates
    from .C09 import independence
    independence(run, repo, 'pyclifford')
    independence(run, repo, 'torchclifford')
    # SBRG (pyclifford only)
    sb = repo.func(K.PY_C, 'SBRG')
    effect.check_pure(run, eff, sb)
    from ..names import name_assigned_from
    HM = sb.posparams[0]
    HT = name_assigned_from(sb, lambda v: norm(v).replace(' ', '') == '%s.copy()' % HM)
    CI = name_assigned_from(sb, lambda v: isinstance(v, ast.Call) and norm(v.func) == 'diagonalize')
    run.check(HT is not None, 'R4.copy', sb, '%s.copy()' % HM, 'SBRG works on a copy of the model Hamiltonian')
    HT = HT or 'htmp'
    CI = CI or 'circ_i0'
    loop = [st for st, _ in walk(sb.node) if isinstance(st, ast.For)]
    run.check(len(loop) == 1 and norm(loop[0].iter).replace(' ', '') == 'range(N)', 'R10.sbrg', sb, 'for i0 in range(N)', 'every qubit is a pivot once, in ascending order')
    if loop:
        i0 = loop[0].target.id
        body = loop[0].body
        txt = [norm(s).replace(' ', '') for s in body]
        want = ['%s=diagonalize(%s[leading],%s,causal=True)' % (CI, HT, i0), 'circ.compose(%s)' % CI, '%s.forward(%s)' % (CI, HT)]
        pos = [txt.index(w) if w in txt else -1 for w in want]
        run.check(all(p >= 0 for p in pos) and pos == sorted(pos), 'R10.sbrg', sb, 'diagonalize / compose / forward',
                  'the circuit that diagonalises the leading term causally is both appended to the total circuit and applied to the working Hamiltonian (found order %s)' % pos)
        lead = [s for s in body if isinstance(s, ast.Assign) and norm(s.targets[0]) == 'leading']
        run.check(len(lead) == 1 and norm(lead[0].value).replace(' ', '') == 'numpy.argmax(numpy.abs(%s.cs))' % HT, 'R10.sbrg', sb, 'leading', 'the leading term has the largest |coefficient|')
        for s, _c in walk(loop[0]):
            if isinstance(s, ast.Assign) and norm(s.targets[0]) == 'mask_commute':
                cmpn = s.value
                ok = isinstance(cmpn, ast.Compare) and isinstance(cmpn.left, ast.Subscript) and affine_in(cmpn.left.slice.elts[1], i0) == (2, 0) \
                    and norm(cmpn.comparators[0]) == '0'
                run.check(ok, 'R13.sbrg', sb, s, 'terms commuting with Z on the pivot have x slot 2*i0 equal to 0')
            if isinstance(s, ast.Assign) and norm(s.targets[0]) == 'mask_trivial':
                sub = [n for n in ast.walk(s.value) if isinstance(n, ast.Subscript) and norm(n.value) == HT + '.gs']
                ok = len(sub) == 1 and isinstance(sub[0].slice.elts[1], ast.Slice) and affine_in(sub[0].slice.elts[1].lower, i0) == (2, 2) \
                    and sub[0].slice.elts[1].upper is None
                run.check(ok, 'R13.sbrg', sb, s, 'a term is finished when it is trivial on all slots after qubit i0: columns [2*i0+2:]')
        run.check('heff+=%s[mask_trivial]' % HT in txt and '%s=%s[~mask_trivial]' % (HT, HT) in txt, 'R13.sbrg', sb, 'heff / htmp split', 'finished terms move to the effective Hamiltonian, the rest stays')
    rets = [norm(st.value).replace(' ', '') for st, _ in walk(sb.node) if isinstance(st, ast.Return)]
    run.check(rets == ['(heff,circ)'], 'R10.sbrg', sb, 'return heff, circ', 'SBRG returns the effective Hamiltonian and the circuit')
    entries = [repo.func(K.PY_C, 'diagonalize'), repo.func(K.PY_C, 'SBRG'), repo.func(K.TC_C, 'diagonalize'),
               repo.func(K.PY_C, 'clifford_rotation_gate'), repo.func(K.TC_C, 'clifford_rotation_gate')]
    resolve.check_cone(run, repo, entries, 'diagonalisation')
    run.floor('R10.gens', 6)
    run.floor('R13.offset', 8)
    run.floor('R2.encode', 6)
    run.floor('R2.gate', 8)
    run.floor('R7.mirror', 10)
    run.floor('R8.diag', 12)
    run.floor('R8.pivot', 4)
    run.floor('R11.indep', 4)
    run.floor('R10.sbrg', 4)
    run.floor('R13.sbrg', 3)
    run.floor('R13.mask', 2)
    run.decide('crash-free cones; generator -> gate wiring in both modes with matching qubit / column offsets; sign-carrying condensed '
               'rotation gates; encoding map installed as backward map; mirrored rotations in the diagonalisation kernels; SBRG '
               'copies its input, composes and applies the same circuit, masks the right slots')
    run.decline('that the <= 3 generators map the operator to +-Z on the target qubit (finite local case analysis over symbolic strings); '
                'SBRG exactness and spectrum preservation')
