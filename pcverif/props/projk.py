"""Shared checks on the projection kernels (stabilizer_project / _measure / _projection_trace /
_postselection / _expect), used by C05, C06, C07, C12, C14."""
import ast

from ..exprnf import ev, Undecidable
from ..flow import walk
from ..model import norm
from ..rules import rowclass, pair, kinds
from . import common as K


def guards_and_block(run, repo, rel, name, signed=True, loop_form=True):
    f = repo.func(rel, name)
    if loop_form:
        k = rowclass.check_loop_guards(run, f, signed=signed)
        rowclass.check_flag_resets(run, f)
    else:
        rowclass.check_vector_guards(run, f)
        k = rowclass.Kernel(f)
    rowclass.check_block(run, f, k, signed=signed)
    return f, k


def decode_table(expr, f=None):
    """Truth table of an outcome-decode expression over sign source A and observable phase B in {0,2}.
    Returns dict or raises Undecidable.  A = any ps_stb[...] read or local accumulator, B = any ps_obs[...] / ps_ob read."""
    res = {}
    params = set(f.params) if f is not None else set()
    local_names = {n.id for n in ast.walk(expr) if isinstance(n, ast.Name) and n.id not in params
                   and n.id not in ('torch', 'numpy', 'np', 'int')}
    for A in (0, 2):
        for B in (0, 2):
            def sub(n, env, rec, A=A, B=B):
                base = n.value.id if isinstance(n.value, ast.Name) else None
                if base in ('ps_stb',):
                    return A
                if base in ('ps_obs', 'ps_ob'):
                    return B
                raise Undecidable('subscript %s' % norm(n))

            def call(n, env, rec):
                fn = norm(n.func)
                if fn == 'torch.div' and len(n.args) == 2:
                    return rec(n.args[0]) // rec(n.args[1])
                if fn == 'int' and n.args:
                    return int(rec(n.args[0]))
                raise Undecidable('call %s' % fn)
            env = {n: A for n in local_names}
            env['ps_ob'] = B
            res[(A, B)] = ev(expr, env, sub=sub, call=call)
    return res


def check_decodes(run, f, rule='R3.decode', sign_form=False):
    """out[k] = ((sign - ps_obs[k]) % 4) // 2   (bit form) or (-1) ** (...) (sign form)."""
    n = 0
    from ..names import return_names
    outs = {x for x in return_names(f) if x is not None and x not in f.params}
    for st, ctx in walk(f.node):
        if not (isinstance(st, ast.Assign) and isinstance(st.targets[0], ast.Subscript)
                and isinstance(st.targets[0].value, ast.Name) and st.targets[0].value.id in outs):
            continue
        if isinstance(st.value, ast.Constant):
            continue
        try:
            tab = decode_table(st.value, f)
        except Undecidable as e:
            run.undecided(rule, f, st, str(e))
            continue
        if sign_form:
            want = {(0, 0): 1, (0, 2): -1, (2, 0): -1, (2, 2): 1}
        else:
            want = {(0, 0): 0, (0, 2): 1, (2, 0): 1, (2, 2): 0}
        n += 1
        run.check(tab == want, rule, f, st,
                  'outcome decode is wrong: for (state sign, observable sign) in {0,2}^2 it gives %s, expected %s '
                  '(equal signs -> eigenvalue +1)' % (sorted(tab.items()), sorted(want.items())))
        # observable index equals the outcome index
        oi = norm(st.targets[0].slice)
        obs_reads = [x for x in ast.walk(st.value) if isinstance(x, ast.Subscript) and isinstance(x.value, ast.Name)
                     and x.value.id == 'ps_obs']
        for x in obs_reads:
            run.check(norm(x.slice) == oi, rule, f, st, 'outcome %s is decoded against the phase of observable %s'
                      % (oi, norm(x.slice)))
    return n


def coin_and_probability(run, f, k, rule='R11.coin', coin_names=('randint',)):
    """Random branch: fair coin written as 2*bit at the new stabilizer, log2prob decremented by exactly 1 in the
    same block; deterministic branch: neither the tableau, the rank nor log2prob is written."""
    if k is None or k.replace_stmt is None:
        run.undecided(rule, f, f.name, 'replacement block not found')
        return
    block = k.block
    from ..names import return_names
    from ..rules import rngsites
    rngsites.check_fresh_per_iteration(run, f)      # one coin per undetermined observable, drawn inside the loop
    rn = return_names(f)
    lp = rn[-1] if rn else 'log2prob'
    # find the If whose body is the block
    owner = None
    for st, ctx in walk(f.node):
        if isinstance(st, ast.If) and st.body is block:
            owner = st
    decs = [s for s in block if isinstance(s, ast.AugAssign) and isinstance(s.target, ast.Name)
            and s.target.id == lp]
    ok = len(decs) == 1 and isinstance(decs[0].op, ast.Sub) and isinstance(decs[0].value, ast.Constant) \
        and decs[0].value.value == 1
    run.check(ok, rule, f, decs[0] if decs else lp, 'an undetermined outcome has probability 1/2: log2prob must be '
              'decremented by exactly 1, once, in the block that flips the coin')
    coins = [s for s in block if isinstance(s, ast.Assign) and isinstance(s.targets[0], ast.Subscript)
             and isinstance(s.targets[0].value, ast.Name) and s.targets[0].value.id == 'ps_stb']
    if len(coins) != 1:
        run.violation(rule, f, k.replace_stmt, 'the random branch must assign the sign of the new stabilizer exactly once')
    else:
        c = coins[0]
        kd = kinds.kind_of(f, c.value)
        run.check(kd == 'HERM', rule, f, c, 'the sign of the new stabilizer must be 2*(fair bit); found kind %s' % kd)
    # log2prob starts at 0
    inits = [st for st, ctx in walk(f.node) if isinstance(st, ast.Assign) and any(
        isinstance(t, ast.Name) and t.id == 'log2prob' for t in ([st.targets[0]] if not isinstance(st.targets[0], ast.Tuple) else st.targets[0].elts))]
    if owner is not None:
        bad = []
        for s in owner.orelse:
            for n in ast.walk(s):
                if isinstance(n, (ast.Assign, ast.AugAssign)):
                    tg = n.targets[0] if isinstance(n, ast.Assign) else n.target
                    root = tg
                    while isinstance(root, ast.Subscript):
                        root = root.value
                    if isinstance(root, ast.Name) and root.id in (k.tab, 'ps_stb', lp, 'r', 'gs_stb'):
                        bad.append(norm(n))
        run.check(not bad, rule, f, owner.test, 'when the observable is already determined nothing may be written: %s' % bad)
