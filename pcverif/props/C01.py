"""C01 Pauli multiplication is exact (strings, phases, commutation)."""
import ast

from ..model import norm
from ..flow import walk
from ..rules import resolve, bind, pair
from . import common as K

EXPLANATION = ('per-qubit normal forms (complete truth tables) of acq / ipow / acq_mat / ps0 in both packages '
               'are compared with the anticommutation bit and the power of i computed from the 2x2 Pauli '
               'matrices (a proof of the kernels for all N because tensor-product phases add and the reduction '
               'shape is checked); every product site (Pauli.__matmul__, batch_dot) is checked for phase '
               'companion, operand order, both operand phases, % 4 / % 2 closure, coefficient product and '
               'consistent pairing of the broadcast; call binding of the polynomial product; R1 over the cone')
TRUSTED = ['CPython ast', 'oracle.py (2x2 Pauli matrices)', 'additivity of phases over tensor factors',
           'the naming scheme g*/p*/c* for strings/phases/coefficients (appendix A.1)']


def coef_product(run, f):
    """cs of the product is cs1 * cs2 (same pairing as the strings)."""
    ps = f.posparams
    c1, c2 = ps[2], ps[5]
    found = False
    for st, ctx in walk(f.node):
        if isinstance(st, ast.Assign) and bind.target_role(f, st.targets[0]) == 'COEF':
            v = pair.strip_shape(st.value)
            sides = None
            if isinstance(v, ast.BinOp) and isinstance(v.op, ast.Mult):
                sides = (v.left, v.right)
            elif isinstance(v, ast.Call) and norm(v.func).split('.')[-1] in ('outer', 'ger', 'kron'):
                ops = list(v.args)
                if len(ops) == 1 and isinstance(v.func, ast.Attribute):
                    ops = [v.func.value] + ops
                if len(ops) == 2:
                    sides = tuple(ops)
            if sides:
                roots = set()
                for side in sides:
                    s = pair.strip_shape(side)
                    while isinstance(s, ast.Subscript):
                        s = s.value
                    roots.add(norm(s))
                found = True
                run.check(roots == {c1, c2}, 'R7.coef', f, st,
                          'coefficients of the product are not %s * %s' % (c1, c2))
    if not found:
        run.undecided('R7.coef', f, 'cs', 'no coefficient product recognised')


def broadcast_layout(run, repo):
    """torch batch_dot / ipow_product: operand 1 varies along the outer index, operand 2 along the inner."""
    f = repo.func(K.TC_U, 'batch_dot')
    g = repo.func(K.TC_U, 'ipow_product')
    first = {f.posparams[i] for i in (0, 1, 2)}
    second = {f.posparams[i] for i in (3, 4, 5)}
    n = 0
    for node in ast.walk(f.node):
        if isinstance(node, ast.Call) and isinstance(node.func, ast.Attribute) and node.func.attr == 'unsqueeze' \
                and isinstance(node.func.value, ast.Name) and len(node.args) == 1 and isinstance(node.args[0], ast.Constant):
            name, ax = node.func.value.id, node.args[0].value
            if name in first:
                n += 1
                run.check(ax == 1, 'R13.bcast', f, node, 'first-operand array %s must vary along the outer index '
                          '(unsqueeze(1)) like every other first-operand array' % name)
            elif name in second:
                n += 1
                run.check(ax == 0, 'R13.bcast', f, node, 'second-operand array %s must vary along the inner index '
                          '(unsqueeze(0))' % name)
    # outer(a, b)[i, j] = a[i] * b[j] (also ger / kron of two vectors, flattened row-major): a is the outer index
    for node in ast.walk(f.node):
        if isinstance(node, ast.Call) and norm(node.func).split('.')[-1] in ('outer', 'ger', 'kron'):
            ops = list(node.args)
            if isinstance(node.func, ast.Attribute) and norm(node.func.value) not in ('torch', 'numpy', 'np'):
                ops = [node.func.value] + ops
            if len(ops) != 2:
                continue
            names = [o.id if isinstance(o, ast.Name) else None for o in ops]
            if names[0] in first | second and names[1] in first | second:
                n += 1
                run.check(names[0] in first and names[1] in second, 'R13.bcast', f, node,
                          'outer(a, b) varies a along the outer index and b along the inner one: the first operand\'s array must be a '
                          '(found outer(%s, %s)), otherwise term (j1, j2) receives the value of another pair' % (names[0], names[1]))
    g1, g2 = g.posparams[0], g.posparams[1]
    for node in ast.walk(g.node):
        if isinstance(node, ast.Call) and isinstance(node.func, ast.Attribute) and node.func.attr == 'repeat' \
                and isinstance(node.func.value, ast.Subscript) and isinstance(node.func.value.value, ast.Name) \
                and len(node.args) == 2:
            name = node.func.value.value.id
            a0, a1 = node.args
            c0 = isinstance(a0, ast.Constant) and a0.value == 1
            c1 = isinstance(a1, ast.Constant) and a1.value == 1
            if name == g1:
                n += 1
                run.check(c0 and not c1, 'R13.bcast', g, node, 'rows of the first operand must be repeated along '
                          'the columns (repeat(1, L2)) so that row j1*L2+j2 is g1[j1]')
            elif name == g2:
                n += 1
                run.check(c1 and not c0, 'R13.bcast', g, node, 'rows of the second operand must be tiled '
                          '(repeat(L1, 1)) so that row j1*L2+j2 is g2[j2]')
    return n


def reflected_ops(run, repo, rel, rule='R7.reflect'):
    """A reflected dunder of a non-commutative operation (`__rmatmul__`, `__rsub__`, `__rtruediv__`) receives the LEFT operand
    as its argument: returning `self <op> other` (or self.__op__(other)) computes the operands in the wrong order."""
    OPS = {'__rmatmul__': (ast.MatMult, '__matmul__', '@'), '__rsub__': (ast.Sub, '__sub__', '-'), '__rtruediv__': (ast.Div, '__truediv__', '/')}
    n = 0
    for q, fm in sorted(repo.module(rel).funcs.items()):
        nm = q.split('.')[-1]
        if nm not in OPS or len(fm.posparams) != 2:
            continue
        opc, fwd, sym = OPS[nm]
        o = fm.posparams[1]
        from ..names import inlined
        for st, ctx in walk(fm.node):
            if isinstance(st, ast.Return) and st.value is not None:
                n += 1
                v = inlined(fm, st.value)
                same = (isinstance(v, ast.BinOp) and isinstance(v.op, opc) and norm(v.left) == 'self' and norm(v.right) == o) or \
                    (isinstance(v, ast.Call) and isinstance(v.func, ast.Attribute) and v.func.attr == fwd and norm(v.func.value) == 'self'
                     and [norm(a) for a in v.args] == [o])
                run.check(not same, rule, fm, st, '%s(self, %s) stands for `%s %s self`; it returns `self %s %s`, the operands in the wrong order '
                          '(the operation is not commutative)' % (nm, o, o, sym, sym, o))
    return n


def check(run):
    repo = run.repo
    for rel, name, shape, ops, kind in K.KERNELS:
        if name in ('p0', 'ps0'):
            continue
        K.kernel_form(run, repo, rel, name, shape, ops, kind)
    # the product dunders reach the branch written for the operand's class and leave their operands alone
    from ..rules import dispatch, effect
    eff_ = K.effects_of(repo)
    for rel in (K.PY_P, K.TC_P):
        for q in ('Pauli.__matmul__', 'PauliPolynomial.__matmul__'):
            fm = repo.func(rel, q)
            dispatch.check_function(run, repo, fm)
            effect.check_pure(run, eff_, fm)
        reflected_ops(run, repo, rel)
        # a product written out in any other product dunder of the module is held to the same record
        for q, fm in sorted(repo.module(rel).funcs.items()):
            if q.endswith(('.__matmul__', '.__rmatmul__')) and q != 'Pauli.__matmul__':
                K.product_sites(run, fm, order='params')
    # product sites
    for rel in (K.PY_P, K.TC_P):
        f = repo.func(rel, 'Pauli.__matmul__')
        K.product_sites(run, f, order='params', floor=1)
        bind.check_function_calls(run, repo, f, only={'Pauli'})
        from ..names import deref
        other = f.posparams[1]
        for c in ast.walk(f.node):
            if isinstance(c, ast.Call) and isinstance(c.func, ast.Name) and c.func.id == 'Pauli' and len(c.args) >= 1:
                ph = deref(f, c.args[1]) if len(c.args) > 1 else None
                st_ = deref(f, c.args[0])
                ptxt = norm(ph) if ph is not None else ''
                gtxt = norm(st_)
                run.check('self.p' in ptxt and '%s.p' % other in ptxt and 'ipow(' in ptxt, 'R6.product', f, c,
                          'every operator returned as the product must carry p1 + p2 + ipow(g1, g2): this result\'s phase is `%s` '
                          '(a shortcut that ignores one operand\'s phase is wrong when that operand is a signed identity)' % ptxt)
                run.check('self.g' in gtxt and '%s.g' % other in gtxt, 'R6.product', f, c,
                          'every operator returned as the product must have the string g1 xor g2: this result\'s string is `%s`' % gtxt)
    for rel in (K.PY_U, K.TC_U):
        f = repo.func(rel, 'batch_dot')
        K.product_sites(run, f, order='params', floor=1)
        coef_product(run, f)
    broadcast_layout(run, repo)
    for rel in (K.PY_P, K.TC_P):
        f = repo.func(rel, 'PauliPolynomial.__matmul__')
        for call, tgts, how in repo.callees(f):
            if how == 'name' and tgts[0].name == 'batch_dot':
                m = bind.check_call(run, repo, f, call, tgts[0])
                callee = tgts[0]
                p = callee.posparams
                if p[0] in m and p[3] in m:
                    run.check(norm(m[p[0]]).startswith('self.') and not norm(m[p[3]]).startswith('self.'),
                              'R2.order', f, call, 'self @ other: the receiver must be the left factor of batch_dot')
        bind.check_unpacks(run, repo, f)
        bind.check_function_calls(run, repo, f, only={'PauliPolynomial'})
    entries = [repo.func(K.PY_P, 'Pauli.__matmul__'), repo.func(K.PY_P, 'PauliPolynomial.__matmul__'),
               repo.func(K.PY_P, 'PauliMonomial.__matmul__'),
               repo.func(K.TC_P, 'Pauli.__matmul__'), repo.func(K.TC_P, 'PauliPolynomial.__matmul__')]
    entries += [repo.func(rel, n) for rel, n, *_ in K.KERNELS]
    resolve.check_cone(run, repo, entries, 'products')
    run.floor('R8', 9, exact=True)
    run.floor('R6.product', 4)
    run.floor('R7a', 4)
    run.floor('R7c', 4)
    run.floor('R7e', 8)
    run.floor('R13.bcast', 8)
    run.floor('R2', 12)
    run.decide('acq/acq_mat/acq_grid equal the anticommutation bit and ipow/ipow_product the power of i of the '
               'matrix product on all 16 single-qubit operand pairs, reduced mod 2 / mod 4 over all qubits (all N); '
               'product sites add both operand phases and ipow(left,right), XOR the strings, multiply coefficients, '
               'stay in {0..3}/{0,1}; polynomial product binds receiver-first')
    run.decline('nothing essential: associativity, P^2 = +-I and chain exactness follow from per-pair exactness; '
                'integer overflow of accumulators is ignored')
