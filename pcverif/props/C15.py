"""C15 Pauli polynomial arithmetic is a faithful operator algebra -- structural clauses."""
import ast

from .. import oracle
from ..exprnf import ev, Undecidable
from ..flow import walk
from ..model import norm, Func
from ..rules import resolve, dispatch, depend, readwrite as RW, parallel, bind, effect, nf
from . import common as K

EXPLANATION = ('no isinstance branch of any arithmetic dunder is shadowed by an earlier superclass test; every denotation function '
               '(trace, to_qutip, __repr__, tokenize, reduce) may-depends on every denotation field of its class; scalar constants '
               'satisfy c = i^k; derived operators are wired to the primitive ones (-, /, radd, sub); sums concatenate gs, ps, cs in '
               'the same operand order; reduce aggregates cs * i^ps over unique strings and masks strings and coefficients with one '
               'tolerance mask; qutip export maps (x,z) to the right matrices with prefactor c * i^p; Clifford actions never write '
               'coefficients; R1 over the cone.  Numerical identity of exported matrices is not decided')
TRUSTED = ['CPython ast', 'oracle.py letters', 'class hierarchy from the sources', 'C01 (products)']

FIELDS = {'Pauli': ['g', 'p'], 'PauliMonomial': ['g', 'p', 'c'], 'PauliList': ['gs', 'ps'], 'PauliPolynomial': ['gs', 'ps', 'cs']}


def wired(run, f, want_forms, what, rule='R12.wire'):
    rets = [norm(st.value).replace(' ', '') for st, _ in walk(f.node) if isinstance(st, ast.Return)]
    run.check(len(rets) == 1 and rets[0] in want_forms, rule, f, rets[0] if rets else 'return', '%s (found %s)' % (what, rets))


def qutip_export(run, m, fields):
    """to_qutip of an operator class: each (x, z) pair exported as its Pauli matrix, times i^p (and the coefficient)."""
    lt = RW.qutip_letters(m)
    if lt is None:
        run.undecided('R12.qutip', m, 'to_qutip', 'operator list not found')
    else:
        for (x, z), L in sorted(oracle.LETTER.items()):
            run.check(lt.get((x, z)) == L, 'R12.qutip', m, '(x=%d,z=%d) -> %s' % (x, z, lt.get((x, z))), 'sigma(x=%d,z=%d) = %s must be exported as that matrix' % (x, z, L))
    txt = ' '.join(norm(s).replace(' ', '') for s, _ in walk(m.node) if isinstance(s, (ast.Return, ast.AugAssign, ast.Expr)))
    pf = '1j**self.p' if 'g' in fields else '1j**self.ps[l]'
    run.check(pf in txt, 'R12.qutip', m, 'i^p prefactor', 'the exported matrix carries the phase factor (1j)**p')
    if 'c' in fields or 'cs' in fields:
        cf = 'self.c*' if 'c' in fields else 'self.cs[l]*'
        run.check(cf in txt, 'R12.qutip', m, 'coefficient', 'the exported matrix carries the coefficient')


def check(run):
    repo = run.repo
    eff = K.effects_of(repo)
    for pkg, prel, urel in (('pyclifford', K.PY_P, K.PY_U), ('torchclifford', K.TC_P, K.TC_U)):
        mod = repo.module(prel)
        for f in mod.funcs.values():
            dispatch.check_function(run, repo, f)
            depend.check_branch_reads(run, repo, f)
        st = repo.func(prel.replace('paulialg', 'stabilizer'), 'StabilizerState.expect')
        dispatch.check_function(run, repo, st)
        for cname, fields in FIELDS.items():
            c = repo.find_cls(pkg, cname)
            if c is None:
                continue
            for mname, what in (('trace', 'trace'), ('to_qutip', 'exported matrix'), ('__repr__', 'printed form')):
                m = repo.lookup_method(c, mname)
                if m is None:
                    continue
                # report a missing dependence where the method is defined (not again for every inheriting class)
                if m.cls is not c:
                    own_extra = [x for x in fields if x not in FIELDS.get(m.cls.name, [])]
                    if own_extra:
                        depend.check_reads(run, repo, m, own_extra, what=what)
                    continue
                delegates = any(isinstance(n, ast.Call) and isinstance(n.func, ast.Attribute) and n.func.attr == mname
                                and isinstance(n.func.value, ast.Call) and norm(n.func.value.func) == 'super' for n in ast.walk(m.node))
                if delegates:
                    base = repo.mro(c)[1].name if len(repo.mro(c)) > 1 else None
                    own = [x for x in fields if x not in FIELDS.get(base, [])]
                    depend.check_reads(run, repo, m, own, what=what)     # inherited fields are judged at the base method
                else:
                    depend.check_reads(run, repo, m, fields, what=what)
            m = c.methods.get('tokenize')
            if m is not None:
                depend.check_reads(run, repo, m, fields[:2], what='token array')
            # qutip export letters and prefactor
            m = c.methods.get('to_qutip')
            if m is not None:
                qutip_export(run, m, fields)
        # scalar multiples
        RW.check_rmul(run, repo.func(prel, 'Pauli.__rmul__'), field='g')
        RW.check_rmul(run, repo.func(prel, 'PauliList.__rmul__'), field='gs')
        poly = repo.cls(pkg, 'PauliPolynomial')
        wired(run, poly.methods['__rmul__'], ['PauliPolynomial(self.gs,self.ps).set_cs(c*self.cs)', 'PauliPolynomial(self.gs,self.ps).set_cs(self.cs*c)'],
              'c * polynomial scales the coefficients and keeps strings and phases')
        wired(run, poly.methods['__neg__'], ['PauliPolynomial(self.gs,self.ps).set_cs(-self.cs)'], '-polynomial negates the coefficients')
        for cname in ('Pauli', 'PauliList', 'PauliMonomial', 'PauliPolynomial'):
            c = repo.find_cls(pkg, cname)
            if c is None:
                continue
            if '__truediv__' in c.methods:
                o = c.methods['__truediv__'].posparams[1]
                wired(run, c.methods['__truediv__'], ['1/%s*self' % o, '(1/%s)*self' % o], 'x / a is (1/a) * x')
            if '__sub__' in c.methods:
                o = c.methods['__sub__'].posparams[1]
                wired(run, c.methods['__sub__'], ['self+-%s' % o, 'self+(-%s)' % o], 'x - y is x + (-y)')
            if '__radd__' in c.methods:
                o = c.methods['__radd__'].posparams[1]
                wired(run, c.methods['__radd__'], ['self+%s' % o], 'y + x is x + y (addition commutes)')
        mono = repo.find_cls(pkg, 'PauliMonomial')
        if mono is not None:
            wired(run, mono.methods['__rmul__'], ['PauliMonomial(self.g,self.p).set_c(c*self.c)', 'PauliMonomial(self.g,self.p).set_c(self.c*c)'], 'c * monomial scales the coefficient')
            wired(run, mono.methods['__neg__'], ['PauliMonomial(self.g,self.p).set_c(-self.c)'], '-monomial negates the coefficient')
            wired(run, mono.methods['trace'], ['self.c*super(PauliMonomial,self).trace()', 'self.c*super().trace()'], 'trace of a monomial is c times the trace of the operator')
            wired(run, mono.methods['inverse'], ['Pauli(self.g)/(self.c*1j**self.p)'], 'inverse of c i^p sigma is sigma / (c i^p)')
            ap = mono.methods['as_polynomial']
            defs = {norm(s.targets[0]): norm(s.value).replace(' ', '') for s, _ in walk(ap.node) if isinstance(s, ast.Assign)}
            run.check('self.g' in defs.get('gs', '') and '[self.p]' in defs.get('ps', '') and '[self.c]' in defs.get('cs', ''), 'R12.wire', ap, 'as_polynomial',
                      'the one-term polynomial carries (g, p, c) of the monomial: %s' % defs)
            bind.check_function_calls(run, repo, ap, only={'PauliPolynomial'})
        wired(run, poly.methods['trace'], ['self.cs.dot(super(PauliPolynomial,self).trace())', 'self.cs.dot(super().trace())'], 'trace is linear: sum of c_k Tr(sigma_k)')
        wired(run, repo.func(prel, 'pauli_zero'), ['0*pauli_identity(N)'], 'the zero operator is 0 times the identity')
        pid = repo.func(prel, 'pauli_identity')
        rets = [norm(s.value).replace(' ', '') for s, _ in walk(pid.node) if isinstance(s, ast.Return)]
        run.check(len(rets) == 1 and rets[0].startswith('PauliPolynomial(') and 'zeros((1,2*N)' in rets[0], 'R12.wire', pid, 'identity', 'the identity polynomial is one all-zero string with coefficient 1')
        # __add__ : concatenation order and reduction
        ad = poly.methods['__add__']
        o = ad.posparams[1]
        cats = {}
        for s, _ in walk(ad.node):
            if isinstance(s, ast.Assign) and isinstance(s.value, ast.Call) and norm(s.value.func).split('.')[-1] in ('concatenate', 'cat'):
                seq = s.value.args[0]
                cats[norm(s.targets[0])] = [norm(e) for e in seq.elts] if isinstance(seq, (ast.List, ast.Tuple)) else None
        for fld in ('gs', 'ps', 'cs'):
            run.check(cats.get(fld) == ['self.' + fld, '%s.%s' % (o, fld)], 'R13.add', ad, '%s = cat(%s)' % (fld, cats.get(fld)),
                      'the sum lists the terms of both operands, self first, identically for gs, ps and cs')
        rets = [norm(s.value).replace(' ', '') for s, _ in walk(ad.node) if isinstance(s, ast.Return)]
        run.check(rets == ['PauliPolynomial(gs,ps).set_cs(cs).reduce()'], 'R13.add', ad, 'return', 'the sum is built from (gs, ps, cs) and reduced (found %s)' % rets)
        if pkg == 'pyclifford':
            num = [norm(s.value).replace(' ', '') for s, c in walk(ad.node) if isinstance(s, ast.Assign) and norm(s.targets[0]) == o and 'pauli_identity' in norm(s.value)]
            run.check(num == ['%s*pauli_identity(self.N)' % o], 'R13.add', ad, 'number + polynomial', 'adding a number adds that multiple of the identity (found %s)' % num)
        # reduce
        rd = poly.methods['reduce']
        txts = {norm(s.targets[0]): s for s, _ in walk(rd.node) if isinstance(s, ast.Assign)}
        uq = [s for s, _ in walk(rd.node) if isinstance(s, ast.Assign) and isinstance(s.value, ast.Call) and norm(s.value.func).split('.')[-1] == 'unique']
        ok = len(uq) == 1 and norm(uq[0].value.args[0]) == 'self.gs' and any(k.arg == 'return_inverse' and getattr(k.value, 'value', None) is True for k in uq[0].value.keywords) \
            and any(k.arg in ('axis', 'dim') and getattr(k.value, 'value', None) == 0 for k in uq[0].value.keywords)
        run.check(ok, 'R6.reduce', rd, 'unique(self.gs, return_inverse, axis=0)', 'equal strings (rows) are merged')
        ag = [c for c in ast.walk(rd.node) if isinstance(c, ast.Call) and norm(c.func) == 'aggregate']
        if len(ag) != 1:
            run.violation('R6.reduce', rd, 'aggregate', 'coefficients of equal strings must be summed')
        else:
            a0 = norm(ag[0].args[0]).replace(' ', '')
            run.check(a0 in ('self.cs*1j**self.ps', '1j**self.ps*self.cs'), 'R6.reduce', rd, ag[0], 'phases move into the coefficients as cs * i^ps before merging (found %s)' % a0)
            run.check(norm(ag[0].args[1]) == norm(uq[0].targets[0].elts[1]) if uq and isinstance(uq[0].targets[0], ast.Tuple) else False, 'R6.reduce', rd, ag[0], 'terms are merged by the inverse index of unique')
        mk = [s for s, _ in walk(rd.node) if isinstance(s, ast.Assign) and isinstance(s.value, ast.Compare)]
        if not mk:
            # the comparison may sit inside a call (numpy.flatnonzero(numpy.abs(cs) > tol)): the statement is kept for the
            # selection name, its comparison is what gets evaluated
            for s_, _ in walk(rd.node):
                if isinstance(s_, ast.Assign) and isinstance(s_.targets[0], ast.Name):
                    cmps = [c_ for c_ in ast.walk(s_.value) if isinstance(c_, ast.Compare) and rd.posparams[1] in {x.id for x in ast.walk(c_) if isinstance(x, ast.Name)}]
                    if len(cmps) == 1:
                        mk = [ast.copy_location(ast.Assign(targets=s_.targets, value=cmps[0]), s_)]
        ok = len(mk) == 1
        if ok:
            try:
                for tolv in (1e-10, 1e-5):
                    for cv in (0j, 1e-12 + 0j, 5e-11j, 2e-10 + 0j, 3e-8 - 3e-8j, 1e-5 + 1e-6j, 1e-3 + 1e-3j, -0.5 + 0j, 2j):
                        def call(n, env, rec):
                            fn = norm(n.func).split('.')[-1]
                            if fn in ('abs', 'absolute') and len(n.args) == 1:
                                return abs(rec(n.args[0]))
                            if fn in ('sqrt',) and len(n.args) == 1:
                                return rec(n.args[0]) ** 0.5
                            raise Undecidable('call ' + fn)

                        def attr(n, env, rec):
                            v = rec(n.value)
                            if n.attr in ('real', 'imag'):
                                return getattr(complex(v), n.attr)
                            raise Undecidable('attr')
                        cname = [x.id for x in ast.walk(mk[0].value) if isinstance(x, ast.Name) and x.id not in ('numpy', 'torch', 'np', rd.posparams[1])]
                        env = {nm: cv for nm in cname}
                        env[rd.posparams[1]] = tolv
                        if bool(ev(mk[0].value, env, call=call, attr=attr)) != (abs(cv) > tolv):
                            ok = False
            except Undecidable:
                ok = None
        if ok is None:
            run.undecided('R6.reduce', rd, mk[0], 'tolerance test not evaluable')
        else:
            run.check(ok, 'R6.reduce', rd, mk[0] if mk else 'mask', 'a merged term is dropped exactly when |coefficient| <= tol (the test must compare the magnitude, '
                      'not its square or its real part, with the tolerance)')
        rets = [s.value for s, _ in walk(rd.node) if isinstance(s, ast.Return)]
        if len(rets) == 1 and mk:
            mname = norm(mk[0].targets[0])
            txt = norm(rets[0]).replace(' ', '')
            ok_ret = txt in ('PauliPolynomial(gs[%s]).set_cs(cs[%s])' % (mname, mname),
                             'PauliPolynomial(numpy.take(gs,%s,axis=0)).set_cs(numpy.take(cs,%s))' % (mname, mname),
                             'PauliPolynomial(numpy.take(gs,%s,axis=0)).set_cs(numpy.take(cs,%s,axis=0))' % (mname, mname))
            if not ok_ret and isinstance(rets[0], ast.Name):
                # the same object built in steps: X = PauliPolynomial(gs[m]) ; X.cs = cs[m] (or X.set_cs(cs[m])) ; return X
                X = rets[0].id
                ctor = [s2.value for s2, _ in walk(rd.node) if isinstance(s2, ast.Assign) and norm(s2.targets[0]) == X]
                setc = [norm(s2.value).replace(' ', '') for s2, _ in walk(rd.node) if isinstance(s2, ast.Assign) and norm(s2.targets[0]) == X + '.cs']
                setc += [norm(s2.value.args[0]).replace(' ', '') for s2, _ in walk(rd.node) if isinstance(s2, ast.Expr) and isinstance(s2.value, ast.Call)
                         and norm(s2.value.func) == X + '.set_cs' and len(s2.value.args) == 1]
                ok_ret = len(ctor) == 1 and norm(ctor[0]).replace(' ', '') == 'PauliPolynomial(gs[%s])' % mname and setc == ['cs[%s]' % mname]
            run.check(ok_ret, 'R6.reduce', rd, rets[0],
                      'strings and merged coefficients are kept with the same mask and the phases are zero (they moved into cs)')
        # aggregate kernel
        agf = repo.func(urel, 'aggregate')
        if pkg == 'pyclifford':
            aug = [s for s, c in walk(agf.node) if isinstance(s, ast.AugAssign) and c.loops]
            lv = aug[0] and [c for s, c in walk(agf.node) if s is aug[0]][0].loops[-1].target if aug else None
            i_ = lv.id if isinstance(lv, ast.Name) else 'i'
            din, inds_ = agf.posparams[0], agf.posparams[1]
            tgt = norm(aug[0].target).replace(' ', '') if aug else ''
            ok = len(aug) == 1 and isinstance(aug[0].op, ast.Add) and tgt.endswith('[%s[%s]]' % (inds_, i_)) and norm(aug[0].value).replace(' ', '') == '%s[%s]' % (din, i_)
            run.check(ok, 'R6.reduce', agf, 'data_out[inds[i]] += data_in[i]', 'aggregation sums each entry into its class')
            lp = [s for s, _ in walk(agf.node) if isinstance(s, ast.For)]
            from ..names import is_full_index_range
            run.check(len(lp) == 1 and is_full_index_range(lp[0].iter, agf.posparams[0]), 'R6.reduce', agf, 'loop', 'every term is aggregated')
        else:
            txt = norm(agf.node.body[-1]).replace(' ', '')
            run.check('index_add_(-1,inds,data_in)' in txt and 'torch.zeros(l' in txt, 'R6.reduce', agf, 'index_add_', 'aggregation sums each entry into its class')
        from .C20 import getitem_checks
        getitem_checks(run, repo, prel)
        # Clifford actions leave coefficients alone (also C03)
        for q in ('PauliList.rotate_by', 'PauliList.transform_by'):
            g = repo.func(prel, q)
            ms = [(p, k) for p, k, via in eff.summary(g).mod if p.endswith('.cs') or k == 'attr:cs']
            run.check(not ms, 'R4.cs', g, q, 'Clifford actions are linear: coefficients must not be written (%s)' % ms)
            run.check(q.split('.')[1] not in poly.methods, 'R4.cs', (prel, 'PauliPolynomial'), q.split('.')[1], 'the polynomial inherits the list action unchanged')
    entries = []
    for prel in (K.PY_P, K.TC_P):
        mod = repo.module(prel)
        entries += [f for f in mod.funcs.values()]
    resolve.check_cone(run, repo, entries, 'polynomial algebra')
    run.floor('R14', 15)
    run.floor('R6', 40)
    run.floor('R12.qutip', 38)
    run.floor('R12.rmul', 16)
    run.floor('R12.wire', 30)
    run.floor('R13.add', 8)
    run.floor('R6.reduce', 12)
    run.decide('dispatch chains unshadowed; trace / to_qutip / repr / tokenize / reduce may-depend on all denotation fields; c = i^k; '
               'derived operators wired to primitives; sums concatenate in parallel and reduce; reduce merges cs*i^ps over unique strings '
               'with one tolerance mask; qutip letters and prefactors; coefficients untouched by Clifford actions')
    run.decline('numerical identity of exported matrices; tolerance bound of reduce as a number; float rounding')
