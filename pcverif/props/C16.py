"""C16 Random Cliffords are valid and uniformly distributed -- decided only for the clauses below."""
import ast
import itertools

from ..exprnf import ev, Undecidable, affine_in
from ..flow import walk
from ..model import norm
from ..rules import resolve, rngsites, kinds, live, pair
from . import common as K
from . import circ

EXPLANATION = ('every random draw feeding a string bit, sign, coin or selector is uniform on {0,1} (or the literal [0,2]); signs are '
               '2*bit; the commutation-flip of random_pair is an expression normal form that provably flips the anticommutation bit '
               'at a nontrivial site; the recursive sampler writes the diagonalised pair into rows 0,1, recurses on the [2:,2:] block '
               'and undoes the generators in reverse with a live result; gates without maps draw a fresh random_clifford_map(self.n) '
               'on every path and never store it; the rcc constructors add map-less gates on the documented qubit patterns.  Validity '
               'by construction and uniformity are distributional facts and are not decided')
TRUSTED = ['CPython ast', 'oracle.py', 'effects.py (purity of the signless rotation kernel)', 'numpy/torch randint semantics']


def flip_normal_form(run, f, loop_form):
    """random_pair / impose_leading_noncommutivity: the update of g2 at the first nontrivial site of g1 flips acq."""
    from .. import oracle
    ups = {}
    if loop_form:
        g1, g2 = 'g1', 'g2'
        for st, ctx in walk(f.node):
            if isinstance(st, ast.Assign) and isinstance(st.targets[0], ast.Subscript) and norm(st.targets[0].value) == g2:
                ab = affine_in(st.targets[0].slice, 'i')
                slot = {(2, 0): 'x', (2, 1): 'z'}.get(ab)
                if slot:
                    ups[slot] = (st, st.value, ctx)

        def mk_sub(b):
            def sub(n, env, rec):
                ab = affine_in(n.slice, 'i')
                slot = {(2, 0): 'x', (2, 1): 'z'}.get(ab)
                if slot is None or norm(n.value) not in (g1, g2):
                    raise Undecidable('subscript ' + norm(n))
                return b[(norm(n.value), slot)]
            return sub
        call = None
    else:
        g1, g2 = f.posparams[0], f.posparams[1]
        for st, ctx in walk(f.node):
            if isinstance(st, ast.Assign) and isinstance(st.value, ast.Call) and isinstance(st.value.func, ast.Attribute) \
                    and st.value.func.attr == 'scatter' and norm(st.value.func.value) == g2 and len(st.value.args) == 3:
                ab = affine_in(st.value.args[1], 'i')
                slot = {(2, 0): 'x', (2, 1): 'z'}.get(ab)
                if slot:
                    ups[slot] = (st, st.value.args[2], ctx)

        def mk_sub(b):
            def sub(n, env, rec):
                raise Undecidable('subscript')
            return sub
    if set(ups) != {'x', 'z'}:
        run.undecided('R8.flip', f, f.name, 'the two slot updates of the second string were not recognised (%s)' % sorted(ups))
        return
    # sequential semantics: the z update may read the already-updated x slot (pyclifford reads g2[2*i] only in the x update)
    order = sorted(ups, key=lambda s: ups[s][0].lineno)
    bad = None
    for x1, z1, x2, z2 in itertools.product((0, 1), repeat=4):
        b = {(g1, 'x'): x1, (g1, 'z'): z1, (g2, 'x'): x2, (g2, 'z'): z2}
        try:
            for slot in order:
                expr = ups[slot][1]
                if loop_form:
                    v = ev(expr, {}, sub=mk_sub(b))
                else:
                    def call(n, env, rec, b=b):
                        fn = norm(n.func)
                        if fn == 'torch.gather' and len(n.args) == 3:
                            ab = affine_in(n.args[2], 'i')
                            sl = {(2, 0): 'x', (2, 1): 'z'}.get(ab)
                            if sl is None:
                                raise Undecidable('gather index')
                            return b[(norm(n.args[0]), sl)]
                        raise Undecidable('call ' + fn)
                    v = ev(expr, {'mask': 1}, call=call)
                b[(g2, slot)] = v
        except Undecidable as e:
            run.undecided('R8.flip', f, f.name, str(e))
            return
        nx2, nz2 = b[(g2, 'x')], b[(g2, 'z')]
        if nx2 not in (0, 1) or nz2 not in (0, 1):
            bad = ((x1, z1, x2, z2), 'entries leave {0,1}')
            break
        if (x1, z1) != (0, 0):
            before = oracle.site_acq(x1, z1, x2, z2)
            after = oracle.site_acq(x1, z1, nx2, nz2)
            if after == before:
                bad = ((x1, z1, x2, z2), 'the anticommutation bit at the pivot site is not flipped')
                break
    run.check(bad is None, 'R8.flip', f, norm(ups['x'][0]) + ' ; ' + norm(ups['z'][0]),
              'a commuting pair must be turned into an anticommuting one by changing g2 at the first nontrivial site of g1: %s' % (bad,))
    # guard: only commuting pairs are changed (loop form: under acq(g1,g2) == 0)
    if loop_form:
        st, _, ctx = ups['x']
        ok = False
        for t, pol in ctx.conds:
            try:
                vals = []
                for a in (0, 1):
                    def call(n, env, rec, a=a):
                        if norm(n.func) == 'acq':
                            return a
                        raise Undecidable('call')
                    vals.append(bool(ev(t, {}, call=call)) == pol)
                if vals == [True, False]:
                    ok = True
            except Undecidable:
                pass
        run.check(ok, 'R8.flip', f, 'if acq(g1, g2) == 0', 'only a commuting pair may be modified')


def sampler(run, repo, f):
    """random_clifford.random_clifford_ : rows 0,1 <- diagonalised pair; recursion on gs[2:,2:]; undo in reverse."""
    stores = {}
    for st, ctx in walk(f.node):
        if isinstance(st, ast.Assign) and isinstance(st.targets[0], ast.Subscript) and norm(st.targets[0].value) == 'gs' \
                and isinstance(st.targets[0].slice, ast.Constant):
            stores.setdefault(st.targets[0].slice.value, set()).add(norm(st.value))
    run.check(stores.get(0) == {'g1'} and stores.get(1) == {'g2'}, 'R13.sampler', f, 'gs[0] = g1; gs[1] = g2',
              'the sampled pair occupies rows 0 (X image) and 1 (Z image) of the block (found %s)' % stores)
    rec = [c for c in ast.walk(f.node) if isinstance(c, ast.Call) and norm(c.func) == f.name]
    run.check(len(rec) == 1 and norm(rec[0].args[0]).replace(' ', '') == 'gs[2:,2:]', 'R13.sampler', f, 'recursion', 'the remaining qubits are sampled in the [2:, 2:] block')
    loops = [st for st, _ in walk(f.node) if isinstance(st, ast.For)]
    ok = len(loops) == 1 and norm(loops[0].iter).replace(' ', '') == 'reversed(gens)'
    run.check(ok, 'R10.undo', f, 'for g in reversed(gens)', 'the diagonalising rotations are undone in reverse order')
    pd = [st for st, _ in walk(f.node) if isinstance(st, ast.Assign) and isinstance(st.value, ast.Call) and norm(st.value.func) == 'pauli_diagonalize2']
    run.check(len(pd) == 1 and [norm(e) for e in pd[0].targets[0].elts] == ['gens', 'g1', 'g2'], 'R13.sampler', f, 'gens, g1, g2 = pauli_diagonalize2(g1, g2)',
              'the pair is diagonalised and the generators kept for the undo')
    if loops:
        body = loops[0].body
        calls = [c for s in body for c in ast.walk(s) if isinstance(c, ast.Call) and norm(c.func) == 'clifford_rotate_signless']
        run.check(len(calls) == 1 and [norm(a) for a in calls[0].args] == [loops[0].target.id, 'gs'], 'R10.undo', f, 'clifford_rotate_signless(g, gs)',
                  'each generator is applied to the whole block')
        # result must reach gs (in-place kernel: alias; functional kernel: stored back)
        st = body[0]
        tgt = norm(st.targets[0]) if isinstance(st, ast.Assign) else None
        callee = repo.resolve_local(f, 'clifford_rotate_signless')
        from ..rules.inout import stores_into
        from ..rules.inout import rebinds
        inplace = stores_into(callee, callee.posparams[1]) and not rebinds(callee, callee.posparams[1])
        run.check(inplace or tgt == 'gs[:]', 'R16', f, st, 'the un-rotated block must be kept: the kernel returns a new array, '
                  'which is bound to `%s`' % tgt)


def check(run):
    repo = run.repo
    eff = K.effects_of(repo)
    n = 0
    for rel, names in ((K.PY_U, ['random_pair', 'random_pauli', 'random_clifford', 'stabilizer_measure']),
                       (K.TC_U, ['random_pair', 'random_pauli', 'random_clifford', 'stabilizer_measure']),
                       (K.PY_S, ['random_pauli_map', 'random_clifford_map', 'random_bit_state_gs_ps', 'StabilizerState.sample']),
                       (K.TC_S, ['random_pauli_map', 'random_clifford_map', 'StabilizerState.sample'])):
        for q in names:
            f = repo.func(rel, q)
            n += rngsites.check_function(run, f)
    for rel in (K.PY_S, K.TC_S):
        for q in ('random_pauli_map', 'random_clifford_map'):
            f = repo.func(rel, q)
            kinds.check_function(run, repo, f)
            src = {norm(st.targets[0]): norm(st.value).replace(' ', '') for st, _ in walk(f.node) if isinstance(st, ast.Assign)}
            want = q.replace('_map', '')
            run.check(src.get('gs', '').startswith(want + '(N'), 'R2.random', f, 'gs = %s(N)' % want, 'the table of %s comes from %s(N) (found %s)' % (q, want, src.get('gs')))
            psd = [st.value for st, _ in walk(f.node) if isinstance(st, ast.Assign) and norm(st.targets[0]) == 'ps']
            run.check(len(psd) == 1 and kinds.kind_of(f, psd[0]) == 'HERM', 'R3a', f, 'ps = 2*bit', 'random signs are 2*(fair bit)')
    kinds.check_function(run, repo, repo.func(K.PY_S, 'random_bit_state_gs_ps'))
    # random_pair
    flip_normal_form(run, repo.func(K.PY_U, 'random_pair'), True)
    flip_normal_form(run, repo.func(K.TC_U, 'impose_leading_noncommutivity'), False)
    rp = repo.func(K.PY_U, 'random_pair')
    wh = [st for st, _ in walk(rp.node) if isinstance(st, ast.While)]
    run.check(len(wh) == 1 and norm(wh[0].test).replace(' ', '') == '(g1==0).all()', 'R11.resample', rp, 'while (g1 == 0).all()', 'the identity string is rejected and g1 resampled')
    fr = [st for st, _ in walk(rp.node) if isinstance(st, ast.Assign) and norm(st.value).replace(' ', '') == 'front(g1)']
    run.check(len(fr) == 1, 'R11.resample', rp, 'i = front(g1)', 'the flip acts at the first nontrivial site of g1')
    ft = repo.func(K.PY_U, 'front')
    conds = [norm(st.test).replace(' ', '') for st, _ in walk(ft.node) if isinstance(st, ast.If)]
    run.check(conds == ['g[2*i]!=0org[2*i+1]!=0'], 'R11.resample', ft, 'front', 'front returns the first site with x != 0 or z != 0 (found %s)' % conds)
    # the measurement coin: fair, written at the new stabilizer after its relocation, paired with log2prob
    from . import projk
    fm, km = projk.guards_and_block(run, repo, K.PY_U, 'stabilizer_measure', signed=True)
    projk.coin_and_probability(run, fm, km)
    # the diagonalisation used by the sampler mirrors every emitted generator on both tracked strings
    from .C18 import diag_kernel
    for rel in (K.PY_U, K.TC_U):
        diag_kernel(run, repo.func(rel, 'pauli_diagonalize2'), ['g1', 'g2'])
    # samplers
    for rel in (K.PY_U, K.TC_U):
        f = repo.func(rel, 'random_clifford.random_clifford_')
        sampler(run, repo, f)
        live.check_function(run, repo, eff, f)
        rc = repo.func(rel, 'random_clifford')
        rets = [norm(st.value).replace(' ', '') for st, _ in walk(rc.node) if isinstance(st, ast.Return)]
        run.check(len(rets) == 1 and rets[0].startswith('random_clifford_(') and 'zeros((2*N,2*N)' in rets[0], 'R13.sampler', rc, 'start', 'sampling starts from an empty 2N x 2N table')
        rpf = repo.func(rel, 'random_pauli')
        live.check_function(run, repo, eff, rpf)
    rpf = repo.func(K.PY_U, 'random_pauli')
    got = {}
    for st, ctx in walk(rpf.node):
        if isinstance(st, ast.Assign) and isinstance(st.targets[0], ast.Subscript) and norm(st.targets[0].value) == 'gs' \
                and isinstance(st.targets[0].slice, ast.Tuple) and len(st.targets[0].slice.elts) == 2 and ctx.loops:
            i = ctx.loops[-1].target.id
            r, c = st.targets[0].slice.elts
            if isinstance(c, ast.Slice) and c.lower is not None and c.upper is not None:
                got[norm(st.value)] = (affine_in(r, i), affine_in(c.lower, i), affine_in(c.upper, i))
    run.check(got == {'g1': ((2, 0), (2, 0), (2, 2)), 'g2': ((2, 1), (2, 0), (2, 2))}, 'R13.sampler', rpf, 'blocks',
              'a random Pauli map is block diagonal: rows 2i, 2i+1 hold a random anticommuting pair on columns 2i:2i+2 (found %s)' % got)
    # gates without maps resample at every call
    for pkg in ('pyclifford', 'torchclifford'):
        gate = repo.cls(pkg, 'CliffordGate')
        circ.gate_dispatch(run, gate.methods['forward'], 'forward')
        circ.gate_dispatch(run, gate.methods['backward'], 'backward')
    # rcc constructors
    for rel in (K.PY_C, K.TC_C):
        bw = repo.func(rel, 'brickwall_rcc')
        gates = [c for c in ast.walk(bw.node) if isinstance(c, ast.Call) and isinstance(c.func, ast.Attribute) and c.func.attr == 'gate']
        run.check(len(gates) == 1 and [norm(a).replace(' ', '') for a in gates[0].args] == ['i', '(i+1)%N'], 'R12.rcc', bw, 'gate(i, (i+1) % N)', 'brick-wall gates act on neighbours')
        loops = [norm(st.iter).replace(' ', '') for st, _ in walk(bw.node) if isinstance(st, ast.For)]
        run.check(loops == ['range(depth)', 'range(l%2,N,2)'], 'R12.rcc', bw, 'loops', 'layers alternate between even and odd bonds (found %s)' % loops)
        os_ = repo.func(rel, 'onsite_rcc')
        gates = [c for c in ast.walk(os_.node) if isinstance(c, ast.Call) and isinstance(c.func, ast.Attribute) and c.func.attr == 'gate']
        loops = [norm(st.iter).replace(' ', '') for st, _ in walk(os_.node) if isinstance(st, ast.For)]
        run.check(len(gates) == 1 and [norm(a) for a in gates[0].args] == ['i'] and loops == ['range(N)'], 'R12.rcc', os_, 'gate(i) for i in range(N)', 'one single-qubit gate per qubit')
        gl = repo.func(rel, 'global_rcc')
        gates = [c for c in ast.walk(gl.node) if isinstance(c, ast.Call) and isinstance(c.func, ast.Attribute) and c.func.attr == 'gate']
        run.check(len(gates) == 1 and [norm(a).replace(' ', '') for a in gates[0].args] == ['*range(N)'], 'R12.rcc', gl, 'gate(*range(N))', 'one gate on all qubits')
    entries = []
    for rel in (K.PY_S, K.TC_S):
        entries += [repo.func(rel, q) for q in ('random_pauli_map', 'random_clifford_map', 'random_pauli_state', 'random_clifford_state')]
    for rel in (K.PY_C, K.TC_C):
        entries += [repo.func(rel, q) for q in ('brickwall_rcc', 'onsite_rcc', 'global_rcc')]
    resolve.check_cone(run, repo, entries, 'random')
    run.floor('R15', 14)
    run.floor('R3a', 8)
    run.floor('R8.flip', 3)
    run.floor('R11.gate.random', 8)
    run.floor('R13.sampler', 9)
    run.floor('R10.undo', 4)
    run.floor('R16', 3)
    run.floor('R12.rcc', 8)
    run.floor('R9.block', 1)
    run.floor('R11.coin', 3)
    run.floor('R7.mirror', 6)
    run.decide('fair draw sites, 2*bit signs, commutation-flip normal form, sampler structure with live un-rotation, fresh random map '
               'per call and never cached, rcc gate patterns')
    run.decline('validity of sampled tables by construction and uniformity over the Clifford group (distributional facts); '
                'torch batched random_pair resampling rule')
