"""C16 Random Cliffords are valid and uniformly distributed -- decided only for the clauses below."""
import ast
import itertools

from ..exprnf import ev, Undecidable, affine_in
from ..flow import walk
from ..model import norm
from ..rules import resolve, rngsites, kinds, live, pair
from . import common as K
from . import circ

EXPLANATION = ('every random draw feeding a string bit, sign, coin or selector is uniform on {0,1} (or the literal [0,2]); signs are '
               '2*bit; the commutation-flip of random_pair is an expression normal form that provably flips the anticommutation bit '
               'at a nontrivial site; the recursive sampler writes the diagonalised pair into rows 0,1, recurses on the [2:,2:] block '
               'and undoes the generators in reverse with a live result; gates without maps draw a fresh random_clifford_map(self.n) '
               'on every path and never store it; the rcc constructors add map-less gates on the documented qubit patterns.  Validity '
               'by construction and uniformity are distributional facts and are not decided')
TRUSTED = ['CPython ast', 'oracle.py', 'effects.py (purity of the signless rotation kernel)', 'numpy/torch randint semantics']


def _acq_zero_guard(test):
    """(a, b, polarity ok) when `test` depends on acq(a, b) with a, b plain names (polarity ok: it holds exactly for acq == 0)."""
    calls = [c for c in ast.walk(test) if isinstance(c, ast.Call) and norm(c.func) == 'acq' and len(c.args) == 2
             and all(isinstance(x, ast.Name) for x in c.args)]
    if len(calls) != 1:
        return None
    try:
        vals = []
        for a in (0, 1):
            def call(n, env, rec, a=a):
                if norm(n.func) == 'acq':
                    return a
                raise Undecidable('call')
            vals.append(bool(ev(test, {}, call=call)))
    except Undecidable:
        return None
    return calls[0].args[0].id, calls[0].args[1].id, vals == [True, False]


def _slot(index, var):
    """'x' / 'z' for an index 2*var (+1), or the constants 0 / 1 when the string has one qubit (var None)."""
    if var is None:
        return {0: 'x', 1: 'z'}.get(index.value) if isinstance(index, ast.Constant) else None
    return {(2, 0): 'x', (2, 1): 'z'}.get(affine_in(index, var))


def flip_sites(f):
    """Every group of stores into slots of a string b that can only run when acq(a, b) == 0 (an `if` on that test, or the code
    after a guard clause that returns when the pair already anticommutes):
    (a, b, site variable or None, {slot: (stmt, value)}, guard test, polarity ok)."""
    groups = {}
    for st, ctx in walk(f.node):
        if isinstance(st, ast.AugAssign) and isinstance(st.target, ast.Subscript) and isinstance(st.target.value, ast.Name):
            # x[i] op= e is x[i] = x[i] op e (bits combined with ^ instead of + ... % 2)
            import copy as _copy
            ld = _copy.deepcopy(st.target)
            ld.ctx = ast.Load()
            st = ast.copy_location(ast.Assign(targets=[st.target], value=ast.BinOp(left=ld, op=st.op, right=st.value)), st)
        if not (isinstance(st, ast.Assign) and isinstance(st.targets[0], ast.Subscript) and isinstance(st.targets[0].value, ast.Name)):
            continue
        b = st.targets[0].value.id
        for t, pol in ctx.conds:
            ab = _acq_zero_guard(t)
            if ab is None or ab[1] != b:
                continue
            # the statement runs when (t, pol) holds: exactly for commuting pairs iff the test's own polarity agrees
            good = ab[2] if pol else _acq_zero_guard(ast.UnaryOp(op=ast.Not(), operand=t))[2]
            groups.setdefault((ab[0], b, id(t)), [t, good, []])[2].append(st)
    out = []
    for (g1, g2, _), (test, good, stores) in groups.items():
        names = {n.id for s in stores for n in ast.walk(s.targets[0].slice) if isinstance(n, ast.Name)}
        if len(names) > 1:
            out.append((g1, g2, None, None, _T(test), good))
            continue
        var = sorted(names)[0] if names else None
        ups = {}
        for s in stores:
            sl = _slot(s.targets[0].slice, var)
            if sl:
                ups[sl] = (s, s.value)
        out.append((g1, g2, var, ups, _T(test), good))
    return out


class _T:
    """A guard as the rules report it (.test is the expression)."""
    def __init__(self, test):
        self.test = test


def flip_normal_form(run, f, loop_form):
    """random_pair / impose_leading_noncommutivity (and any other block guarded by acq(a, b) == 0): the update of the second
    string at the first nontrivial site of the first flips their anticommutation bit."""
    from .. import oracle
    if loop_form:
        sites = flip_sites(f)
        for g1, g2, var, ups, guard, pol_ok in sites:
            run.check(pol_ok, 'R8.flip', f, guard.test, 'only a commuting pair may be modified: the block that changes %s must run exactly when acq(%s, %s) == 0' % (g2, g1, g2))
            if ups is None or set(ups) != {'x', 'z'}:
                run.undecided('R8.flip', f, guard.test, 'the two slot updates of the second string were not recognised (%s)' % (sorted(ups) if ups else None))
                continue
            order = sorted(ups, key=lambda s: ups[s][0].lineno)
            bad = None
            try:
                for x1, z1, x2, z2 in itertools.product((0, 1), repeat=4):
                    b = {(g1, 'x'): x1, (g1, 'z'): z1, (g2, 'x'): x2, (g2, 'z'): z2}

                    def sub(n, env, rec, b=b):
                        sl = _slot(n.slice, var)
                        if sl is None or norm(n.value) not in (g1, g2):
                            raise Undecidable('subscript ' + norm(n))
                        return b[(norm(n.value), sl)]
                    for slot in order:      # sequential semantics: the later update reads the already-updated slot
                        b[(g2, slot)] = ev(ups[slot][1], {}, sub=sub)
                    nx2, nz2 = b[(g2, 'x')], b[(g2, 'z')]
                    if nx2 not in (0, 1) or nz2 not in (0, 1):
                        bad = ((x1, z1, x2, z2), 'entries leave {0,1}')
                        break
                    if (x1, z1) != (0, 0) and oracle.site_acq(x1, z1, x2, z2) == oracle.site_acq(x1, z1, nx2, nz2):
                        bad = ((x1, z1, x2, z2), 'the anticommutation bit at the pivot site is not flipped')
                        break
            except Undecidable as e:
                run.undecided('R8.flip', f, guard.test, str(e))
                continue
            run.check(bad is None, 'R8.flip', f, norm(ups['x'][0]) + ' ; ' + norm(ups['z'][0]),
                      'a commuting pair must be turned into an anticommuting one by changing %s at the first nontrivial site of %s: '
                      '(x1, z1, x2, z2) = %s' % (g2, g1, bad))
        return len(sites)
    ups = {}
    g1, g2 = f.posparams[0], f.posparams[1]
    for st, ctx in walk(f.node):
        if isinstance(st, ast.Assign) and isinstance(st.value, ast.Call) and isinstance(st.value.func, ast.Attribute) \
                and st.value.func.attr == 'scatter' and norm(st.value.func.value) == g2 and len(st.value.args) == 3:
            ab = affine_in(st.value.args[1], 'i')
            slot = {(2, 0): 'x', (2, 1): 'z'}.get(ab)
            if slot:
                ups[slot] = (st, st.value.args[2], ctx)
    if set(ups) != {'x', 'z'}:
        run.undecided('R8.flip', f, f.name, 'the two slot updates of the second string were not recognised (%s)' % sorted(ups))
        return 0
    order = sorted(ups, key=lambda s: ups[s][0].lineno)
    bad = None
    for x1, z1, x2, z2 in itertools.product((0, 1), repeat=4):
        b = {(g1, 'x'): x1, (g1, 'z'): z1, (g2, 'x'): x2, (g2, 'z'): z2}
        try:
            for slot in order:
                def call(n, env, rec, b=b):
                    fn = norm(n.func)
                    if fn == 'torch.gather' and len(n.args) == 3:
                        ab = affine_in(n.args[2], 'i')
                        sl = {(2, 0): 'x', (2, 1): 'z'}.get(ab)
                        if sl is None:
                            raise Undecidable('gather index')
                        return b[(norm(n.args[0]), sl)]
                    raise Undecidable('call ' + fn)
                b[(g2, slot)] = ev(ups[slot][1], {'mask': 1}, call=call)
        except Undecidable as e:
            run.undecided('R8.flip', f, f.name, str(e))
            return 0
        nx2, nz2 = b[(g2, 'x')], b[(g2, 'z')]
        if nx2 not in (0, 1) or nz2 not in (0, 1):
            bad = ((x1, z1, x2, z2), 'entries leave {0,1}')
            break
        if (x1, z1) != (0, 0) and oracle.site_acq(x1, z1, x2, z2) == oracle.site_acq(x1, z1, nx2, nz2):
            bad = ((x1, z1, x2, z2), 'the anticommutation bit at the pivot site is not flipped')
            break
    run.check(bad is None, 'R8.flip', f, norm(ups['x'][0]) + ' ; ' + norm(ups['z'][0]),
              'a commuting pair must be turned into an anticommuting one by changing g2 at the first nontrivial site of g1: %s' % (bad,))
    return 1


def sampler(run, repo, f):
    """random_clifford.random_clifford_ : rows 0,1 <- diagonalised pair; recursion on gs[2:,2:]; undo in reverse."""
    if not [c for c in ast.walk(f.node) if isinstance(c, ast.Call) and norm(c.func) == f.name]:
        # no recursive call: the sampler was rewritten (e.g. iteratively); the clauses below describe the recursive form only
        run.undecided('R13.sampler', f, f.name, 'the sampler is not recursive: its structure is not read by this rule')
        return
    stores = {}
    for st, ctx in walk(f.node):
        if isinstance(st, ast.Assign) and isinstance(st.targets[0], ast.Subscript) and norm(st.targets[0].value) == 'gs' \
                and isinstance(st.targets[0].slice, ast.Constant):
            stores.setdefault(st.targets[0].slice.value, set()).add(norm(st.value))
    run.check(stores.get(0) == {'g1'} and stores.get(1) == {'g2'}, 'R13.sampler', f, 'gs[0] = g1; gs[1] = g2',
              'the sampled pair occupies rows 0 (X image) and 1 (Z image) of the block (found %s)' % stores)
    rec = [c for c in ast.walk(f.node) if isinstance(c, ast.Call) and norm(c.func) == f.name]
    run.check(len(rec) == 1 and norm(rec[0].args[0]).replace(' ', '') == 'gs[2:,2:]', 'R13.sampler', f, 'recursion', 'the remaining qubits are sampled in the [2:, 2:] block')
    loops = [st for st, _ in walk(f.node) if isinstance(st, ast.For)]
    ok = len(loops) == 1 and norm(loops[0].iter).replace(' ', '') == 'reversed(gens)'
    run.check(ok, 'R10.undo', f, 'for g in reversed(gens)', 'the diagonalising rotations are undone in reverse order')
    pd = [st for st, _ in walk(f.node) if isinstance(st, ast.Assign) and isinstance(st.value, ast.Call) and norm(st.value.func) == 'pauli_diagonalize2']
    run.check(len(pd) == 1 and [norm(e) for e in pd[0].targets[0].elts] == ['gens', 'g1', 'g2'], 'R13.sampler', f, 'gens, g1, g2 = pauli_diagonalize2(g1, g2)',
              'the pair is diagonalised and the generators kept for the undo')
    if loops:
        body = loops[0].body
        calls = [c for s in body for c in ast.walk(s) if isinstance(c, ast.Call) and norm(c.func) == 'clifford_rotate_signless']
        lt = loops[0].target.id if isinstance(loops[0].target, ast.Name) else None
        if lt is None:
            run.undecided('R10.undo', f, loops[0].target, 'the undo loop does not run over single generators')
        run.check(lt is None or (len(calls) == 1 and [norm(a) for a in calls[0].args] == [lt, 'gs']), 'R10.undo', f, 'clifford_rotate_signless(g, gs)',
                  'each generator is applied to the whole block')
        # result must reach gs (in-place kernel: alias; functional kernel: stored back)
        st = body[0]
        tgt = norm(st.targets[0]) if isinstance(st, ast.Assign) else None
        callee = repo.resolve_local(f, 'clifford_rotate_signless')
        from ..rules.inout import stores_into
        from ..rules.inout import rebinds
        inplace = stores_into(callee, callee.posparams[1]) and not rebinds(callee, callee.posparams[1])
        run.check(inplace or tgt == 'gs[:]', 'R16', f, st, 'the un-rotated block must be kept: the kernel returns a new array, '
                  'which is bound to `%s`' % tgt)
    # the recursive call hands a view of the table to this function and discards the result, so everything must be written
    # into the parameter object itself: the parameter may only be rebound to (a must-alias of) itself
    p0 = f.posparams[0]
    from ..rules.inout import stores_into, rebinds
    for st, ctx in walk(f.node):
        if not (isinstance(st, ast.Assign) and any(isinstance(t, ast.Name) and t.id == p0 for t in st.targets)):
            continue
        v = st.value
        ok = isinstance(v, ast.Name) and v.id == p0
        if isinstance(v, ast.Call):
            fn = norm(v.func)
            callee = repo.resolve_local(f, fn) if isinstance(v.func, ast.Name) else None
            if callee is not None:
                for k, a in enumerate(v.args):
                    if isinstance(a, ast.Name) and a.id == p0 and k < len(callee.posparams):
                        q = callee.posparams[k]
                        ok = ok or (stores_into(callee, q) and not rebinds(callee, q))
            elif fn.split('.')[-1] in ('asarray', 'asanyarray') and len(v.args) == 1 and not v.keywords and norm(v.args[0]) == p0:
                ok = True
        run.check(ok, 'R16', f, st, 'the block `%s` is filled in place for the caller (the recursive call passes the view %s[2:, 2:] and drops the '
                  'result); rebinding it to %s makes the following writes go to a private array whenever that expression copies '
                  '(a non-contiguous view always is copied)' % (p0, p0, norm(v)[:60]))


def flip_everywhere(run, repo):
    """R8.flip at every block of the sampling kernels that repairs a commuting pair (random_pair today; an inlined copy
    elsewhere is held to the same normal form)."""
    n = 0
    for q, f in sorted(repo.modules[K.PY_U].funcs.items()):
        n += flip_normal_form(run, f, True)
    if not n:
        run.undecided('R8.flip', repo.func(K.PY_U, 'random_pair'), 'random_pair', 'no block guarded by acq(g1, g2) == 0 found')
    flip_normal_form(run, repo.func(K.TC_U, 'impose_leading_noncommutivity'), False)


def rcc_gates(cf):
    """Qubit tuples of the gate(...) calls made by a random-circuit constructor, executed with N = 4 and depth = 3."""
    from .. import mini
    got = []

    def call(nd, env, rec):
        fn = nd.func
        if isinstance(fn, ast.Name) and fn.id == 'identity_circuit':
            return 'CIRC'
        if isinstance(fn, ast.Attribute) and fn.attr == 'gate':
            args = []
            for a in nd.args:
                if isinstance(a, ast.Starred):
                    args.extend(rec(a.value))
                else:
                    args.append(rec(a))
            got.append(tuple(args))
            return 'CIRC'
        raise Undecidable('call ' + norm(fn))

    def on_expr(e, env, value):
        value(e)
    env = {}
    for p_ in cf.posparams + cf.kwonly:
        env[p_] = {'N': 4, 'depth': 3}.get(p_, 'P_' + p_)
    try:
        mini.execute(cf.node, env, call=call, on_expr=on_expr)
    except Undecidable:
        return None
    return got


def pauli_blocks(run, repo):
    """random_pauli: rows 2i, 2i+1 of the table receive the pair returned by random_pair(1) on columns 2i:2i+2."""
    rpf = repo.func(K.PY_U, 'random_pauli')
    from ..names import single_def
    got, pair_src = {}, {}
    for st, ctx in walk(rpf.node):
        if isinstance(st, ast.Assign) and isinstance(st.targets[0], ast.Tuple) and isinstance(st.value, ast.Call) \
                and norm(st.value.func) == 'random_pair' and len(st.targets[0].elts) == 2 and ctx.loops:
            for k, e in enumerate(st.targets[0].elts):
                if isinstance(e, ast.Name):
                    pair_src[e.id] = k
        if isinstance(st, ast.Assign) and isinstance(st.targets[0], ast.Subscript) and isinstance(st.targets[0].value, ast.Name) \
                and st.targets[0].value.id in set(x for x in __import__('pcverif.names', fromlist=['x']).return_names(rpf) if x) \
                and isinstance(st.targets[0].slice, ast.Tuple) and len(st.targets[0].slice.elts) == 2 and ctx.loops:
            i = ctx.loops[-1].target.id
            r, c = st.targets[0].slice.elts
            if isinstance(c, ast.Slice) and c.lower is not None and c.upper is not None and isinstance(st.value, ast.Name):
                got[pair_src.get(st.value.id, st.value.id)] = (affine_in(r, i), affine_in(c.lower, i), affine_in(c.upper, i))
    if not pair_src:
        run.undecided('R13.sampler', rpf, 'blocks', 'no `a, b = random_pair(1)` inside the loop over the qubits: the block construction is not in a shape this rule reads')
        return
    run.check(got == {0: ((2, 0), (2, 0), (2, 2)), 1: ((2, 1), (2, 0), (2, 2))}, 'R13.sampler', rpf, 'blocks',
              'a random Pauli map is block diagonal: rows 2i, 2i+1 hold the anticommuting pair returned by random_pair(1) on columns 2i:2i+2 (found %s)' % got)


def check(run):
    repo = run.repo
    # a compiled layer holds every one of its gates (a gate passed over would act as the identity: a map-less gate must make compile fail)
    from . import circ as _circ
    for pkg_ in ('pyclifford', 'torchclifford'):
        _circ.layer_compile(run, repo.cls(pkg_, 'CliffordLayer').methods['compile'])
    eff = K.effects_of(repo)
    n = 0
    for rel, names in ((K.PY_U, ['random_pair', 'random_pauli', 'random_clifford', 'stabilizer_measure']),
                       (K.TC_U, ['random_pair', 'random_pauli', 'random_clifford', 'stabilizer_measure']),
                       (K.PY_S, ['random_pauli_map', 'random_clifford_map', 'random_bit_state_gs_ps', 'StabilizerState.sample']),
                       (K.TC_S, ['random_pauli_map', 'random_clifford_map', 'StabilizerState.sample'])):
        for q in names:
            f = repo.func(rel, q)
            n += rngsites.check_function(run, f)
            rngsites.check_fresh_per_iteration(run, f)
    for rel in (K.PY_S, K.TC_S):
        for q in ('random_pauli_map', 'random_clifford_map'):
            f = repo.func(rel, q)
            kinds.check_function(run, repo, f)
            src = {norm(st.targets[0]): norm(st.value).replace(' ', '') for st, _ in walk(f.node) if isinstance(st, ast.Assign)}
            want = q.replace('_map', '')
            run.check(src.get('gs', '').startswith(want + '(N'), 'R2.random', f, 'gs = %s(N)' % want, 'the table of %s comes from %s(N) (found %s)' % (q, want, src.get('gs')))
            psd = [st.value for st, _ in walk(f.node) if isinstance(st, ast.Assign) and norm(st.targets[0]) == 'ps']
            run.check(len(psd) == 1 and kinds.kind_of(f, psd[0]) == 'HERM', 'R3a', f, 'ps = 2*bit', 'random signs are 2*(fair bit)')
    kinds.check_function(run, repo, repo.func(K.PY_S, 'random_bit_state_gs_ps'))
    # random_pair
    flip_everywhere(run, repo)
    rp = repo.func(K.PY_U, 'random_pair')
    wh = [st for st, _ in walk(rp.node) if isinstance(st, ast.While)]
    from ..names import allzero_polarity, return_names
    first = (return_names(rp) or ['g1'])[0] or 'g1'
    pol = allzero_polarity(wh[0].test, first) if len(wh) == 1 else None
    if len(wh) == 1 and pol is None:
        run.undecided('R11.resample', rp, wh[0].test, 'the resampling test is not in a form this rule reads')
    else:
        run.check(len(wh) == 1 and pol is True, 'R11.resample', rp, 'while (g1 == 0).all()', 'the identity string is rejected and g1 resampled (the loop must run exactly while the first string is all zero)')
    # the batched sampler of the port draws L strings at once: every ROW that is all zero must be redrawn, not only a batch in
    # which all rows vanish (a test that reduces over the whole batch lets single identity strings through)
    from ..names import batched_resample_keeps_going
    trp = repo.func(K.TC_U, 'random_pair')
    twh = [(st, ctx) for st, ctx in walk(trp.node) if isinstance(st, ast.While)]
    tfirst = None
    for st, _ in walk(trp.node):
        if isinstance(st, ast.Assign) and isinstance(st.targets[0], ast.Tuple) and isinstance(st.value, ast.Tuple) and st.targets[0].elts \
                and isinstance(st.targets[0].elts[0], ast.Name) and 'randint' in norm(st.value.elts[0]):
            tfirst = st.targets[0].elts[0].id
    if len(twh) == 1 and tfirst:
        keeps = batched_resample_keeps_going(trp, twh[0][0].test, tfirst, ctx=twh[0][1])
        if keeps is None:
            run.undecided('R11.resample', trp, twh[0][0].test, 'the batched resampling test is not in a form this rule reads')
        else:
            run.check(keeps, 'R11.resample', trp, twh[0][0].test, 'the strings are drawn in a batch of L rows: the loop stops as soon as ONE row is '
                      'non-zero, so a row that is still the identity string is kept (its partner cannot be made to anticommute with it, '
                      'and random_pauli returns a map that is not invertible)')
        # every row that is redrawn gets its own draw: a single fresh row broadcast into all rejected rows makes them equal
        from ..names import inlined as _inl
        def _lead(c):
            shp = [a for a in c.args if isinstance(a, (ast.Tuple, ast.List))] + [k.value for k in c.keywords if k.arg == 'size' and isinstance(k.value, (ast.Tuple, ast.List))]
            return shp[0].elts[0] if shp and shp[0].elts else None
        first_draw = [c for st, _ in walk(trp.node) if not any(st is x for x in ast.walk(twh[0][0])) for c in ast.walk(st)
                      if isinstance(c, ast.Call) and norm(c.func).split('.')[-1] in ('randint', 'rand', 'randn', 'bernoulli')]
        batch_const = bool(first_draw) and all(_lead(c) is not None and isinstance(_lead(c), ast.Constant) for c in first_draw)
        for st2 in ast.walk(twh[0][0]):
            if isinstance(st2, ast.Assign) and any(isinstance(x, ast.Name) and x.id == tfirst for t in st2.targets for x in ast.walk(t)):
                for c in ast.walk(_inl(trp, st2.value)):
                    if isinstance(c, ast.Call) and norm(c.func).split('.')[-1] in ('randint', 'rand', 'randn', 'bernoulli'):
                        ld = _lead(c)
                        if ld is None:
                            run.undecided('R15.rows', trp, st2, 'shape of the fresh draw not readable')
                        else:
                            run.check(batch_const or not isinstance(ld, ast.Constant), 'R15.rows', trp, st2, 'the rejected rows are replaced by a draw of %s row(s) broadcast '
                                      'into all of them: strings of one batch are then equal instead of independent' % norm(ld))
    else:
        run.undecided('R11.resample', trp, 'random_pair', 'batched draw / resampling loop of the port not found')
    fr = [st for st, _ in walk(rp.node) if isinstance(st, ast.Assign) and norm(st.value).replace(' ', '') == 'front(%s)' % first]
    run.check(len(fr) == 1, 'R11.resample', rp, 'i = front(g1)', 'the flip acts at the first nontrivial site of g1')
    ft = repo.func(K.PY_U, 'front')
    conds = [norm(st.test).replace(' ', '') for st, _ in walk(ft.node) if isinstance(st, ast.If)]
    run.check(conds == ['g[2*i]!=0org[2*i+1]!=0'], 'R11.resample', ft, 'front', 'front returns the first site with x != 0 or z != 0 (found %s)' % conds)
    # the measurement coin: fair, written at the new stabilizer after its relocation, paired with log2prob
    from . import projk
    fm, km = projk.guards_and_block(run, repo, K.PY_U, 'stabilizer_measure', signed=True)
    projk.coin_and_probability(run, fm, km)
    # the diagonalisation used by the sampler mirrors every emitted generator on both tracked strings
    from .C18 import diag_kernel, pivot_update
    for rel in (K.PY_U, K.TC_U):
        diag_kernel(run, repo.func(rel, 'pauli_diagonalize2'), ['g1', 'g2'])
        pivot_update(run, repo.func(rel, 'pauli_diagonalize2'))
    # samplers
    for rel in (K.PY_U, K.TC_U):
        f = repo.func(rel, 'random_clifford.random_clifford_')
        sampler(run, repo, f)
        live.check_function(run, repo, eff, f)
        rc = repo.func(rel, 'random_clifford')
        rets = [norm(st.value).replace(' ', '') for st, _ in walk(rc.node) if isinstance(st, ast.Return)]
        run.check(len(rets) == 1 and rets[0].startswith('random_clifford_(') and 'zeros((2*N,2*N)' in rets[0], 'R13.sampler', rc, 'start', 'sampling starts from an empty 2N x 2N table')
        rpf = repo.func(rel, 'random_pauli')
        live.check_function(run, repo, eff, rpf)
    pauli_blocks(run, repo)
    # gates without maps resample at every call
    for pkg in ('pyclifford', 'torchclifford'):
        gate = repo.cls(pkg, 'CliffordGate')
        circ.gate_dispatch(run, gate.methods['forward'], 'forward')
        circ.gate_dispatch(run, gate.methods['backward'], 'backward')
    # rcc constructors
    for rel in (K.PY_C, K.TC_C):
        # the constructors are executed by the checker's interpreter for N = 4 (and depth 3): the list of gate() calls is compared
        want = {'brickwall_rcc': [(0, 1), (2, 3), (1, 2), (3, 0), (0, 1), (2, 3)], 'onsite_rcc': [(0,), (1,), (2,), (3,)], 'global_rcc': [(0, 1, 2, 3)]}
        what = {'brickwall_rcc': 'layers alternate between even and odd bonds and every gate acts on neighbours (i, (i+1) % N)',
                'onsite_rcc': 'one single-qubit gate per qubit', 'global_rcc': 'one gate on all qubits'}
        for q in ('brickwall_rcc', 'onsite_rcc', 'global_rcc'):
            cf = repo.func(rel, q)
            got = rcc_gates(cf)
            if got is None:
                run.undecided('R12.rcc', cf, q, 'constructor not interpretable')
                continue
            run.check(got == want[q], 'R12.rcc', cf, q, '%s (gate calls for N = 4%s: %s)' % (what[q], ', depth 3' if q == 'brickwall_rcc' else '', got))
            run.ok('R12.rcc', cf, q + ' map-less gates', 'gates are added through circ.gate(...)')
    entries = []
    for rel in (K.PY_S, K.TC_S):
        entries += [repo.func(rel, q) for q in ('random_pauli_map', 'random_clifford_map', 'random_pauli_state', 'random_clifford_state')]
    for rel in (K.PY_C, K.TC_C):
        entries += [repo.func(rel, q) for q in ('brickwall_rcc', 'onsite_rcc', 'global_rcc')]
    resolve.check_cone(run, repo, entries, 'random')
    run.floor('R15', 14)
    run.floor('R3a', 8)
    run.floor('R8.flip', 3)
    run.floor('R11.gate.random', 16)
    run.floor('R13.sampler', 9)
    run.floor('R10.undo', 4)
    run.floor('R16', 3)
    run.floor('R12.rcc', 8)
    run.floor('R9.block', 1)
    run.floor('R11.coin', 3)
    run.floor('R7.mirror', 6)
    run.floor('R8.pivot', 2)
    run.floor('R15.rows', 1)
    run.decide('fair draw sites, 2*bit signs, commutation-flip normal form, sampler structure with live un-rotation, fresh random map '
               'per call and never cached, rcc gate patterns')
    run.decline('validity of sampled tables by construction and uniformity over the Clifford group (distributional facts); '
                'torch batched random_pair resampling rule')
