"""C14 Mid-circuit measurement and post-selection follow the quantum trajectory -- structural clauses."""
import ast

from ..exprnf import ev, Undecidable, affine_in
from ..flow import walk
from ..model import norm
from ..rules import resolve, bind, inout, circuitrules as CR, guards, kinds
from . import common as K
from . import projk

EXPLANATION = ('MeasureLayer.forward hands (obj.gs, obj.ps, Z rows, zero phases, obj.r) to the measurement kernel and stores gs, ps '
               'and r back, records (-1)^out and log2prob; the Z observable of qubit q is the z slot 2q+1; gates never slide across '
               'a measurement layer (entailment of the take guards); Circuit.forward walks ascending and accumulates record and '
               'log2prob in the measurement branch; Circuit.backward walks descending, slices the record per layer, raises on a '
               'missing / mis-sized record; MeasureLayer.backward post-selects Z on each qubit in reverse with bit (1-m)/2 and '
               'raises on probability 0; postselect requires a pure state, passes (2*bit + sign of the operator) mod 4 and '
               'stores the projected tableau; the post-selection kernel has layout-true guards, halves / zeroes the '
               'probability and writes nothing when the outcome is determined.  Born probability values are not decided')
TRUSTED = ['CPython ast', 'layout docstring', 'C05/C06 (measurement kernel)', 'entailment helper']


def sign_map(expr, var_hook):
    out = {}
    for m in (1, -1):
        out[m] = ev(expr, {}, sub=var_hook(m), call=lambda n, env, rec: int(rec(n.args[0])) if norm(n.func) == 'int' else (_ for _ in ()).throw(Undecidable('call')))
    return out


def _tail_or_pointer(f, upper, ptr, ctx=None):
    """The upper bound (temporaries read through) is None when `ptr` is 0 and `ptr` otherwise."""
    from ..names import inlined
    if upper is None:
        return False
    e = inlined(f, upper, ctx=ctx)
    try:
        return ev(e, {ptr: 0}) is None and ev(e, {ptr: 3}) == 3 and ev(e, {ptr: -2}) == -2
    except Undecidable:
        return False


def postselect_site(run, repo):
    """StabilizerState.postselect: pure-state guard, kernel arguments, requested phase (2*outcome + operator phase) mod 4, result."""
    ps = repo.func(K.PY_S, 'StabilizerState.postselect')
    raises = [st for st, ctx in walk(ps.node) if isinstance(st, ast.Raise) and any('self.r' in norm(t) for t, _ in ctx.conds)]
    run.check(bool(raises), 'R11.pure', ps, 'self.r != 0', 'post-selection is defined for pure states only: mixed states must raise')
    inout.check_function(run, repo, ps, {'stabilizer_postselection'})
    P, R = ps.posparams[1], ps.posparams[2]
    for c, t, h in repo.callees(ps):
        if h == 'name' and t[0].name == 'stabilizer_postselection':
            a = K.actuals(t[0], c)
            run.check([norm(x) for x in a[:3]] == ['self.gs', 'self.ps', '%s.g' % P], 'R2.postselect', ps, c, 'kernel arguments (self.gs, self.ps, operator string, requested phase)')
            try:
                ok = True
                for res in (0, 1):
                    for p in (0, 2):
                        def attr(n, env, rec, p=p):
                            if norm(n) == '%s.p' % P:
                                return p
                            raise Undecidable('attr')
                        def call(n, env, rec):
                            if norm(n.func) == 'int':
                                return int(rec(n.args[0]))
                            raise Undecidable('call')
                        if ev(a[3], {R: res}, attr=attr, call=call) != (2 * res + p) % 4:
                            ok = False
                run.check(ok, 'R6.sign', ps, c, 'the requested stabilizer phase must be (2*outcome + phase of the operator) mod 4: post-selecting -Z '
                          'with outcome +1 is post-selecting Z with outcome -1')
            except Undecidable:
                run.violation('R6.sign', ps, c, 'the requested phase %s does not depend on the sign %s.p of the post-selected operator' % (norm(a[3]), P))
    rets = [norm(st.value) for st, _ in walk(ps.node) if isinstance(st, ast.Return)]
    kp = [norm(st.targets[0].elts[-1]) for st, _ in walk(ps.node) if isinstance(st, ast.Assign) and isinstance(st.value, ast.Call)
          and norm(st.value.func) == 'stabilizer_postselection' and isinstance(st.targets[0], ast.Tuple)]
    run.check(len(kp) == 1 and rets == kp, 'R2.postselect', ps, 'return prob', 'postselect returns the probability computed by the kernel')
    return ps


def check(run):
    repo = run.repo
    ml = repo.cls('pyclifford', 'MeasureLayer')
    # ---- forward
    f = ml.methods['forward']
    inout.check_function(run, repo, f, {'stabilizer_measure'})
    bind.check_function_calls(run, repo, f, only={'stabilizer_measure'})
    bind.check_unpacks(run, repo, f)
    obj = f.posparams[1]
    for c, t, h in repo.callees(f):
        if h == 'name' and t[0].name == 'stabilizer_measure':
            run.check(K.actual_texts(t[0], c) == ['%s.gs' % obj, '%s.ps' % obj, 'self.gs', 'self.ps', '%s.r' % obj],
                      'R2.mlayer', f, c, 'the layer must measure its own Z rows on the state: (obj.gs, obj.ps, self.gs, self.ps, obj.r)')
    out_var = lp_var = None
    for st, _ in walk(f.node):
        if isinstance(st, ast.Assign) and isinstance(st.value, ast.Call) and norm(st.value.func) == 'stabilizer_measure' \
                and isinstance(st.targets[0], ast.Tuple) and len(st.targets[0].elts) == 5:
            out_var, lp_var = norm(st.targets[0].elts[3]), norm(st.targets[0].elts[4])
    for st, _ in walk(f.node):
        if isinstance(st, ast.Assign) and norm(st.targets[0]) == 'self.result':
            try:
                vals = [ev(st.value, {out_var: b}) for b in (0, 1)]
                run.check(vals == [1, -1], 'R3.sign', f, st, 'recorded outcome must be (-1)**out: out=0 -> +1, out=1 -> -1 (found %s)' % vals)
            except Undecidable as e:
                run.undecided('R3.sign', f, st, str(e))
        if isinstance(st, ast.Assign) and norm(st.targets[0]) == 'self.log2prob':
            run.check(norm(st.value) == lp_var, 'R2.mlayer', f, st, 'the layer must record the log2-probability returned by the kernel')
    raises = [st for st, ctx in walk(f.node) if isinstance(st, ast.Raise) and any('isinstance' in norm(t) for t, _ in ctx.conds)]
    run.check(bool(raises), 'R11.state', f, 'isinstance(obj, StabilizerState)', 'a measurement layer only acts on stabilizer states')
    # ---- observable table
    g = ml.methods['obs_gs_ps']
    kinds.check_function(run, repo, g)
    masks = [c for c in ast.walk(g.node) if isinstance(c, ast.Call) and norm(c.func) == 'mask']
    if masks:
        run.violation('R12.zobs', g, masks[0], 'the observables are selected with a boolean mask, which returns them in ascending qubit order: the recorded '
                      'outcomes are attributed to self.qubits in the caller\'s order, so measure(2, 0) would swap them')
    stores = [st for st, ctx in walk(g.node) if isinstance(st, ast.Assign) and isinstance(st.targets[0], ast.Subscript)
              and isinstance(st.targets[0].slice, ast.Tuple) and ctx.loops]
    if len(stores) != 1:
        run.undecided('R12.zobs', g, 'obs_gs_ps', 'expected one store gs[i, 2*q+1] = 1')
    else:
        st = stores[0]
        row, col = st.targets[0].slice.elts
        lp = [c for s, c in walk(g.node) if s is st][0].loops[-1]
        if not isinstance(lp.target, ast.Name):
            run.undecided('R12.zobs', g, lp.target, 'loop over the measured qubits is not an index loop')
            lp = None
        i = lp.target.id if lp is not None else '?'
        # column as a function of the qubit index self.qubits[i]
        ok = None
        try:
            vals = []
            for q in (0, 1, 4):
                def sub(n, env, rec, q=q):
                    if norm(n.value) == 'self.qubits' and norm(n.slice) == i:
                        return q
                    raise Undecidable('sub')
                vals.append(ev(col, {i: 0}, sub=sub))
            ok = vals == [1, 3, 9]
        except Undecidable:
            ok = None
        if ok is None:
            run.undecided('R12.zobs', g, st, 'column index not evaluable')
        else:
            run.check(ok, 'R12.zobs', g, st, 'the Z observable of qubit q sets the z slot 2q+1 (found columns %s for q=0,1,4)' % vals)
        run.check(norm(row) == i and isinstance(st.value, ast.Constant) and st.value.value == 1, 'R12.zobs', g, st,
                  'row i of the observable table belongs to the i-th measured qubit')
        if lp is not None:
            run.check(norm(lp.iter).replace(' ', '') == 'range(len(self.qubits))', 'R12.zobs', g, lp.iter, 'one observable per measured qubit, in order')
    # ---- no sliding across a measurement
    layer = repo.cls('pyclifford', 'CliffordLayer')
    CR.check_take(run, repo, layer.methods['take'], True)
    circ = repo.cls('pyclifford', 'Circuit')
    CR.check_take(run, repo, circ.methods['take'], True)
    CR.check_placement(run, circ.methods['take'])
    CR.check_linked_list(run, circ.methods['take'])
    tk = circ.methods['take']
    for st, ctx in walk(tk.node):
        if isinstance(st, ast.Assign) and norm(st.targets[0]) == 'self.unitary':
            ok, _ = guards.entails(ctx.conds, [('isinstance(%s, MeasureLayer)' % tk.posparams[1], True)])
            run.check(ok and isinstance(st.value, ast.Constant) and st.value.value is False, 'R11.unitary', tk, st,
                      'taking a measurement layer (and only that) makes the circuit non-unitary')
        if isinstance(st, ast.AugAssign) and norm(st.target) == 'self.num_of_measures':
            run.check(norm(st.value).replace(' ', '') == 'len(%s.qubits)' % tk.posparams[1] and isinstance(st.op, ast.Add), 'R11.unitary', tk, st,
                      'the number of recorded outcomes grows by the number of measured qubits')
    nflag = sum(1 for st, _ in walk(tk.node) if isinstance(st, ast.Assign) and norm(st.targets[0]) == 'self.unitary')
    ncnt = sum(1 for st, _ in walk(tk.node) if isinstance(st, ast.AugAssign) and norm(st.target) == 'self.num_of_measures')
    run.check(nflag == 1 and ncnt == 1, 'R11.unitary', tk, 'unitary / num_of_measures',
              'taking a measurement layer must clear the unitary flag and count its outcomes (found %d / %d updates)' % (nflag, ncnt))
    ms = circ.methods['measure']
    rets = [norm(st.value).replace(' ', '') for st, _ in walk(ms.node) if isinstance(st, ast.Return)]
    run.check(rets == ['self.take(MeasureLayer(*qubits,N=self.N))'], 'R11.unitary', ms, 'measure()', 'measure(*qubits) must take a MeasureLayer on those qubits (found %s)' % rets)
    CR.check_bound_raise(run, ms)
    # ---- Circuit.forward / backward
    dirs = CR.check_generators(run, repo, circ)
    fw, bw = circ.methods['forward'], circ.methods['backward']
    CR.check_application_order(run, fw, dirs, 'forward')
    CR.check_application_order(run, bw, dirs, 'backward')
    rec = [(st, ctx) for st, ctx in walk(fw.node) if isinstance(st, ast.AugAssign) and norm(st.target) in ('self.measure_result', 'self.log2prob')]
    seen = {}
    for st, ctx in rec:
        lpv = ctx.loops[-1].target.id if ctx.loops else None
        ok, _ = guards.entails(ctx.conds, [('isinstance(%s, MeasureLayer)' % lpv, True)])
        run.check(ok, 'R11.record', fw, st, 'outcomes and log2prob are accumulated for measurement layers only')
        seen[norm(st.target)] = (st, ctx)
        applied = [s for s in ctx.block[:ctx.index] if isinstance(s, ast.Expr) and norm(s.value).replace(' ', '') == '%s.forward(%s)' % (lpv, fw.posparams[1])]
        run.check(len(applied) == 1, 'R11.record', fw, st, 'the layer must be applied (once) before its record is read in the same branch')
    run.check(set(seen) == {'self.measure_result', 'self.log2prob'}, 'R11.record', fw, 'measure_result / log2prob',
              'both the outcome record and the log-probability must be accumulated (found %s)' % sorted(seen))
    if 'self.measure_result' in seen:
        st = seen['self.measure_result'][0]
        lpv = seen['self.measure_result'][1].loops[-1].target.id
        run.check(norm(st.value).replace(' ', '') in ('%s.result.tolist()' % lpv, 'list(%s.result)' % lpv), 'R11.record', fw, st,
                  'the record appends the layer\'s outcomes in order')
        run.check(seen['self.measure_result'][1].block is seen.get('self.log2prob', (None, seen['self.measure_result'][1]))[1].block, 'R11.record', fw, st,
                  'record and log2prob are updated in the same branch')
    if 'self.log2prob' in seen:
        st = seen['self.log2prob'][0]
        lpv = seen['self.log2prob'][1].loops[-1].target.id
        run.check(norm(st.value) == '%s.log2prob' % lpv and isinstance(st.op, ast.Add), 'R11.record', fw, st, 'log2prob adds the layer\'s log2prob')
    # backward: errors
    raises = [(st, ctx) for st, ctx in walk(bw.node) if isinstance(st, ast.Raise)]
    run.check(len(raises) >= 2, 'R11.record', bw, 'raise', 'a missing or mis-sized record must raise')
    mis = [1 for st, ctx in raises if any('num_of_measures' in norm(t) for t, _ in ctx.conds)]
    run.check(bool(mis), 'R11.record', bw, 'len(record) != num_of_measures', 'a record of the wrong length must raise')
    # slices handed to measurement layers: [new_pointer:] when pointer == 0 else [new_pointer:pointer]
    # pointer names by role: NEW = PTR - len(layer.qubits); PTR = NEW
    NEW = PTR = None
    for st, ctx in walk(bw.node):
        if isinstance(st, ast.Assign) and isinstance(st.targets[0], ast.Name) and isinstance(st.value, ast.BinOp) and isinstance(st.value.op, ast.Sub) \
                and isinstance(st.value.left, ast.Name) and 'len(' in norm(st.value.right):
            NEW, PTR = st.targets[0].id, st.value.left.id
    # the record accumulates over runs (forward appends), so slices must be taken relative to its END:
    # either PTR starts at 0 and the last layer takes [NEW:], the others [NEW:PTR] (negative offsets),
    # or PTR starts at len(record) and every layer takes [NEW:PTR]
    appends = any(isinstance(st, ast.AugAssign) and norm(st.target) == 'self.measure_result' for st, _ in walk(fw.node))
    resets = any(isinstance(st, ast.Assign) and norm(st.targets[0]) == 'self.measure_result' for st, _ in walk(fw.node))
    for st, ctx in walk(bw.node):
        for c in (ast.walk(st) if isinstance(st, ast.Expr) else []):
            if isinstance(c, ast.Call) and isinstance(c.func, ast.Attribute) and c.func.attr == 'backward' and c.keywords:
                kw = [k for k in c.keywords if k.arg == 'measure_result']
                if not kw or not isinstance(kw[0].value, ast.Subscript):
                    continue
                rec_expr = norm(kw[0].value.value)
                sl = kw[0].value.slice
                lo, up = norm(sl.lower) if sl.lower is not None else None, norm(sl.upper) if sl.upper is not None else None
                # initial value of the pointer on this path: last assignment PTR = <init> outside the layer loop under compatible conditions
                init = None
                for s2, c2 in walk(bw.node):
                    if isinstance(s2, ast.Assign) and norm(s2.targets[0]) == PTR and not c2.loops and s2.lineno < st.lineno:
                        init = s2.value
                ok0, _ = guards.entails(ctx.conds, [('%s == 0' % PTR, True)])
                ok1, _ = guards.entails(ctx.conds, [('%s == 0' % PTR, False)])
                init_zero = isinstance(init, ast.Constant) and init.value == 0
                init_len = init is not None and norm(init).replace(' ', '') == 'len(%s)' % rec_expr
                exact_len = rec_expr != 'self.measure_result' or (resets and not appends)
                if ok0:
                    run.check(lo == NEW and up is None and init_zero, 'R13.slice', bw, c, 'the last measurement layer consumes the tail [new_pointer:] of the record')
                elif ok1:
                    run.check(lo == NEW and up == PTR and init_zero, 'R13.slice', bw, c, 'an earlier measurement layer consumes [new_pointer:pointer] (offsets from the end)')
                elif _tail_or_pointer(bw, sl.upper, PTR, ctx) and lo == NEW:
                    # one slice whose upper bound is `pointer`, or None when pointer == 0: the two-branch form in one expression
                    run.check(init_zero, 'R13.slice', bw, c, 'offsets from the end: the pointer starts at 0 and the last layer consumes the tail of the record')
                else:
                    ok = lo == NEW and up == PTR and (init_len or (exact_len and init is not None and norm(init) == 'self.num_of_measures'))
                    run.check(ok, 'R13.slice', bw, c, 'a uniform slice [new_pointer:pointer] of %s must start from the END of the record (pointer = len(record)): '
                              'the record accumulates over forward runs, and with pointer = %s the slices address %s' % (
                                  rec_expr, norm(init) if init is not None else '?', 'an empty range' if init_zero else 'the oldest run'))
    for st, ctx in walk(bw.node):
        if isinstance(st, ast.Assign) and norm(st.targets[0]) == NEW:
            lpv = ctx.loops[-1].target.id
            run.check(norm(st.value).replace(' ', '') == '%s-len(%s.qubits)' % (PTR, lpv), 'R13.slice', bw, st, 'the pointer moves back by the number of qubits of the layer')
    # ---- MeasureLayer.backward
    b = ml.methods['backward']
    n_loops = 0
    for st, ctx in walk(b.node):
        if not isinstance(st, ast.For):
            continue
        n_loops += 1
        i = st.target.id
        # the post-selection call fixes the roles of the locals: X.postselect(pauli(CODES), BIT)
        pcall = None
        for s2 in st.body:
            if isinstance(s2, ast.Assign) and isinstance(s2.value, ast.Call) and isinstance(s2.value.func, ast.Attribute) \
                    and s2.value.func.attr == 'postselect':
                pcall = s2
        if pcall is None or len(pcall.value.args) != 2:
            run.violation('R2.mlayer', b, st.iter, 'every recorded outcome must be post-selected with obj.postselect(operator, bit)')
            continue
        a0, a1 = pcall.value.args
        ok = isinstance(a0, ast.Call) and norm(a0.func) == 'pauli' and len(a0.args) == 1 and isinstance(a0.args[0], ast.Name) and isinstance(a1, ast.Name)
        run.check(ok and norm(pcall.value.func.value) == b.posparams[1], 'R2.mlayer', b, pcall, 'postselect(pauli(codes), bit) on the object expected, found %s' % norm(pcall.value))
        if not ok:
            continue
        codes, bit = a0.args[0].id, a1.id
        for s2 in st.body:
            if isinstance(s2, ast.Assign) and isinstance(s2.targets[0], ast.Subscript) and norm(s2.targets[0].value) == codes and isinstance(s2.value, ast.Constant) \
                    and s2.lineno < pcall.lineno:
                run.check(s2.value.value == 3 and norm(s2.targets[0].slice).replace(' ', '') == 'self.qubits[-%s]' % i, 'R12.zobs', b, s2,
                          'post-selection observable must be Z (code 3) on the ii-th qubit from the end')
            if isinstance(s2, ast.Assign) and norm(s2.targets[0]) == bit:
                try:
                    vals = []
                    for m in (1, -1):
                        def sub(n, env, rec, m=m):
                            return m
                        def call(n, env, rec):
                            if norm(n.func) == 'int':
                                return int(rec(n.args[0]))
                            raise Undecidable('call')
                        vals.append(ev(s2.value, {i: 1}, sub=sub, call=call))
                    run.check(vals == [0, 1], 'R3.sign', b, s2, 'recorded outcome +1 post-selects bit 0 and -1 bit 1 (found %s)' % vals)
                except Undecidable as e:
                    run.undecided('R3.sign', b, s2, str(e))
                idxs = [norm(x.slice).replace(' ', '') for x in ast.walk(s2.value) if isinstance(x, ast.Subscript)]
                run.check(idxs == ['-%s' % i], 'R3.sign', b, s2, 'the ii-th outcome from the end belongs to the ii-th qubit from the end')
        pv = norm(pcall.targets[0])
        nxt = [x for x in st.body if isinstance(x, ast.If) and pv in {n.id for n in ast.walk(x.test) if isinstance(n, ast.Name)}]
        ok = len(nxt) == 1 and any(isinstance(y, ast.Raise) for y in nxt[0].body)
        if ok:
            try:
                ok = bool(ev(nxt[0].test, {pv: 0.0})) and not bool(ev(nxt[0].test, {pv: 0.5}))
            except Undecidable:
                ok = False
        run.check(ok, 'R11.impossible', b, pcall, 'an impossible post-selection (probability 0) must raise')
        run.check(norm(st.iter).replace(' ', '').startswith('range(1,len('), 'R10.order', b, st.iter, 'post-selection runs over the qubits in reverse (ii = 1..len)')
    if n_loops == 1:
        # one shared loop: the record it walks through must come from the supplied record on one path and from self.result on the other
        from ..names import local_deps
        dps = local_deps(b)
        recs = set()
        for st, ctx in walk(b.node):
            if isinstance(st, ast.For):
                for nm in ast.walk(st.iter):
                    if isinstance(nm, ast.Name):
                        recs |= dps.get(nm.id, set())
        run.check(('param', b.posparams[2]) in recs and ('attr', 'result') in recs, 'R11.impossible', b, 'two record sources',
                  'both the supplied record and the stored result are post-selected (one shared loop fed from either)')
    else:
        run.check(n_loops == 2, 'R11.impossible', b, 'two record sources', 'both the supplied record and the stored result are post-selected')
    # the observable buffer is rebuilt for every post-selected qubit
    from ..rules import rowclass
    rowclass.check_buffer_resets(run, b)
    # ---- postselect
    ps = postselect_site(run, repo)
    # ---- kernel
    f, k = projk.guards_and_block(run, repo, K.PY_U, 'stabilizer_postselection', signed=True)
    K.product_sites(run, f, floor=2)
    if k is not None and k.block is not None:
        from ..names import return_names
        rn = return_names(f)
        PR = rn[-1] if rn and rn[-1] else 'prob'
        # the value of the returned probability is computed by the checker on each branch: 1/2 where the outcome is
        # undetermined; on the determined branch the initial 1 stays when the accumulated sign equals the requested one and
        # becomes 0 otherwise (whatever the statements look like: prob = prob/2, prob /= 2., prob = 0.5, a conditional expression)
        owner = [st for st, _ in walk(f.node) if isinstance(st, ast.If) and st.body is k.block]
        init = [st.value for st, c2 in walk(f.node) if isinstance(st, ast.Assign) and norm(st.targets[0]) == PR and not c2.conds
                and isinstance(st.value, ast.Constant) and (not owner or st.lineno < owner[0].lineno)]
        v0 = init[-1].value if init else None

        def final_value(stmts, env):
            for s2 in stmts:
                if isinstance(s2, ast.Assign) and norm(s2.targets[0]) == PR:
                    env[PR] = ev(s2.value, env)
                elif isinstance(s2, ast.AugAssign) and norm(s2.target) == PR:
                    env[PR] = ev(ast.BinOp(left=ast.Name(id=PR, ctx=ast.Load()), op=s2.op, right=s2.value), env)
                elif isinstance(s2, ast.If) and PR in {n.id for n in ast.walk(s2) if isinstance(n, ast.Name)}:
                    final_value(s2.body if ev(s2.test, env) else s2.orelse, env)
            return env.get(PR)
        try:
            half = final_value(k.block, {PR: v0})
            run.check(half is not None and abs(half - 0.5) < 1e-12, 'R11.prob', f, PR, 'an undetermined outcome has probability 1/2 (found %s)' % half)
        except (Undecidable, TypeError) as e:
            run.undecided('R11.prob', f, PR, 'probability of the undetermined branch not evaluable: %s' % e)
        if owner:
            writes = [norm(n) for s in owner[0].orelse for n in ast.walk(s) if isinstance(n, ast.Assign)
                      and isinstance(n.targets[0], ast.Subscript)]
            run.check(not writes, 'R11.prob', f, owner[0].test, 'a determined outcome must leave the state unchanged: %s' % writes)
            names = sorted({n.id for s2 in owner[0].orelse for t in ast.walk(s2) if isinstance(t, (ast.If, ast.IfExp))
                            for n in ast.walk(t.test) if isinstance(n, ast.Name)} - {PR})
            try:
                same = final_value(owner[0].orelse, dict({n: 0 for n in names}, **{PR: v0}))
                diff = final_value(owner[0].orelse, dict({n: 2 * i for i, n in enumerate(names)}, **{PR: v0}))
                run.check(len(names) == 2 and same == 1 and diff == 0, 'R11.prob', f, owner[0].test,
                          'a determined outcome has probability 1 when the accumulated sign equals the requested one and 0 otherwise '
                          '(found %s and %s)' % (same, diff))
            except (Undecidable, TypeError) as e:
                run.undecided('R11.prob', f, owner[0].test, 'probability of the determined branch not evaluable: %s' % e)
    entries = [ml.methods['forward'], ml.methods['backward'], circ.methods['forward'], circ.methods['backward'], circ.methods['take'],
               circ.methods['measure'], ps]
    resolve.check_cone(run, repo, entries, 'trajectory')
    run.floor('R5', 4)
    run.floor('R12.zobs', 5)
    run.floor('R9.reset', 2)
    run.floor('R11.take', 5)
    run.floor('R11.record', 8)
    run.floor('R13.slice', 5)
    run.floor('R3.sign', 5)
    run.floor('R11.impossible', 3)
    run.floor('R6.sign', 1)
    run.floor('R9.block', 1)
    run.floor('R11.prob', 3)
    run.decide('measurement layer wiring and record, Z-observable slot, no sliding across measurements, ascending forward with paired '
               'record/log2prob accumulation, descending backward with per-layer record slices and errors, reverse post-selection '
               'with correct bit and sign handling, pure-state guard, post-selection kernel guards / block / probability')
    run.decline('Born probability values; that the backward pass is the adjoint of the recorded trajectory as an operator')
