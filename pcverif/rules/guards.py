"""R11 GUARD helpers -- propositional entailment of path conditions, path enumeration of loop-free methods."""
import ast
import itertools

from ..flow import walk
from ..model import norm


def atoms_of(test, out=None):
    """Leaf propositions of a boolean test (BoolOp / Not structure stripped)."""
    out = [] if out is None else out
    if isinstance(test, ast.BoolOp):
        for v in test.values:
            atoms_of(v, out)
    elif isinstance(test, ast.UnaryOp) and isinstance(test.op, ast.Not):
        atoms_of(test.operand, out)
    else:
        t = canon(test)
        if t not in out:
            out.append(t)
    return out


def canon(atom):
    """Canonical text of an atom; `x is not None` is represented as the negation of `x is None`."""
    return norm(atom)


def _eval(test, val):
    if isinstance(test, ast.BoolOp):
        vs = [_eval(v, val) for v in test.values]
        return all(vs) if isinstance(test.op, ast.And) else any(vs)
    if isinstance(test, ast.UnaryOp) and isinstance(test.op, ast.Not):
        return not _eval(test.operand, val)
    if isinstance(test, ast.Constant):
        return bool(test.value)
    return val[canon(test)]


def _neg_pairs(atoms):
    """pairs (a, b) of atoms that are each other's negation: `x is None` / `x is not None`, `a == b` / `a != b`."""
    pairs = []
    for a in atoms:
        for b in atoms:
            if a < b:
                for p, q in ((' is not ', ' is '), (' != ', ' == '), (' not in ', ' in ')):
                    if a.replace(p, q) == b and p in a or b.replace(p, q) == a and p in b:
                        pairs.append((a, b))
    return pairs


def entails(conds, required):
    """Do the path conditions [(test, polarity)] entail every (atom text, value) in `required`?
    Returns (True/False, models) ; atoms of `required` that do not occur in the conditions are not entailed."""
    atoms = []
    for t, _ in conds:
        atoms_of(t, atoms)
    for a, _ in required:
        if a not in atoms:
            atoms.append(a)
    negs = _neg_pairs(atoms)
    consts = [t for t, _ in conds]
    ok = True
    nmodels = 0
    for bits in itertools.product((False, True), repeat=len(atoms)):
        val = dict(zip(atoms, bits))
        if any(val[a] == val[b] for a, b in negs):
            continue
        if all(_eval(t, val) == pol for t, pol in conds):
            nmodels += 1
            for a, v in required:
                if val[a] != v:
                    ok = False
    return ok and nmodels > 0, nmodels


def paths(stmts):
    """All paths through a loop-free statement list: each path is (list of simple statements, ending) where
    ending in {'fall', 'return', 'raise'}.  For/While bodies are treated as opaque single statements."""
    def rec(block):
        res = [([], 'fall')]
        for st in block:
            nxt = []
            for p, end in res:
                if end != 'fall':
                    nxt.append((p, end))
                    continue
                if isinstance(st, ast.If):
                    for q, e2 in rec(st.body):
                        nxt.append((p + [('cond', st.test, True)] + q, e2))
                    for q, e2 in rec(st.orelse):
                        nxt.append((p + [('cond', st.test, False)] + q, e2))
                elif isinstance(st, ast.Return):
                    nxt.append((p + [st], 'return'))
                elif isinstance(st, ast.Raise):
                    nxt.append((p + [st], 'raise'))
                else:
                    nxt.append((p + [st], 'fall'))
            res = nxt
        return res
    return rec(stmts)
