"""R7 PAIR -- every Pauli product updates string and phase together.

A product site is an assignment  T = (A + B) % 2  whose target and operands are Pauli *strings* (rows /
whole string arrays in the repository's naming scheme).  Its companion is the assignment in the same block
(or in an `if` immediately preceding it in that block) whose right-hand side applies `ipow` to the same
two operands.  Clauses: (a) companion exists unless the function carries no phases at all; (b) the
companion reads the operands before the string update overwrites one of them; (c) at order-sensitive
sites the operand order of ipow is (left factor, right factor); (d) string reduced % 2, phase % 4;
(e) the companion adds the phases of both operands.
"""
import ast

from ..flow import walk, names_in
from ..model import norm, walk_local

STR_2D = {'gs', 'gs1', 'gs2', 'gs_in', 'gs_out', 'gs_map', 'gs_stb', 'gs_obs', 'gs_inv', 'gs_across_sub'}
STR_1D = {'g', 'g1', 'g2', 'ga', 'gs_ob', 'g_cond', 'tmp_p'}
PHASE_NAMES = {'p', 'ps', 'ps1', 'ps2', 'ps_in', 'ps_out', 'ps_map', 'ps_stb', 'ps_obs', 'ps_ob', 'ps_inv',
               'ps_mis', 'pa'}
SHAPE_ONLY = {'unsqueeze', 'view', 'squeeze', 'reshape', 'to', 'float', 'clone', 'copy', 'flatten', 'expand'}
IPOW = {'ipow', 'ipow_product'}


def strip_shape(n):
    while True:
        if isinstance(n, ast.Call) and isinstance(n.func, ast.Attribute) and n.func.attr in SHAPE_ONLY:
            n = n.func.value
        else:
            return n


def is_plain_index(idx):
    if isinstance(idx, (ast.Slice, ast.Tuple)):
        return False
    for n in ast.walk(idx):
        if isinstance(n, ast.Slice):
            return False
    return True


def string_kind(n):
    """'row' / 'array' if the expression denotes one Pauli string / an array of strings, else None."""
    n = strip_shape(n)
    if isinstance(n, ast.Name):
        if n.id in STR_1D:
            return 'row'
        if n.id in STR_2D:
            return 'array'
        return None
    if isinstance(n, ast.Attribute):
        if n.attr == 'g':
            return 'row'
        if n.attr == 'gs':
            return 'array'
        return None
    if isinstance(n, ast.Subscript):
        base = strip_shape(n.value)
        bk = None
        if isinstance(base, ast.Name) and base.id in STR_2D:
            bk = 'array'
        elif isinstance(base, ast.Attribute) and base.attr == 'gs':
            bk = 'array'
        if bk == 'array' and is_plain_index(n.slice):
            return 'row'
        return None
    return None


def phase_expr_of(n):
    """Text of the phase expression that belongs to a string expression under the naming scheme
    (gs_x[j] -> ps_x[j], X.g -> X.p, ga -> pa, g -> p)."""
    n = strip_shape(n)
    if isinstance(n, ast.Name):
        if n.id.startswith('g'):
            return 'p' + n.id[1:]
        return None
    if isinstance(n, ast.Attribute):
        if n.attr in ('g', 'gs'):
            return norm(n.value) + '.p' + n.attr[1:]
        return None
    if isinstance(n, ast.Subscript):
        b = phase_expr_of(n.value)
        if b is None:
            return None
        return '%s[%s]' % (b, norm(n.slice))
    return None


def split_factor(n):
    """A * mask  ->  (A, mask) when exactly one factor is a string expression."""
    n0 = strip_shape(n)
    if isinstance(n0, ast.BinOp) and isinstance(n0.op, ast.Mult):
        lk, rk = string_kind(n0.left), string_kind(n0.right)
        if lk and not rk:
            return n0.left, n0.right
        if rk and not lk:
            return n0.right, n0.left
    return n, None


class Site:
    def __init__(self, f, st, ctx, target, a, b, mask, reduced):
        self.f, self.st, self.ctx = f, st, ctx
        self.target, self.a, self.b = target, a, b
        self.mask = mask
        self.reduced = reduced
        self.companion = None
        self.comp_ctx = None
        self.comp_call = None

    @property
    def acc(self):
        """The operand that is also the target (accumulating site), else None."""
        t = norm(strip_shape(self.target))
        if norm(strip_shape(self.a)) == t:
            return 'a'
        if norm(strip_shape(self.b)) == t:
            return 'b'
        return None

    def text(self):
        return norm(self.st)


def summands(expr):
    """Flatten +/- : list of (sign, node)."""
    out = []

    def rec(n, s):
        n = strip_shape(n)
        if isinstance(n, ast.BinOp) and isinstance(n.op, ast.Add):
            rec(n.left, s); rec(n.right, s)
        elif isinstance(n, ast.BinOp) and isinstance(n.op, ast.Sub):
            rec(n.left, s); rec(n.right, -s)
        elif isinstance(n, ast.UnaryOp) and isinstance(n.op, ast.USub):
            rec(n.operand, -s)
        else:
            out.append((s, n))
    rec(expr, 1)
    return out


def strip_mod(expr, m):
    """(inner, True) if expr is `inner % m` (also through shape-only calls), else (expr, False)."""
    e = strip_shape(expr)
    if isinstance(e, ast.BinOp) and isinstance(e.op, ast.Mod) and isinstance(e.right, ast.Constant) \
            and e.right.value == m:
        return e.left, True
    if isinstance(e, ast.BinOp) and isinstance(e.op, ast.BitAnd) and isinstance(e.right, ast.Constant) \
            and e.right.value == m - 1 and m in (2, 4):
        return e.left, True           # x & (m - 1) is x % m for a power of two (two's complement: also for negative x)
    return e, False


def _has_mult(e):
    return any(isinstance(n, ast.BinOp) and isinstance(n.op, ast.Mult) for n in ast.walk(e))


def find_sites(f):
    """All product sites of a function."""
    sites = []
    for st, ctx in walk(f.node):
        if not (isinstance(st, ast.Assign) and len(st.targets) == 1):
            continue
        tgt = st.targets[0]
        tk = string_kind(tgt)
        if tk is None and isinstance(tgt, ast.Subscript) and isinstance(tgt.slice, ast.Tuple) \
                and string_kind(tgt.value) == 'array' and all(is_plain_index(e) and not _has_mult(e) for e in tgt.slice.elts):
            tk = 'row'    # row of a 3-D result array, e.g. gs[j1, j2]
        if tk is None:
            continue
        inner, reduced = strip_mod(st.value, 2)
        inner = strip_shape(inner)
        if isinstance(inner, ast.BinOp) and isinstance(inner.op, ast.BitXor):
            reduced = True        # a ^ b on bit arrays is (a + b) % 2
        elif not (isinstance(inner, ast.BinOp) and isinstance(inner.op, ast.Add)):
            continue
        a, ma = split_factor(inner.left)
        b, mb = split_factor(inner.right)
        if string_kind(a) is None or string_kind(b) is None:
            continue
        sites.append(Site(f, st, ctx, tgt, a, b, ma or mb, reduced))
    # a product written directly into a constructor call: Pauli(g1 ^ g2, <phase>) is `g = g1 ^ g2; p = <phase>`
    for st, ctx in walk(f.node):
        if isinstance(st, (ast.If, ast.For, ast.While, ast.With, ast.Try, ast.FunctionDef)):
            continue
        for c in ast.walk(st):
            if not (isinstance(c, ast.Call) and isinstance(c.func, ast.Name) and c.func.id in ('Pauli', 'PauliMonomial') and len(c.args) >= 2):
                continue
            inner, reduced = strip_mod(c.args[0], 2)
            inner = strip_shape(inner)
            if isinstance(inner, ast.BinOp) and isinstance(inner.op, ast.BitXor):
                reduced = True
            elif not (isinstance(inner, ast.BinOp) and isinstance(inner.op, ast.Add)):
                continue
            a, ma = split_factor(inner.left)
            b, mb = split_factor(inner.right)
            if string_kind(a) is None or string_kind(b) is None:
                continue
            g_st = ast.copy_location(ast.Assign(targets=[ast.Name(id='g', ctx=ast.Store())], value=c.args[0]), c)
            p_st = ast.copy_location(ast.Assign(targets=[ast.Name(id='p', ctx=ast.Store())], value=c.args[1]), c)
            site = Site(f, g_st, ctx, g_st.targets[0], a, b, ma or mb, reduced)
            site.fixed_companion = p_st
            sites.append(site)
    return sites


def ipow_calls(node):
    out = []
    for n in ast.walk(node):
        if isinstance(n, ast.Call) and norm(n.func).split('.')[-1] in IPOW and len(n.args) == 2:
            out.append(n)
    return out


def find_companion(site):
    """Locate the phase companion of a site in its block (or in the `if` just before it)."""
    want = {norm(strip_shape(site.a)), norm(strip_shape(site.b))}
    fixed = getattr(site, 'fixed_companion', None)
    if fixed is not None:
        calls = [c for c in ipow_calls(fixed.value) if {norm(strip_shape(c.args[0])), norm(strip_shape(c.args[1]))} == want]
        if not calls:
            return None
        site.companion, site.comp_index, site.comp_call = fixed, site.ctx.index - 1, calls[0]
        return fixed
    block = site.ctx.block
    cands = []
    for i, st in enumerate(block):
        if st is site.st:
            continue
        stmts = [st]
        if isinstance(st, ast.If) and i == site.ctx.index - 1:
            stmts = list(st.body)
        for s in stmts:
            if not isinstance(s, (ast.Assign, ast.AugAssign)):
                continue
            for c in ipow_calls(s.value):
                got = {norm(strip_shape(c.args[0])), norm(strip_shape(c.args[1]))}
                if got == want:
                    cands.append((i, s, c))
    if not cands:
        return None
    # prefer the nearest one
    cands.sort(key=lambda t: abs(t[0] - site.ctx.index))
    i, s, c = cands[0]
    site.companion, site.comp_index, site.comp_call = s, i, c
    return s


def has_phase_params(f):
    return any(p in PHASE_NAMES for p in f.params) or (f.cls is not None)


def _reduced_wherever_read(f, comp):
    """The phase accumulated by `comp` is never reduced there; True if every read of it outside that statement sits inside an
    expression taken % 4 (e.g. `return gs_out, ps_out % 4`, `((pa - p) % 4) // 2`)."""
    tgt = comp.target if isinstance(comp, ast.AugAssign) else comp.targets[0]
    root = tgt
    while isinstance(root, (ast.Subscript, ast.Attribute)):
        root = root.value
    if not isinstance(root, ast.Name):
        return False
    name = root.id
    parent = {}
    for n in ast.walk(f.node):
        for c in ast.iter_child_nodes(n):
            parent[id(c)] = n
    inside = {id(n) for n in ast.walk(comp)}
    reads = [n for n in ast.walk(f.node) if isinstance(n, ast.Name) and n.id == name and isinstance(n.ctx, ast.Load) and id(n) not in inside]
    if not reads:
        return False
    for r in reads:
        n, ok = r, False
        while id(n) in parent and not isinstance(n, ast.stmt):
            n = parent[id(n)]
            if isinstance(n, ast.BinOp) and isinstance(n.op, ast.Mod) and isinstance(n.right, ast.Constant) and n.right.value == 4:
                ok = True
                break
        if not ok:
            # a read that only re-initialises or stores into the accumulator itself is not an escape
            st = n
            if isinstance(st, ast.Assign) and all(norm(t).split('[')[0] == name for t in st.targets):
                continue
            return False
    return True


def check_site(run, site, order=None, rule='R7'):
    """Check clauses (a),(b),(d),(e) and, when `order` is given, (c).
    order: None | 'acc_left' | 'params' | ('rotate', generator_param)"""
    f = site.f
    comp = find_companion(site)
    signless = not has_phase_params(f)
    if comp is None and not signless:
        bases = {norm(strip_shape(x).value) if isinstance(strip_shape(x), ast.Subscript) else norm(strip_shape(x))
                 for x in (site.a, site.b)}
        for st in site.ctx.block:
            for c in (ipow_calls(st) if not isinstance(st, (ast.If, ast.For, ast.While)) else []):
                got = {norm(strip_shape(x).value) if isinstance(strip_shape(x), ast.Subscript) else norm(strip_shape(x))
                       for x in c.args}
                if got == bases:
                    run.undecided(rule + 'a', f, site.st, 'vectorised companion pairs the rows through a different '
                                  'index set: ' + norm(st)[:80], declared=f.rel.startswith('torchclifford'))
                    return
    if comp is None:
        if signless:
            run.ok(rule + '.signless', f, site.st, 'function carries no phases')
            run.check(site.reduced, rule + 'd', f, site.st, 'string product is not reduced % 2: entries leave {0,1}')
            return
        run.violation(rule + 'a', f, site.st, 'Pauli product of %s and %s updates the string but no phase: no '
                      'ipow(...) on this operand pair in the block' % (norm(site.a), norm(site.b)))
        return
    run.ok(rule + 'a', f, site.st, 'companion: ' + norm(comp)[:120])
    # (d) closure
    run.check(site.reduced, rule + 'd', f, site.st, 'string product is not reduced % 2: entries leave {0,1}')
    comp_value = comp.value
    if isinstance(comp, ast.AugAssign) and isinstance(comp.op, ast.Add):
        comp_value = ast.BinOp(left=comp.target, op=ast.Add(), right=comp.value)       # x += e is x = x + e
    inner, red4 = strip_mod(comp_value, 4)
    if not red4:
        # the reduction may be deferred: it is enough that every other read of the accumulated phase is taken % 4
        red4 = _reduced_wherever_read(f, comp)
    run.check(red4, rule + 'd', f, comp, 'phase of the product is not reduced % 4: the phase drifts out of {0,1,2,3}')
    # (b) read before overwrite
    if site.acc is not None:
        run.check(site.comp_index < site.ctx.index, rule + 'b', f, site.st,
                  'the string %s is overwritten before ipow reads it: the phase is computed from the new string'
                  % norm(site.target))
    # (e) both operand phases are added
    terms = summands(inner)
    flat = []
    for s, n in terms:
        n2, m = split_mult(n)
        if m is not None:
            for s2, n3 in summands(n2):
                flat.append((s * s2, n3, True))
        else:
            flat.append((s, n, False))
    texts = {norm(strip_shape(n)) for s, n, _ in flat if s > 0}
    fn_names = names_in(f.node) | set(f.params)
    for opnd in (site.a, site.b):
        pe = phase_expr_of(opnd)
        if pe is None:
            continue
        root = pe.split('[')[0].split('.')[0]
        exists = (root in fn_names) or ('.' in pe and root in fn_names)
        if '.' in pe:
            # attribute phase (X.p / X.ps): exists if X is a name of the function
            exists = root in fn_names
        if not exists:
            run.undecided(rule + 'e', f, site.st, 'no phase variable %s in scope for operand %s' % (pe, norm(opnd)))
            continue
        run.check(pe in texts, rule + 'e', f, comp,
                  'phase of the product does not add the phase %s of the factor %s' % (pe, norm(opnd)))
    # (c) order
    if order is not None:
        c = site.comp_call
        a0, a1 = norm(strip_shape(c.args[0])), norm(strip_shape(c.args[1]))
        const = 0
        for s, n, _ in flat:
            if isinstance(n, ast.Constant) and isinstance(n.value, int):
                const += s * n.value
        if order == 'acc_left':
            if site.acc is None:
                run.undecided(rule + 'c', f, site.st, 'not an accumulating site')
            else:
                acc_t = norm(strip_shape(site.target))
                run.check(a0 == acc_t and const % 4 == 0, rule + 'c', f, comp,
                          'ordered product: the accumulator %s must be the left factor of ipow (found ipow(%s, %s), '
                          'constant %d)' % (acc_t, a0, a1, const % 4))
        elif order == 'params':
            def rank(txt):
                root = txt.split('[')[0].split('.')[0]
                ps = ['self'] + f.posparams if 'self' not in f.posparams else f.posparams
                return ps.index(root) if root in ps else None
            r0, r1 = rank(a0), rank(a1)
            if r0 is None or r1 is None or r0 == r1:
                run.undecided(rule + 'c', f, comp, 'cannot rank operands %s, %s by parameter order' % (a0, a1))
            else:
                run.check(r0 < r1 and const % 4 == 0, rule + 'c', f, comp,
                          'left factor must come first in ipow: found ipow(%s, %s) (constant %d) for the product '
                          'left*right' % (a0, a1, const % 4))
        elif isinstance(order, tuple) and order[0] == 'rotate':
            gen = order[1]
            gen_first = (a0 == gen)
            want = 3 if gen_first else 1
            run.check(const % 4 == want, rule + 'c', f, comp,
                      'rotation image is i*P*G: ipow(P, G) needs +1 and ipow(G, P) needs +3; found ipow(%s, %s) with '
                      'constant %d' % (a0, a1, const % 4))


def split_mult(n):
    """(X, mask) for X * mask where mask is a Name / call (masked vector form), else (n, None)."""
    if isinstance(n, ast.BinOp) and isinstance(n.op, ast.Mult):
        for x, m in ((n.left, n.right), (n.right, n.left)):
            if isinstance(m, ast.Name) and m.id in ('mask',) or (isinstance(m, ast.Call) and norm(m.func).split('.')[-1] == 'acq'):
                return x, m
    return n, None


def check_self_products(run, f, rule='R7.self'):
    """ipow(a, a) is identically 0 modulo 4 (a string multiplied by itself picks up no power of i: the oracle gives
    ipow(x,z;x,z) = 0 on all four letters), so a phase that adds ipow of an expression with ITSELF adds nothing: where the
    phase of a product of several rows is accumulated, the powers of i between different rows are lost.  Also counts the
    ipow call sites of f."""
    n = 0
    for c in ast.walk(f.node):
        if isinstance(c, ast.Call) and norm(c.func).split('.')[-1] == 'ipow' and len(c.args) == 2:
            n += 1
            run.check(norm(c.args[0]) != norm(c.args[1]), rule, f, c,
                      'ipow(%s, %s) multiplies an operator with itself and is 0 for every input: the i-powers between the different rows whose '
                      'phases are summed here are never accumulated, so the sign of their product is wrong whenever two of them contribute one'
                      % (norm(c.args[0]), norm(c.args[1])))
    return n
