"""R3 KIND -- phase kinds: BIT != HERM (subset of PHASE4).

Kind sources are syntactic.  A definite BIT (or a definitely odd constant) stored where a tableau / map
phase is expected is a violation: `i*Z` is not a stabilizer and a bit is not a sign.
"""
import ast

from ..exprnf import ev, Undecidable
from ..flow import walk, defs_of
from ..model import norm
from .bind import expr_role, target_role

BIT_NAMES = {'readout', 'out', 'samples', 'postselect_res', 'tmp_res', 'tmp_out'}
PRESERVE_METHODS = {'astype', 'to', 'float', 'long', 'int', 'copy', 'clone', 'view', 'reshape', 'flatten', 'item',
                    'squeeze', 'unsqueeze', 'detach', 'cpu', 'numpy'}


def _is_randint_bit(call):
    name = norm(call.func)
    if not name.endswith('randint'):
        return False
    vals = []
    for a in call.args[:2]:
        try:
            vals.append(ev(a, {}))
        except Undecidable:
            vals.append(None)
    if name.startswith('torch'):
        return vals[:2] == [0, 2]
    # numpy: randint(2, ...) or randint(0, 2, ...)
    if vals[:2] == [0, 2]:
        return True
    if vals and vals[0] == 2 and (len(vals) == 1 or not isinstance(vals[1], int) or len(call.args) == 1):
        return True
    if vals and vals[0] == 2 and len(call.args) >= 2 and vals[1] is None:
        return True
    return False


def kind_of(f, n, depth=0):
    """'BIT' | 'HERM' | 'ZERO' | 'ODD' | None (unknown / general)."""
    if depth > 5:
        return None
    if isinstance(n, ast.Constant):
        if isinstance(n.value, bool):
            return None
        if n.value == 0:
            return 'ZERO'
        if n.value == 2:
            return 'HERM'
        if n.value in (1, 3):
            return 'ODD'
        return None
    if isinstance(n, ast.Name):
        if n.id in BIT_NAMES:
            return 'BIT'
        ds = defs_of(f.node, n.id)
        ks = set()
        for st, _ in ds:
            if isinstance(st, ast.Assign) and len(st.targets) == 1 and isinstance(st.targets[0], ast.Name):
                ks.add(kind_of(f, st.value, depth + 1))
            else:
                ks.add(None)
        if len(ks) == 1:
            return ks.pop()
        if ks and ks <= {'HERM', 'ZERO'}:
            return 'HERM'
        return None
    if isinstance(n, ast.Subscript):
        return kind_of(f, n.value, depth + 1) if isinstance(n.value, ast.Name) and n.value.id in BIT_NAMES else None
    if isinstance(n, ast.Call):
        fn = n.func
        name = norm(fn)
        if name.endswith('randint'):
            return 'BIT' if _is_randint_bit(n) else None
        if name.split('.')[-1] == 'choice' and n.args:
            try:
                from ..exprnf import fold_literal
                vals = fold_literal(n.args[0])
                if isinstance(vals, tuple) and all(v in (0, 2) for v in vals):
                    return 'HERM'
                if isinstance(vals, tuple) and all(v in (0, 1) for v in vals):
                    return 'BIT'
            except Undecidable:
                return None
            return None
        if name.split('.')[-1] in ('zeros', 'zeros_like'):
            return 'ZERO'
        if name.split('.')[-1] in ('ones', 'ones_like'):
            return 'ODD'
        if name.split('.')[-1] in ('full', 'full_like') and len(n.args) >= 2:      # numpy.full(shape, c): an array of the constant c
            return kind_of(f, n.args[1], depth + 1)
        if isinstance(fn, ast.Attribute) and fn.attr in PRESERVE_METHODS:
            return kind_of(f, fn.value, depth + 1)
        if name in ('int', 'float') and n.args:
            return kind_of(f, n.args[0], depth + 1)
        if name.split('.')[-1] in ('array', 'asarray', 'tensor') and n.args:
            return kind_of(f, n.args[0], depth + 1)
        return None
    if isinstance(n, ast.BinOp):
        if isinstance(n.op, ast.Mult):
            for a, b in ((n.left, n.right), (n.right, n.left)):
                if isinstance(a, ast.Constant) and a.value == 2:
                    kb = kind_of(f, b, depth + 1)
                    if kb in ('BIT', 'ODD'):
                        return 'HERM'
                    if kb == 'ZERO':
                        return 'ZERO'
                    return None
            return None
        if isinstance(n.op, ast.Mod) and isinstance(n.right, ast.Constant) and n.right.value == 4:
            return kind_of(f, n.left, depth + 1)
        if isinstance(n.op, (ast.Add, ast.Sub)):
            a, b = kind_of(f, n.left, depth + 1), kind_of(f, n.right, depth + 1)
            if a in ('HERM', 'ZERO') and b in ('HERM', 'ZERO'):
                return 'HERM' if 'HERM' in (a, b) else 'ZERO'
            return None
        return None
    return None


def check_phase_store(run, f, st, target, value, rule='R3a', what='tableau / map phase'):
    k = kind_of(f, value)
    if k in ('BIT', 'ODD'):
        run.violation(rule, f, st, 'a %s is stored where a %s (0 or 2) is expected: %s = %s'
                      % ('bit (0/1)' if k == 'BIT' else 'odd constant', what, norm(target), norm(value)))
        return False
    run.ok(rule, f, st, '%s <- %s (%s)' % (norm(target), norm(value)[:50], k or 'phase expression'))
    return True


def check_function(run, repo, f, rule='R3a', ctor_classes=('CliffordMap', 'StabilizerState')):
    """All stores into PHASE-role targets and all phase arguments of map/state constructors in f."""
    n = 0
    for st, ctx in walk(f.node):
        if isinstance(st, ast.Assign) and len(st.targets) == 1:
            t = st.targets[0]
            pairs = []
            if isinstance(t, (ast.Tuple, ast.List)):
                if isinstance(st.value, (ast.Tuple, ast.List)) and len(st.value.elts) == len(t.elts):
                    pairs = list(zip(t.elts, st.value.elts))
            else:
                pairs = [(t, st.value)]
            for tt, vv in pairs:
                if target_role(f, tt) == 'PHASE' and isinstance(tt, (ast.Subscript, ast.Attribute, ast.Name)):
                    if isinstance(tt, ast.Name) and tt.id in ('p',) and f.name.startswith('stabilizer_'):
                        continue
                    check_phase_store(run, f, st, tt, vv, rule)
                    n += 1
    from ..model import Cls
    for call, tgts, how in repo.callees(f):
        if how == 'name' and isinstance(tgts[0], Cls) and tgts[0].name in ctor_classes:
            ps = None
            if len(call.args) >= 2:
                ps = call.args[1]
            for kw in call.keywords:
                if kw.arg == 'ps':
                    ps = kw.value
            if ps is not None:
                check_phase_store(run, f, call, ast.Name(id='ps', ctx=ast.Load()), ps, rule,
                                  what='phase vector of a %s' % tgts[0].name)
                n += 1
    return n
