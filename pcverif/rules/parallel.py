"""R13 PARALLEL -- parallel arrays (gs / ps / cs) move together; qubit masks are expanded to the
interleaved (x,z) column layout; map<->state permutations."""
import ast

from ..exprnf import affine_in, ev, Undecidable
from ..flow import walk, defs_of
from ..model import norm, walk_local, calls_in
from .bind import expr_role, ATTR_ROLE
from .pair import STR_2D, STR_1D

EXPAND_FUNCS = {'repeat', 'repeat_interleave'}


def _is_expansion(call):
    """numpy.repeat(m, 2) / torch.repeat_interleave(m, 2) / m.repeat_interleave(2)"""
    if not isinstance(call, ast.Call):
        return False
    name = norm(call.func).split('.')[-1]
    if name not in EXPAND_FUNCS:
        return False
    args = list(call.args)
    if isinstance(call.func, ast.Attribute) and norm(call.func.value) not in ('numpy', 'np', 'torch'):
        # method form m.repeat_interleave(2); note m.repeat(2) on a tensor TILES (not interleaved)
        if name == 'repeat':
            return False
        return len(args) >= 1 and isinstance(args[0], ast.Constant) and args[0].value == 2
    return len(args) >= 2 and isinstance(args[1], ast.Constant) and args[1].value == 2


def _column_indices(sub):
    """Index expressions that select *columns* (x,z slots) of a string array in a Subscript node."""
    base = sub.value
    kind = None
    b = base
    if isinstance(b, ast.Name):
        kind = '2d' if b.id in STR_2D else ('1d' if b.id in STR_1D else None)
    elif isinstance(b, ast.Attribute):
        kind = '2d' if b.attr == 'gs' else ('1d' if b.attr == 'g' else None)
    elif isinstance(b, ast.Subscript):
        # gs[rows][:, cols]
        inner = _string_base_kind(b)
        if inner == '2d':
            kind = '2d'
    if kind is None:
        return []
    idx = sub.slice
    if kind == '1d':
        return [idx] if not isinstance(idx, ast.Tuple) else []
    if isinstance(idx, ast.Tuple) and len(idx.elts) == 2:
        return [idx.elts[1]]
    if isinstance(idx, ast.Call) and norm(idx.func).split('.')[-1] == 'ix_' and len(idx.args) == 2:
        return [idx.args[0], idx.args[1]]   # rows of a map are generators: same interleaved layout
    return []


def _string_base_kind(n):
    while isinstance(n, ast.Subscript):
        n = n.value
    if isinstance(n, ast.Name):
        return '2d' if n.id in STR_2D else ('1d' if n.id in STR_1D else None)
    if isinstance(n, ast.Attribute):
        return '2d' if n.attr == 'gs' else ('1d' if n.attr == 'g' else None)
    return None


def mask_expansion(run, f, rule='R13.mask'):
    """Every mask used on the column axis of a string array is the interleaved expansion repeat(mask, 2)."""
    n = 0
    for node in walk_local(f.node):
        if not isinstance(node, ast.Subscript):
            continue
        for ci in _column_indices(node):
            e = ci
            if isinstance(e, ast.UnaryOp) and isinstance(e.op, ast.Invert):
                e = e.operand
            if isinstance(e, ast.Call):
                if norm(e.func).split('.')[-1] in EXPAND_FUNCS | {'tile'}:
                    n += 1
                    run.check(_is_expansion(e), rule, f, node, 'column mask %s is not the interleaved expansion '
                              'repeat(mask, 2) of a qubit mask' % norm(e))
                continue
            if not isinstance(e, ast.Name):
                continue
            ds = defs_of(f.node, e.id)
            if not ds:
                if e.id in f.params and 'mask' in e.id and not e.id.endswith('2'):
                    n += 1
                    run.violation(rule, f, node, 'qubit mask `%s` indexes the 2N interleaved (x,z) columns directly; '
                                  'it must be expanded with repeat(mask, 2)' % e.id)
                continue
            vals = [d[0].value for d in ds if isinstance(d[0], ast.Assign)]
            if not vals:
                continue
            masky = [v for v in vals if isinstance(v, ast.Call) and norm(v.func).split('.')[-1] in EXPAND_FUNCS | {'tile'}]
            if not masky:
                # index arrays / slices that are not masks (e.g. integer row pointers) are not our business
                if 'mask' in e.id:
                    n += 1
                    run.violation(rule, f, node, 'column mask `%s` is defined as %s, not as the interleaved expansion '
                                  'repeat(mask, 2)' % (e.id, norm(vals[-1])[:60]))
                continue
            for v in masky:
                n += 1
                run.check(_is_expansion(v), rule, f, node, 'column mask `%s` = %s is not the interleaved expansion '
                          'repeat(mask, 2)' % (e.id, norm(v)))
    return n


def index_norm(sub):
    """Normalised index of a subscript: trailing full slices dropped."""
    idx = sub.slice
    elts = list(idx.elts) if isinstance(idx, ast.Tuple) else [idx]
    while elts and isinstance(elts[-1], ast.Slice) and elts[-1].lower is None and elts[-1].upper is None \
            and elts[-1].step is None:
        elts.pop()
    return ', '.join(norm(e) for e in elts)


def _strip_copy(n):
    while isinstance(n, ast.Call):
        fn = n.func
        if isinstance(fn, ast.Attribute) and fn.attr in ('copy', 'clone', 'detach', 'astype', 'to'):
            n = fn.value
        elif norm(fn).split('.')[-1] in ('array', 'asarray', 'tensor') and n.args:
            n = n.args[0]
        else:
            break
    return n


def field_access(n):
    """(owner text, attr, index text or None) for X.attr / X.attr[idx] / copy wrappers / X.attr.clone()[idx]."""
    n = _strip_copy(n)
    idx = None
    if isinstance(n, ast.Subscript):
        idx = index_norm(n)
        n = _strip_copy(n.value)
    if isinstance(n, ast.Attribute) and n.attr in ATTR_ROLE:
        return (norm(n.value), n.attr, idx)
    return None


def parallel_args(run, f, rule='R13.par'):
    """Within one call, gs / ps / cs of the same owner are indexed identically."""
    n = 0
    for call in calls_in(f.node):
        accs = [field_access(a) for a in list(call.args) + [k.value for k in call.keywords]]
        accs = [a for a in accs if a is not None and a[1] in ('gs', 'ps', 'cs')]
        # also chained setters PauliPolynomial(gs[i], ps[i]).set_cs(cs[i])
        if isinstance(call.func, ast.Attribute) and call.func.attr in ('set_cs',) and isinstance(call.func.value, ast.Call):
            inner = call.func.value
            accs += [a for a in (field_access(x) for x in inner.args) if a is not None and a[1] in ('gs', 'ps', 'cs')]
        by_owner = {}
        for o, attr, idx in accs:
            by_owner.setdefault(o, {})[attr] = idx
        for o, d in by_owner.items():
            if len(d) < 2:
                continue
            vals = set(d.values())
            n += 1
            run.check(len(vals) == 1, rule, f, call,
                      'parallel arrays of `%s` are selected differently: %s' % (
                          o, ', '.join('%s[%s]' % (k, v) for k, v in sorted(d.items()))),
                      ', '.join('%s[%s]' % (k, v) for k, v in sorted(d.items())))
    return n


# --------------------------------------------------------------------------- permutations
def permutation_loop(f):
    """For map_to_state / state_to_map in loop form: dict out_array -> list of ((a,b) of target row, (a',b') of
    source row, in_array) with rows affine in the loop variable and N (value = a*i + b*N + c)."""
    res = {}
    for st, ctx in walk(f.node):
        if not (isinstance(st, ast.Assign) and ctx.loops and isinstance(st.targets[0], ast.Subscript)
                and isinstance(st.value, ast.Subscript)):
            continue
        loop = ctx.loops[-1]
        if not (isinstance(loop, ast.For) and isinstance(loop.target, ast.Name)):
            continue
        i = loop.target.id
        t, v = st.targets[0], st.value
        if not (isinstance(t.value, ast.Name) and isinstance(v.value, ast.Name)):
            continue

        def form(e):
            out = []
            for N in (3, 5):
                ab = affine_in(e, i, {'N': N})
                if ab is None:
                    return None
                out.append(ab)
            (a1, b1), (a2, b2) = out
            if a1 != a2:
                return None
            # b = k*N + c
            k = (b2 - b1) // 2
            c = b1 - 3 * k
            if k * 5 + c != b2:
                return None
            return (a1, k, c)
        ft, fv = form(t.slice), form(v.slice)
        res.setdefault(t.value.id, []).append((ft, fv, v.value.id, st))
    return res


def slice_form(sl):
    """(a, k, c) row form of a slice written as start::2 / 0:N / N::  -> row = a*i + k*N + c for i in range(N)."""
    if not isinstance(sl, ast.Slice):
        return None

    def val(e, default):
        if e is None:
            return default
        return e
    step = 1 if sl.step is None else (sl.step.value if isinstance(sl.step, ast.Constant) else None)
    if step is None:
        return None

    def lin(e):
        if e is None:
            return (0, 0)
        out = []
        for N in (3, 5):
            try:
                out.append(ev(e, {'N': N}))
            except Undecidable:
                return None
        k = (out[1] - out[0]) // 2
        c = out[0] - 3 * k
        return (k, c)
    lo = lin(sl.lower)
    if lo is None:
        return None
    # upper bound is checked for consistency: either open, or lower + N*step
    if sl.upper is not None:
        # an explicit stop must select exactly N rows: len(range(lower, upper, step)) == N for N = 3 and 5
        for N in (3, 5):
            try:
                lo_v = ev(sl.lower, {'N': N}) if sl.lower is not None else 0
                up_v = ev(sl.upper, {'N': N})
            except Undecidable:
                return None
            if len(range(lo_v, up_v, step)) != N:
                return None
    return (step, lo[0], lo[1])


def permutation_any(f):
    """Row moves of map_to_state / state_to_map in whatever form they are written: element assignments inside loops over
    range(N) (one loop or several) and slice assignments; same result format as permutation_loop."""
    res = {}
    for arr, items in permutation_loop(f).items():
        res.setdefault(arr, []).extend(items)
    for st, ctx in walk(f.node):
        if ctx.loops or not (isinstance(st, ast.Assign) and isinstance(st.targets[0], ast.Subscript) and isinstance(st.value, ast.Subscript)):
            continue
        t, v = st.targets[0], st.value
        if not (isinstance(t.value, ast.Name) and isinstance(v.value, ast.Name)):
            continue
        if isinstance(t.slice, ast.Slice) and isinstance(v.slice, ast.Slice):
            res.setdefault(t.value.id, []).append((slice_form(t.slice), slice_form(v.slice), v.value.id, st))
    return res


def permutation_slices(f):
    """Slice-assignment form (torch): out[N::] = in[::2] ..."""
    res = {}
    for st, ctx in walk(f.node):
        if not (isinstance(st, ast.Assign) and isinstance(st.targets[0], ast.Subscript)
                and isinstance(st.value, ast.Subscript)):
            continue
        t, v = st.targets[0], st.value
        if not (isinstance(t.value, ast.Name) and isinstance(v.value, ast.Name)):
            continue
        ft, fv = slice_form(t.slice), slice_form(v.slice)
        res.setdefault(t.value.id, []).append((ft, fv, v.value.id, st))
    return res


def masked_selection(run, repo, f, kernel_names, rule='R13.masksel'):
    """In the branch where a qubit mask is given, the strings handed to the kernel are exactly the masked qubits' columns:
    self.gs[:, M] with M = repeat(mask, 2) (interleaved expansion of the mask parameter, possibly converted first)."""
    from .guards import entails
    from ..names import deref
    if 'mask' not in f.params:
        return 0
    n = 0
    for st, ctx in walk(f.node):
        calls = [c for c in ast.walk(st) if isinstance(c, ast.Call) and isinstance(c.func, ast.Name) and c.func.id in kernel_names] \
            if isinstance(st, (ast.Assign, ast.Expr)) else []
        for c in calls:
            masked, _ = entails(ctx.conds, [('mask is None', False)])
            if not masked:
                continue
            callee = repo.resolve_local(f, c.func.id)
            from .resolve import bind
            m, err = bind(callee, c, False)
            strings = [a for formal, a in m.items() if formal in ('gs', 'gs_in')]
            for a in strings:
                n += 1
                ok = False
                why = 'the operand strings are %s' % norm(a)
                if isinstance(a, ast.Subscript) and isinstance(a.slice, ast.Tuple) and len(a.slice.elts) == 2 \
                        and isinstance(a.slice.elts[0], ast.Slice) and a.slice.elts[0].lower is None and a.slice.elts[0].upper is None:
                    col = deref(f, a.slice.elts[1])
                    if _is_expansion(col):
                        src = col.args[0] if not (isinstance(col.func, ast.Attribute) and norm(col.func.value) not in ('numpy', 'np', 'torch')) else col.func.value
                        src = deref(f, src)
                        # conversions of the mask parameter (numpy.array(mask), mask.to(bool)) keep it the same mask
                        while isinstance(src, ast.Call):
                            if isinstance(src.func, ast.Attribute) and src.func.attr in ('to', 'astype', 'bool', 'cpu', 'numpy'):
                                src = src.func.value
                            elif src.args:
                                src = src.args[0]
                            else:
                                break
                        ok = isinstance(src, ast.Name) and src.id == 'mask'
                        why = 'the column mask expands %s' % norm(src)
                    else:
                        why = 'the column index %s is not repeat(mask, 2)' % norm(col)
                run.check(ok, rule, f, c, 'with a qubit mask the kernel must receive exactly the masked qubits\' (x,z) columns self.gs[:, repeat(mask, 2)]; '
                          '%s (a contiguous block or any other selection acts on the wrong qubits for masks with gaps)' % why)
    return n


# --------------------------------------------------------------------------- row permutations by execution
class _Vec:
    """A row-label vector for executing map_to_state / state_to_map on labels: slices, index vectors, element and slice
    stores, elementwise integer arithmetic (for index vectors)."""
    def __init__(self, items):
        self.v = list(items)

    def __len__(self):
        return len(self.v)

    def _bin(self, o, f):
        if isinstance(o, _Vec):
            return _Vec(f(a, b) for a, b in zip(self.v, o.v))
        return _Vec(f(a, o) for a in self.v)

    def __add__(self, o):
        return self._bin(o, lambda a, b: a + b)
    __radd__ = __add__

    def __mul__(self, o):
        return self._bin(o, lambda a, b: a * b)
    __rmul__ = __mul__

    def __sub__(self, o):
        return self._bin(o, lambda a, b: a - b)

    def __getitem__(self, i):
        if isinstance(i, _Vec):
            return _Vec(self.v[k] for k in i.v)
        if isinstance(i, slice):
            return _Vec(self.v[i])
        if isinstance(i, tuple):          # [rows, ...] : only the row index matters for labels
            return self[i[0]]
        return self.v[i]

    def __setitem__(self, i, val):
        if isinstance(i, _Vec):
            vals = val.v if isinstance(val, _Vec) else [val] * len(i.v)
            for k, x in zip(i.v, vals):
                self.v[k] = x
        elif isinstance(i, slice):
            idx = range(*i.indices(len(self.v)))
            vals = val.v if isinstance(val, _Vec) else [val] * len(idx)
            if len(vals) != len(idx):
                raise ValueError('shape mismatch in slice store')
            for k, x in zip(idx, vals):
                self.v[k] = x
        else:
            self.v[i] = val

    def __eq__(self, o):
        return isinstance(o, _Vec) and self.v == o.v

    def __repr__(self):
        return repr(self.v)


def permutation_exec(f, N):
    """Execute a conversion kernel f(gs_in, ps_in) on label vectors of 2N rows with the checker's interpreter; returns
    (gs_out labels, ps_out labels) or raises Undecidable.  Reads loops, slices with any bounds, index vectors built with
    arange, concatenation and stack+reshape interleaving."""
    from .. import mini
    gname, pname = f.posparams[0], f.posparams[1]
    env = {gname: _Vec('g%d' % i for i in range(2 * N)), pname: _Vec('p%d' % i for i in range(2 * N))}

    def sl(node, rec):
        if isinstance(node, ast.Slice):
            return slice(rec(node.lower) if node.lower is not None else None, rec(node.upper) if node.upper is not None else None,
                         rec(node.step) if node.step is not None else None)
        if isinstance(node, ast.Tuple):
            return tuple(sl(e, rec) for e in node.elts)
        if isinstance(node, ast.Constant) and node.value is Ellipsis:
            return Ellipsis
        return rec(node)

    def sub(nd, env_, rec):
        base = rec(nd.value)
        try:
            return base[sl(nd.slice, rec)]
        except (TypeError, IndexError, KeyError) as e:
            raise Undecidable('subscript %s: %s' % (norm(nd), e))

    def attr(nd, env_, rec):
        if nd.attr == 'shape':
            v = rec(nd.value)
            if isinstance(v, _Vec):
                return (len(v), 2 * N) if norm(nd.value) == gname or norm(nd.value).startswith('g') else (len(v),)
        if norm(nd.value) in ('numpy', 'np', 'torch'):
            return ('lib', nd.attr)
        raise Undecidable('attribute ' + norm(nd))

    def call(nd, env_, rec):
        fn = nd.func
        last = norm(fn).split('.')[-1]
        args = [rec(a) for a in nd.args]
        if last in ('empty_like', 'zeros_like') and args and isinstance(args[0], _Vec):
            return _Vec([None] * len(args[0]))
        if last in ('empty', 'zeros') and args:
            n = args[0][0] if isinstance(args[0], tuple) else args[0]
            return _Vec([None] * n)
        if last == 'arange':
            return _Vec(range(*args))
        if last in ('cat', 'concatenate', 'concat', 'hstack', 'vstack') and args and isinstance(args[0], tuple):
            out = []
            for part in args[0]:
                out.extend(part.v)
            return _Vec(out)
        if last == 'stack' and args and isinstance(args[0], tuple) and len(args[0]) == 2:
            dim = args[1] if len(args) > 1 else next((rec(k.value) for k in nd.keywords if k.arg in ('dim', 'axis')), 0)
            a, b = args[0]
            if dim == 1:
                return ('stack1', a, b)
            raise Undecidable('stack dim')
        if last in ('reshape', 'view') and isinstance(fn, ast.Attribute):
            base = rec(fn.value)
            if isinstance(base, tuple) and base and base[0] == 'stack1':
                out = []
                for x, y in zip(base[1].v, base[2].v):
                    out += [x, y]
                return _Vec(out)
            if isinstance(base, _Vec):
                return base
        if last in ('copy', 'clone', 'long', 'to', 'astype', 'contiguous') and isinstance(fn, ast.Attribute):
            return rec(fn.value)
        raise Undecidable('call ' + norm(fn))

    def on_store(t, v, env_, value):
        if isinstance(t, ast.Subscript) and isinstance(t.value, ast.Name) and isinstance(env_.get(t.value.id), _Vec):
            if v is Undecidable:
                raise Undecidable('stored value')

            def rec(n):
                return value(n)
            try:
                env_[t.value.id][sl(t.slice, rec)] = v
            except (TypeError, IndexError, ValueError) as e:
                raise Undecidable('store %s: %s' % (norm(t), e))
    out = []
    mini.execute(f.node, env, sub=sub, attr=attr, call=call, on_store=on_store, result=out)
    if not out or not (isinstance(out[0], tuple) and len(out[0]) == 2 and all(isinstance(x, _Vec) for x in out[0])):
        raise Undecidable('the kernel does not return (strings, phases)')
    return out[0][0].v, out[0][1].v


def check_unique_scatter(run, f, rule='R13.unique'):
    """`u, first = unique(A, return_index=True)` gives, for every distinct item, the position of its FIRST occurrence.  Storing
    per-item results back through `first` (`out[first] = ...`) fills only those positions: every repeated item keeps the initial
    value.  Results per distinct item are spread over the original order with the inverse index (return_inverse)."""
    n = 0
    for st, ctx in walk(f.node):
        if not (isinstance(st, ast.Assign) and isinstance(st.value, ast.Call) and norm(st.value.func).split('.')[-1] == 'unique'
                and isinstance(st.targets[0], ast.Tuple)):
            continue
        kws = [k.arg for k in st.value.keywords if getattr(k.value, 'value', None) is True and k.arg in ('return_index', 'return_inverse', 'return_counts')]
        order = [k for k in ('return_index', 'return_inverse', 'return_counts') if k in kws]
        if 'return_index' not in order or len(st.targets[0].elts) != 1 + len(order):
            continue
        t = st.targets[0].elts[1 + order.index('return_index')]
        if not isinstance(t, ast.Name):
            continue
        n += 1
        bad = None
        for s2, _ in walk(f.node):
            if isinstance(s2, (ast.Assign, ast.AugAssign)):
                for tg in (s2.targets if isinstance(s2, ast.Assign) else [s2.target]):
                    if isinstance(tg, ast.Subscript) and any(isinstance(x, ast.Name) and x.id == t.id for x in ast.walk(tg.slice)):
                        bad = s2
        run.check(bad is None, rule, f, bad if bad is not None else st, 'results per distinct item are stored back through the first-occurrence index `%s` of unique(): '
                  'every repeated item keeps its initial value (the inverse index spreads them over all occurrences)' % t.id)
    return n
