"""R5 INOUT -- in/out discipline at kernel call sites.

A kernel parameter that is returned by the kernel is an in/out value.  It is *by value* when the kernel
rebinds the parameter name (scalars such as `r -= 1`, and every array of a functional torch kernel);
otherwise the kernel works in place on the caller's array.  At a call site whose actual is a live object's
field, a by-value result must be stored back into that same field; a result computed from a gathered copy
(fancy-indexed selection of a field) must be scattered back through the identical index.
"""
import ast

from ..flow import walk
from ..model import Func, norm


def rebinds(fn, param):
    """True iff the function assigns the bare parameter name (rebinding => the caller sees nothing)."""
    for st, ctx in walk(fn.node):
        if isinstance(st, ast.Assign):
            stack = list(st.targets)
            while stack:
                t = stack.pop()
                if isinstance(t, (ast.Tuple, ast.List)):
                    stack.extend(t.elts)
                elif isinstance(t, ast.Name) and t.id == param:
                    # `x = x.scatter(...)`/`x = (x + ...) % 2`: functional update
                    return True
        elif isinstance(st, ast.AugAssign) and isinstance(st.target, ast.Name) and st.target.id == param:
            return True
    return False


def stores_into(fn, param):
    for st, ctx in walk(fn.node):
        tg = []
        if isinstance(st, ast.Assign):
            tg = list(st.targets)
        elif isinstance(st, ast.AugAssign):
            tg = [st.target]
        stack = tg
        while stack:
            t = stack.pop()
            if isinstance(t, (ast.Tuple, ast.List)):
                stack.extend(t.elts)
            elif isinstance(t, ast.Subscript):
                b = t.value
                while isinstance(b, ast.Subscript):
                    b = b.value
                if isinstance(b, ast.Name) and b.id == param:
                    return True
    return False


def inout_components(fn):
    """[(return position, param name, by_value)] for return-tuple elements that are parameters."""
    rets = [st.value for st, _ in walk(fn.node) if isinstance(st, ast.Return) and st.value is not None]
    if not rets:
        return []
    out = {}
    for r in rets:
        elts = r.elts if isinstance(r, ast.Tuple) else [r]
        for i, e in enumerate(elts):
            if isinstance(e, ast.Name) and e.id in fn.posparams:
                out[(i, e.id)] = rebinds(fn, e.id)
    return [(i, p, bv) for (i, p), bv in sorted(out.items())]


def is_field_lvalue(n):
    """X.attr or X.attr[...] with X a plain name: storage that outlives the call."""
    m = n
    while isinstance(m, ast.Subscript):
        m = m.value
    return isinstance(m, ast.Attribute) and isinstance(m.value, ast.Name)


def is_gather(n):
    """Subscript of a field with a non-basic (array / mask) index: numpy and torch return a copy."""
    if not (isinstance(n, ast.Subscript) and is_field_lvalue(n)):
        return False
    idx = n.slice
    elts = idx.elts if isinstance(idx, ast.Tuple) else [idx]
    for e in elts:
        if isinstance(e, ast.Slice) or isinstance(e, ast.Constant):
            continue
        if isinstance(e, ast.Name) or isinstance(e, (ast.Call, ast.UnaryOp, ast.List)):
            return True
    return False


MAYBE_COPY = {'ascontiguousarray', 'asarray', 'array', 'astype', 'copy', 'clone', 'contiguous', 'asfortranarray', 'require', 'to', 'as_tensor',
              'tensor', 'atleast_1d', 'atleast_2d', 'reshape', 'ravel', 'flatten'}


def _read_after(f, name, st):
    """the local is read by a statement after `st` (then the updated private array is still used)"""
    after = False
    for s2, _ in walk(f.node):
        if s2 is st:
            after = True
            continue
        if after and not any(s2 is x for x in ast.walk(st)):
            if any(isinstance(x, ast.Name) and x.id == name and isinstance(x.ctx, ast.Load) for x in ast.walk(s2)):
                return True
    return False


def _stored_later(f, name, field, st):
    after = False
    for s2, _ in walk(f.node):
        if s2 is st:
            after = True
            continue
        if after and isinstance(s2, ast.Assign) and any(norm(t) == field for t in s2.targets) and isinstance(s2.value, ast.Name) and s2.value.id == name:
            return True
    return False


def check_site(run, repo, f, st, call, callee, rule='R5'):
    """One call site of a kernel with in/out components."""
    from .resolve import bind
    comps = inout_components(callee)
    mapping, err = bind(callee, call, False)
    if err:
        return 0
    targets = None
    if isinstance(st, ast.Assign) and st.value is call and len(st.targets) == 1:
        t = st.targets[0]
        targets = t.elts if isinstance(t, (ast.Tuple, ast.List)) else [t]
    n = 0
    for pos, param, byval in comps:
        actual = mapping.get(param)
        if actual is None:
            continue
        maybe_copy = None
        if (isinstance(actual, ast.Name) and actual.id not in f.params) or isinstance(actual, ast.Call):
            # a local handed to the kernel: an alias of a field is that field; the result of a conversion that copies when it
            # has to (ascontiguousarray / asarray / array / astype / copy ...) is a possibly private array, like a gathered
            # selection - what the kernel writes into it reaches the object only if the result is stored back
            from ..names import deref
            d = deref(f, actual) if isinstance(actual, ast.Name) else actual
            lname = actual.id if isinstance(actual, ast.Name) else None
            if is_field_lvalue(d):
                actual = d
            elif isinstance(d, ast.Call) and norm(d.func).split('.')[-1] in MAYBE_COPY:
                src = [a for a in list(d.args) + ([d.func.value] if isinstance(d.func, ast.Attribute) else []) if is_field_lvalue(a)]
                if src and stores_into(callee, param) and (lname is None or not _read_after(f, lname, st)):
                    maybe_copy = src[0]
        if maybe_copy is not None:
            n += 1
            tgt = targets[pos] if (targets is not None and pos < len(targets)) else None
            stored = tgt is not None and (norm(tgt) == norm(maybe_copy) or (isinstance(tgt, ast.Name) and _stored_later(f, tgt.id, norm(maybe_copy), st)))
            run.check(stored, rule, f, st, 'the kernel updates `%s` in place, but it is handed `%s`, which may be a private copy of %s (%s copies whenever it '
                      'has to convert), and neither that array nor the result is stored back: the update is lost whenever a copy was made'
                      % (param, norm(mapping.get(param)), norm(maybe_copy), norm(d.func)), '%s -> %s' % (param, norm(maybe_copy)))
            continue
        live = is_field_lvalue(actual)
        gather = is_gather(actual)
        if not live:
            continue
        n += 1
        tgt = targets[pos] if (targets is not None and pos < len(targets)) else None
        stored = tgt is not None and norm(tgt) == norm(actual)
        if byval or gather:
            why = ('the kernel returns the new `%s` by value' % param) if byval else \
                  ('`%s` is a gathered copy of the field' % norm(actual))
            run.check(stored, rule, f, st,
                      '%s, but the result is %s instead of being stored back into %s: the object keeps a stale value'
                      % (why, ('bound to `%s`' % norm(tgt)) if tgt is not None else 'discarded', norm(actual)),
                      '%s -> %s' % (param, norm(actual)))
        else:
            # in-place array: returning alias may be dropped; if it is stored it must go to the same field
            if tgt is not None and is_field_lvalue(tgt):
                run.check(stored, rule, f, st, 'in-place result for `%s` is stored into %s, not into %s'
                          % (param, norm(tgt), norm(actual)), '%s -> %s' % (param, norm(actual)))
            else:
                run.ok(rule, f, st, 'in-place array `%s`; alias not needed' % param)
    # gather/scatter symmetry for fresh results (pauli_transform): target field subscript == actual subscript
    if targets is not None:
        for a in mapping.values():
            if is_gather(a):
                base = norm(a.value)
                for t in targets:
                    if isinstance(t, (ast.Subscript, ast.Attribute)) and is_field_lvalue(t):
                        tb = norm(t.value) if isinstance(t, ast.Subscript) else norm(t)
                        if tb == base:
                            n += 1
                            run.check(norm(t) == norm(a), rule + '.scatter', f, st,
                                      'result computed from the gathered selection %s is scattered to %s: gather '
                                      'and scatter index differ' % (norm(a), norm(t)))
                        elif isinstance(t, ast.Attribute) and norm(t) == base:
                            n += 1
                            run.violation(rule + '.scatter', f, st, 'result computed from the selection %s '
                                          'overwrites the whole field %s' % (norm(a), norm(t)))
    return n


def check_function(run, repo, f, kernels, rule='R5'):
    """All call sites in f of the named kernels."""
    n = 0
    for st, ctx in walk(f.node):
        if isinstance(st, ast.Assign):
            call = st.value
        elif isinstance(st, ast.Expr):
            call = st.value
        else:
            continue
        if not (isinstance(call, ast.Call) and isinstance(call.func, ast.Name)):
            continue
        callee = repo.resolve_local(f, call.func.id)
        if not isinstance(callee, Func) or callee.name not in kernels:
            continue
        n += check_site(run, repo, f, st, call, callee, rule)
    return n
