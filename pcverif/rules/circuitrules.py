"""R10 ORDER and R11 GUARD instances for the circuit classes."""
import ast

from ..flow import walk, is_const_false, is_const_true
from ..model import norm, walk_local
from . import guards

ASC, DESC = 'ascending', 'descending'


# --------------------------------------------------------------------------- R10 generators
def generator_direction(f):
    """Direction of a layer generator from its body: (start field, step field) -> ASC / DESC / 'mismatch'."""
    start = step = None
    var = None
    for st, ctx in walk(f.node):
        if isinstance(st, ast.Assign) and isinstance(st.targets[0], ast.Name) and isinstance(st.value, ast.Attribute):
            v = st.value
            if not ctx.loops and isinstance(v.value, ast.Name) and v.value.id == 'self':
                start, var = v.attr, st.targets[0].id
            elif ctx.loops and isinstance(v.value, ast.Name) and v.value.id == st.targets[0].id:
                step = v.attr
    if (start, step) == ('first_layer', 'next_layer'):
        return ASC, (start, step)
    if (start, step) == ('last_layer', 'prev_layer'):
        return DESC, (start, step)
    if start is None or step is None:
        return None, (start, step)
    return 'mismatch', (start, step)


def check_generators(run, repo, cls, rule='R10.gen'):
    dirs = {}
    for name, want in (('layers_forward', ASC), ('layers_backward', DESC)):
        m = cls.methods.get(name)
        if m is None:
            continue
        d, (a, b) = generator_direction(m)
        dirs[name] = d
        if d is None:
            run.undecided(rule, m, name, 'generator shape not recognised (start=%s, step=%s)' % (a, b))
        else:
            run.check(d == want, rule, m, '%s: %s -> %s' % (name, a, b),
                      '%s must walk the layers %s (start at %s, step %s): found start=%s step=%s'
                      % (name, want, 'first_layer' if want == ASC else 'last_layer',
                         'next_layer' if want == ASC else 'prev_layer', a, b))
        ylds = [n for n in walk_local(m.node) if isinstance(n, ast.Yield)]
        run.check(len(ylds) == 1, rule, m, 'yield', 'the generator must yield every visited layer exactly once')
    return dirs


def iter_direction(it, dirs):
    """Direction of `self.layers_forward()` / `reversed(...)` / list(...) expressions."""
    if isinstance(it, ast.Call):
        fn = it.func
        if isinstance(fn, ast.Name) and fn.id == 'reversed' and it.args:
            d = iter_direction(it.args[0], dirs)
            return {ASC: DESC, DESC: ASC}.get(d)
        if isinstance(fn, ast.Name) and fn.id in ('list', 'tuple', 'iter') and it.args:
            return iter_direction(it.args[0], dirs)
        if isinstance(fn, ast.Name) and fn.id == 'enumerate' and it.args:
            return iter_direction(it.args[0], dirs)
        if isinstance(fn, ast.Attribute) and fn.attr in dirs:
            return dirs[fn.attr]
    return None


def check_application_order(run, f, dirs, method, rule='R10.order'):
    """In `forward` every loop applying layer.forward must be ascending; in `backward`, descending."""
    want = ASC if method == 'forward' else DESC
    n = 0
    for st, ctx in walk(f.node):
        if not isinstance(st, ast.For):
            continue
        applies = [c for c in ast.walk(st) if isinstance(c, ast.Call) and isinstance(c.func, ast.Attribute)
                   and c.func.attr in ('forward', 'backward') and isinstance(c.func.value, ast.Name)
                   and isinstance(st.target, ast.Name) and c.func.value.id == st.target.id]
        if not applies:
            continue
        d = iter_direction(st.iter, dirs)
        if d is None:
            continue   # loops over gates of one layer: disjoint supports, order irrelevant
        n += 1
        run.check(d == want, rule, f, st.iter, '%s must apply the layers in %s order (found %s): a circuit is the ordered '
                  'product of its layers' % (f.qual, want, d))
        for c in applies:
            run.check(c.func.attr == method, rule, f, c, '%s must call %s on every layer, found %s' % (f.qual, method, c.func.attr))
    return n


def check_compile_folds(run, f, dirs, rule='R10.fold', only=None):
    """forward map = ascending product of layer forward maps; backward map = descending product of layer backward
    maps (or the inverse of the forward map).  acc.compose(x) appends, x.compose(acc) prepends."""
    n = 0
    # in-place accumulation: self.X.transform_by(layer.X) transforms the accumulated rows by the layer map = append
    for st, ctx in walk(f.node):
        if isinstance(st, ast.Expr) and isinstance(st.value, ast.Call) and isinstance(st.value.func, ast.Attribute) \
                and st.value.func.attr == 'transform_by' and ctx.loops and len(st.value.args) == 1:
            recv, arg = norm(st.value.func.value), norm(st.value.args[0])
            lp = ctx.loops[-1]
            lv = lp.target.id if isinstance(lp, ast.For) and isinstance(lp.target, ast.Name) else None
            for which in ('forward_map', 'backward_map'):
                if only is not None and which != only:
                    continue
                if recv == 'self.' + which and arg == '%s.%s' % (lv, which):
                    d = iter_direction(lp.iter, dirs)
                    if d is None:
                        run.undecided(rule, f, st, 'direction of the layer loop unknown')
                        continue
                    order = d          # append keeps the loop direction
                    want = ASC if which == 'forward_map' else DESC
                    n += 1
                    run.check(order == want, rule, f, st, 'compiled %s is accumulated in place as the %s product of the layer maps, it must be the %s one '
                              '((F1 F2)^-1 = F2^-1 F1^-1): transforming the accumulated map by each layer map appends it' % (which, order, want))
    for st, ctx in walk(f.node):
        if not (isinstance(st, ast.Assign) and isinstance(st.targets[0], ast.Attribute)
                and st.targets[0].attr in ('forward_map', 'backward_map') and norm(st.targets[0].value) == 'self'):
            continue
        which = st.targets[0].attr
        if only is not None and which != only:
            continue
        v = st.value
        if not ctx.loops:
            if isinstance(v, ast.Call) and isinstance(v.func, ast.Attribute) and v.func.attr == 'inverse':
                other = 'forward_map' if which == 'backward_map' else 'backward_map'
                n += 1
                run.check(norm(v.func.value) == 'self.' + other, rule, f, st, '%s may only be obtained as the inverse of self.%s' % (which, other))
            continue
        lp = ctx.loops[-1]
        d = iter_direction(lp.iter, dirs) if isinstance(lp, ast.For) else None
        if not (isinstance(v, ast.Call) and isinstance(v.func, ast.Attribute) and v.func.attr == 'compose' and len(v.args) == 1):
            run.undecided(rule, f, st, 'fold step is not a compose call')
            continue
        recv, arg = norm(v.func.value), norm(v.args[0])
        acc = 'self.' + which
        lv = lp.target.id if isinstance(lp.target, ast.Name) else None
        layer_map = '%s.%s' % (lv, which)
        if recv == acc and arg == layer_map:
            mode = 'append'
        elif arg == acc and recv == layer_map:
            mode = 'prepend'
        else:
            n += 1
            run.violation(rule, f, st, 'the fold of %s must compose the accumulated map with the %s of the current layer '
                          '(found %s.compose(%s))' % (which, which, recv, arg))
            continue
        if d is None:
            run.undecided(rule, f, st, 'direction of the layer loop unknown')
            continue
        # resulting product order
        order = ASC if (d == ASC and mode == 'append') or (d == DESC and mode == 'prepend') else DESC
        want = ASC if which == 'forward_map' else DESC
        n += 1
        run.check(order == want, rule, f, st,
                  'compiled %s is the %s product of the layer maps, it must be the %s one ((F1 F2)^-1 = F2^-1 F1^-1): '
                  '%s while iterating %s' % (which, order, want, mode, d))
    return n


def check_recompile(run, f, rule='R11.recompile'):
    """compile() of a circuit recompiles EVERY (unitary) layer: layers are not frozen once compiled (take / compose let later gates
    land in existing layers), so a layer map kept from an earlier compile may miss gates."""
    n = 0
    for st, ctx in walk(f.node):
        if isinstance(st, ast.Expr) and isinstance(st.value, ast.Call) and isinstance(st.value.func, ast.Attribute) \
                and st.value.func.attr == 'compile' and ctx.loops and isinstance(st.value.func.value, ast.Name):
            lp = ctx.loops[-1]
            if not (isinstance(lp, ast.For) and isinstance(lp.target, ast.Name) and lp.target.id == st.value.func.value.id):
                continue
            inner = [c for c in ctx.conds if getattr(c[0], 'lineno', 0) > lp.lineno]
            bad = [norm(t) for t, pol in inner if 'MeasureLayer' not in norm(t)]
            n += 1
            run.check(not bad, rule, f, st, 'the layer is recompiled only under the condition %s: a layer compiled earlier that has taken gates since '
                      'keeps a stale map' % bad)
    return n


def check_linked_list(run, f, rule='R10.link'):
    """Appending a layer: X.last_layer.next_layer = new; new.prev_layer = X.last_layer; X.last_layer = new."""
    n = 0
    for st, ctx in walk(f.node):
        if not (isinstance(st, ast.Assign) and isinstance(st.targets[0], ast.Attribute)
                and st.targets[0].attr == 'last_layer' and isinstance(st.value, ast.Name)):
            continue
        owner = norm(st.targets[0].value)
        new = st.value.id
        block = ctx.block
        idx = ctx.index
        before = block[:idx]
        texts = [norm(s).replace(' ', '') for s in before if isinstance(s, ast.Assign)]
        first = any(t == '%s.first_layer=%s' % (owner, new) for t in texts)
        nxt = '%s.last_layer.next_layer=%s' % (owner, new)
        prv = '%s.prev_layer=%s.last_layer' % (new, owner)
        n += 1
        if first:
            run.ok(rule, f, st, 'first layer of a fresh chain')
            continue
        run.check(nxt in texts and prv in texts, rule, f, st,
                  'appending layer `%s`: both links must be set before last_layer moves (%s ; %s)' % (new, nxt, prv))
    return n


# --------------------------------------------------------------------------- R11 take guards
def check_take(run, repo, f, has_measure, rule='R11.take'):
    """Hand-over of a gate to an earlier layer is allowed only across layers it does not overlap, never across a
    measurement layer, and the gate is placed exactly once on every path."""
    gate = f.posparams[1]
    n = 0
    for st, ctx in walk(f.node):
        for c in ast.walk(st) if isinstance(st, (ast.Expr, ast.Assign, ast.Return)) else []:
            if isinstance(c, ast.Call) and isinstance(c.func, ast.Attribute) and c.func.attr == 'take' \
                    and [norm(a) for a in c.args] == [gate] and norm(c.func.value) != 'self':
                recv = norm(c.func.value)
                req = [('%s.independent_from(%s)' % (recv, gate), True)]
                ok, nm = guards.entails(ctx.conds, req)
                n += 1
                run.check(ok, rule, f, c, 'the gate may slide into %s only if %s.independent_from(%s) holds on this path'
                          % (recv, recv, gate))
                if recv.endswith('prev_layer'):
                    ok2, _ = guards.entails(ctx.conds, [('%s is None' % recv, False)])
                    run.check(ok2, rule, f, c, '%s may be None here' % recv)
                if has_measure:
                    ok3, _ = guards.entails(ctx.conds, [('isinstance(%s, MeasureLayer)' % recv, False)])
                    n += 1
                    run.check(ok3, rule + '.measure', f, c,
                              'a gate added after a measurement must never move in front of it: the hand-over to %s is not '
                              'excluded when it is a MeasureLayer' % recv)
    return n


def check_placement(run, f, rule='R11.place'):
    """Every non-raising path of take() places the gate exactly once (append / delegate / new layer)."""
    gate = f.posparams[1]
    n = 0
    for p, end in guards.paths(f.node.body):
        if end == 'raise':
            continue
        places = 0
        for s in p:
            if isinstance(s, tuple):
                continue
            for c in ast.walk(s):
                if isinstance(c, ast.Call) and isinstance(c.func, ast.Attribute) and c.func.attr in ('append', 'take') \
                        and [norm(a) for a in c.args] == [gate]:
                    places += 1
                elif isinstance(c, ast.Call) and isinstance(c.func, ast.Name) and c.func.id == 'CliffordLayer' \
                        and [norm(a) for a in c.args] == [gate]:
                    places += 1
                elif isinstance(c, ast.Assign if False else ast.Call) and False:
                    pass
            if isinstance(s, ast.Assign) and isinstance(s.targets[0], ast.Attribute) and s.targets[0].attr == 'last_layer' \
                    and norm(s.value) == gate:
                places += 1      # a measurement layer becomes the last layer
        n += 1
        conds = ' and '.join(('' if x[2] else 'not ') + norm(x[1]) for x in p if isinstance(x, tuple)) or 'always'
        run.check(places == 1, rule, f, 'path [%s]' % conds[:120],
                  'on this path the gate is placed %d times (must be exactly once)' % places)
    return n


def check_bound_raise(run, f, rule='R11.bound'):
    """max(qubits) >= self.N raises."""
    for st, ctx in walk(f.node):
        if isinstance(st, ast.Raise):
            for t, pol in ctx.conds:
                txt = norm(t).replace(' ', '')
                if pol and 'max(' in txt and '>=self.N' in txt:
                    run.ok(rule, f, t)
                    return True
    run.violation(rule, f, f.qual, 'qubits outside the register (max(qubits) >= self.N) must be rejected')
    return False


# --------------------------------------------------------------------------- R13.cache derived container fields
CONTAINER_MUTATORS = {'append', 'extend', 'insert', 'remove', 'pop', 'add', 'update', 'clear', 'discard'}


def check_cache_coherence(run, repo, cls, rule='R13.cache'):
    """If __init__ derives two container fields from the same source (self.B is a summary of what self.A holds), every
    block that mutates one of them outside __init__ must mutate the other: otherwise the summary goes stale."""
    ini = cls.methods.get('__init__')
    if ini is None:
        return 0
    src = {}
    for st, ctx in walk(ini.node):
        if isinstance(st, ast.Assign) and isinstance(st.targets[0], ast.Attribute) and norm(st.targets[0].value) == 'self':
            names = {n.id for n in ast.walk(st.value) if isinstance(n, ast.Name)} & set(ini.params)
            attrs = {n.attr for n in ast.walk(st.value) if isinstance(n, ast.Attribute) and norm(n.value) == 'self'}
            src[st.targets[0].attr] = (names, attrs)
    pairs = []
    fields = sorted(src)
    for i, a in enumerate(fields):
        for b in fields[i + 1:]:
            if (src[a][0] & src[b][0]) or a in src[b][1] or b in src[a][1]:
                pairs.append((a, b))
    if not pairs:
        return 0
    muts = {}
    for name, m in cls.methods.items():
        if name == '__init__':
            continue
        for st, ctx in walk(m.node):
            for c in (ast.walk(st) if isinstance(st, (ast.Expr, ast.Assign, ast.AugAssign)) else []):
                if isinstance(c, ast.Call) and isinstance(c.func, ast.Attribute) and c.func.attr in CONTAINER_MUTATORS \
                        and isinstance(c.func.value, ast.Attribute) and norm(c.func.value.value) == 'self':
                    muts.setdefault(c.func.value.attr, []).append((m, st, ctx))
    n = 0
    for a, b in pairs:
        if a not in muts and b not in muts:
            continue
        for x, y in ((a, b), (b, a)):
            for m, st, ctx in muts.get(x, []):
                same_block = any(c2.block is ctx.block for m2, s2, c2 in muts.get(y, []) if m2 is m)
                n += 1
                run.check(same_block, rule, m, st, 'self.%s and self.%s are built from the same source in __init__ (one summarises the other); this '
                          'block changes self.%s without changing self.%s, which goes stale' % (x, y, x, y))
    return n
