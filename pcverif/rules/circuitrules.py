"""R10 ORDER and R11 GUARD instances for the circuit classes."""
import ast

from ..exprnf import Undecidable
from ..flow import walk, is_const_false, is_const_true
from ..model import norm, walk_local
from . import guards

ASC, DESC = 'ascending', 'descending'


# --------------------------------------------------------------------------- R10 generators
def generator_direction(f):
    """Direction of a layer generator from its body: (start field, step field) -> ASC / DESC / 'mismatch'."""
    start = step = None
    var = None
    for st, ctx in walk(f.node):
        if isinstance(st, ast.Assign) and isinstance(st.targets[0], ast.Name) and isinstance(st.value, ast.Attribute):
            v = st.value
            if not ctx.loops and isinstance(v.value, ast.Name) and v.value.id == 'self':
                start, var = v.attr, st.targets[0].id
            elif ctx.loops and isinstance(v.value, ast.Name) and v.value.id == st.targets[0].id:
                step = v.attr
    if (start, step) == ('first_layer', 'next_layer'):
        return ASC, (start, step)
    if (start, step) == ('last_layer', 'prev_layer'):
        return DESC, (start, step)
    if start is None or step is None:
        return None, (start, step)
    return 'mismatch', (start, step)


def check_generators(run, repo, cls, rule='R10.gen'):
    dirs = {}
    for name, want in (('layers_forward', ASC), ('layers_backward', DESC)):
        m = cls.methods.get(name)
        if m is None:
            continue
        d, (a, b) = generator_direction(m)
        dirs[name] = d
        if d is None:
            run.undecided(rule, m, name, 'generator shape not recognised (start=%s, step=%s)' % (a, b))
        else:
            run.check(d == want, rule, m, '%s: %s -> %s' % (name, a, b),
                      '%s must walk the layers %s (start at %s, step %s): found start=%s step=%s'
                      % (name, want, 'first_layer' if want == ASC else 'last_layer',
                         'next_layer' if want == ASC else 'prev_layer', a, b))
        ylds = [n for n in walk_local(m.node) if isinstance(n, ast.Yield)]
        run.check(len(ylds) == 1, rule, m, 'yield', 'the generator must yield every visited layer exactly once')
    return dirs


def iter_direction(it, dirs):
    """Direction of `self.layers_forward()` / `reversed(...)` / list(...) expressions."""
    if isinstance(it, ast.Call):
        fn = it.func
        if isinstance(fn, ast.Name) and fn.id == 'reversed' and it.args:
            d = iter_direction(it.args[0], dirs)
            return {ASC: DESC, DESC: ASC}.get(d)
        if isinstance(fn, ast.Name) and fn.id in ('list', 'tuple', 'iter') and it.args:
            return iter_direction(it.args[0], dirs)
        if isinstance(fn, ast.Name) and fn.id == 'enumerate' and it.args:
            return iter_direction(it.args[0], dirs)
        if isinstance(fn, ast.Attribute) and fn.attr in dirs:
            return dirs[fn.attr]
    return None


def check_application_order(run, f, dirs, method, rule='R10.order'):
    """In `forward` every loop applying layer.forward must be ascending; in `backward`, descending."""
    want = ASC if method == 'forward' else DESC
    n = 0
    for st, ctx in walk(f.node):
        if not isinstance(st, ast.For):
            continue
        applies = [c for c in ast.walk(st) if isinstance(c, ast.Call) and isinstance(c.func, ast.Attribute)
                   and c.func.attr in ('forward', 'backward') and isinstance(c.func.value, ast.Name)
                   and isinstance(st.target, ast.Name) and c.func.value.id == st.target.id]
        if not applies:
            continue
        d = iter_direction(st.iter, dirs)
        if d is None:
            continue   # loops over gates of one layer: disjoint supports, order irrelevant
        n += 1
        run.check(d == want, rule, f, st.iter, '%s must apply the layers in %s order (found %s): a circuit is the ordered '
                  'product of its layers' % (f.qual, want, d))
        for c in applies:
            run.check(c.func.attr == method, rule, f, c, '%s must call %s on every layer, found %s' % (f.qual, method, c.func.attr))
    return n


def check_compile_folds(run, f, dirs, rule='R10.fold', only=None):
    """forward map = ascending product of layer forward maps; backward map = descending product of layer backward
    maps (or the inverse of the forward map).  acc.compose(x) appends, x.compose(acc) prepends."""
    n = 0
    # in-place accumulation: self.X.transform_by(layer.X) transforms the accumulated rows by the layer map = append
    for st, ctx in walk(f.node):
        if isinstance(st, ast.Expr) and isinstance(st.value, ast.Call) and isinstance(st.value.func, ast.Attribute) \
                and st.value.func.attr == 'transform_by' and ctx.loops and len(st.value.args) == 1:
            recv, arg = norm(st.value.func.value), norm(st.value.args[0])
            lp = ctx.loops[-1]
            lv = lp.target.id if isinstance(lp, ast.For) and isinstance(lp.target, ast.Name) else None
            for which in ('forward_map', 'backward_map'):
                if only is not None and which != only:
                    continue
                if recv == 'self.' + which and arg == '%s.%s' % (lv, which):
                    d = iter_direction(lp.iter, dirs)
                    if d is None:
                        run.undecided(rule, f, st, 'direction of the layer loop unknown')
                        continue
                    order = d          # append keeps the loop direction
                    want = ASC if which == 'forward_map' else DESC
                    n += 1
                    run.check(order == want, rule, f, st, 'compiled %s is accumulated in place as the %s product of the layer maps, it must be the %s one '
                              '((F1 F2)^-1 = F2^-1 F1^-1): transforming the accumulated map by each layer map appends it' % (which, order, want))
    # accumulators: self.<which> itself, or a local that is stored into self.<which> (possibly by a tuple assignment)
    def _pairs(st):
        if not isinstance(st, ast.Assign) or len(st.targets) != 1:
            return []
        t, v = st.targets[0], st.value
        if isinstance(t, ast.Tuple) and isinstance(v, ast.Tuple) and len(t.elts) == len(v.elts):
            return list(zip(t.elts, v.elts))
        return [(t, v)]
    alias = {}
    for st, ctx in walk(f.node):
        for t, v in _pairs(st):
            if isinstance(t, ast.Attribute) and t.attr in ('forward_map', 'backward_map') and norm(t.value) == 'self' and isinstance(v, ast.Name):
                alias[v.id] = t.attr
    seen_fold = set()
    has_layer_loop = any(isinstance(st, ast.Expr) and isinstance(st.value, ast.Call) and isinstance(st.value.func, ast.Attribute)
                         and st.value.func.attr == 'compile' and ctx.loops for st, ctx in walk(f.node))
    for st0, ctx in walk(f.node):
      for t0, v in _pairs(st0):
        st = st0
        if isinstance(t0, ast.Attribute) and t0.attr in ('forward_map', 'backward_map') and norm(t0.value) == 'self':
            which, acc = t0.attr, 'self.' + t0.attr
            if isinstance(v, ast.Name) and v.id in alias and not ctx.loops:
                continue                    # the final store of a local accumulator
        elif isinstance(t0, ast.Name) and t0.id in alias and ctx.loops:
            which, acc = alias[t0.id], t0.id
        else:
            continue
        if only is not None and which != only:
            continue
        if not ctx.loops:
            if isinstance(v, ast.Call) and isinstance(v.func, ast.Attribute) and v.func.attr == 'inverse':
                other = 'forward_map' if which == 'backward_map' else 'backward_map'
                n += 1
                run.check(norm(v.func.value) == 'self.' + other, rule, f, st, '%s may only be obtained as the inverse of self.%s' % (which, other))
            continue
        lp = ctx.loops[-1]
        d = iter_direction(lp.iter, dirs) if isinstance(lp, ast.For) else None
        if not (isinstance(v, ast.Call) and isinstance(v.func, ast.Attribute) and v.func.attr == 'compose' and len(v.args) == 1):
            seen_fold.add(which)
            run.undecided(rule, f, st, 'fold step is not a compose call')
            continue
        recv, arg = norm(v.func.value), norm(v.args[0])
        lv = lp.target.id if isinstance(lp.target, ast.Name) else None
        layer_map = '%s.%s' % (lv, which)
        if recv == acc and arg == layer_map:
            mode = 'append'
        elif arg == acc and recv == layer_map:
            mode = 'prepend'
        else:
            n += 1
            seen_fold.add(which)
            run.violation(rule, f, st, 'the fold of %s must compose the accumulated map with the %s of the current layer '
                          '(found %s.compose(%s))' % (which, which, recv, arg))
            continue
        if d is None:
            seen_fold.add(which)
            run.undecided(rule, f, st, 'direction of the layer loop unknown')
            continue
        # resulting product order
        order = ASC if (d == ASC and mode == 'append') or (d == DESC and mode == 'prepend') else DESC
        want = ASC if which == 'forward_map' else DESC
        n += 1
        seen_fold.add(which)
        run.check(order == want, rule, f, st,
                  'compiled %s is the %s product of the layer maps, it must be the %s one ((F1 F2)^-1 = F2^-1 F1^-1): '
                  '%s while iterating %s' % (which, order, want, mode, d))
    # a compile that folds with compose somewhere in a loop must have every stored map read by this rule
    composes = any(isinstance(c, ast.Call) and isinstance(c.func, ast.Attribute) and c.func.attr == 'compose'
                   for st, ctx in walk(f.node) if ctx.loops for c in ast.walk(st))
    if composes:
        stored, derived = set(), set()
        for st, ctx in walk(f.node):
            for t, v in _pairs(st):
                if isinstance(t, ast.Attribute) and t.attr in ('forward_map', 'backward_map') and norm(t.value) == 'self':
                    stored.add(t.attr)
                    if isinstance(v, ast.Call) and isinstance(v.func, ast.Attribute) and v.func.attr == 'inverse':
                        derived.add(t.attr)
        for which in sorted(stored - seen_fold - derived):
            if only is None or which == only:
                run.undecided(rule, f, f.node, 'self.%s is stored by a compile that folds with compose, but no fold step of it was recognised' % which)
    return n


def check_recompile(run, f, rule='R11.recompile'):
    """compile() of a circuit recompiles EVERY (unitary) layer: layers are not frozen once compiled (take / compose let later gates
    land in existing layers), so a layer map kept from an earlier compile may miss gates."""
    n = 0
    for st, ctx in walk(f.node):
        if isinstance(st, ast.Expr) and isinstance(st.value, ast.Call) and isinstance(st.value.func, ast.Attribute) \
                and st.value.func.attr == 'compile' and ctx.loops and isinstance(st.value.func.value, ast.Name):
            lp = ctx.loops[-1]
            if not (isinstance(lp, ast.For) and isinstance(lp.target, ast.Name) and lp.target.id == st.value.func.value.id):
                continue
            inner = [c for c in ctx.conds if getattr(c[0], 'lineno', 0) > lp.lineno]
            bad = [norm(t) for t, pol in inner if 'MeasureLayer' not in norm(t)]
            n += 1
            run.check(not bad, rule, f, st, 'the layer is recompiled only under the condition %s: a layer compiled earlier that has taken gates since '
                      'keeps a stale map' % bad)
    return n


class _Obj:
    """A heap object of the link interpreter."""
    def __init__(self, label):
        self.label = label
        self.attrs = {}

    def __repr__(self):
        return self.label


class _Done(Exception):
    pass


class _LinkInterp:
    """Executes the straight-line / if-else statements that link layers (attribute stores, name bindings, `is None` / `== k`
    tests, constructor and .copy() calls creating fresh layers) on a small heap."""

    def __init__(self, methods=None, depth=0):
        self.env = {}
        self.fresh = []
        self.methods = methods or {}      # methods of the owner's class: a helper that does the linking is executed too
        self.depth = depth
        self.whole = False                # whole-function mode (copy methods): loops, comprehensions and constructors are followed
        self.sources = []
        self.returned = None

    def new(self, label):
        o = _Obj(label)
        o.attrs['next_layer'] = None
        o.attrs['prev_layer'] = None
        return o

    def value(self, n):
        if isinstance(n, ast.Constant):
            return n.value
        if isinstance(n, ast.Name):
            if n.id in self.env:
                return self.env[n.id]
            raise Undecidable('free name %s' % n.id)
        if isinstance(n, ast.Attribute):
            o = self.value(n.value)
            if not isinstance(o, _Obj):
                raise Undecidable('attribute of %r' % (o,))
            if n.attr not in o.attrs:
                raise Undecidable('unknown field %s.%s' % (o, n.attr))
            return o.attrs[n.attr]
        if isinstance(n, ast.Call):
            fn = norm(n.func)
            if fn.endswith('.copy') or fn.split('.')[-1] in ('CliffordLayer', 'MeasureLayer'):
                o = self.new('new%d' % len(self.fresh))
                if self.whole and fn.endswith('.copy') and isinstance(n.func, ast.Attribute):
                    try:
                        src = self.value(n.func.value)
                    except Undecidable:
                        src = None
                    if any(src is x for x in self.sources):
                        o.attrs['_copy_of'] = [k for k, x in enumerate(self.sources) if x is src][0]
                self.fresh.append(o)
                return o
            if fn.split('.')[-1] in ('CliffordCircuit', 'Circuit') and self.whole:
                # what the constructor leaves: one empty placeholder layer that is both first and last
                c = _Obj('circuit')
                ph = self.new('placeholder')
                c.attrs.update(first_layer=ph, last_layer=ph, forward_map=None, backward_map=None)
                return c
            if self.whole and isinstance(n.func, ast.Attribute) and n.func.attr == 'layers_forward' and not n.args:
                return list(self.sources)
            if self.whole and isinstance(n.func, ast.Attribute) and n.func.attr == 'layers_backward' and not n.args:
                return list(self.sources)[::-1]
            if self.whole and fn == 'reversed' and len(n.args) == 1:
                return list(self.value(n.args[0]))[::-1]
            if self.whole and fn == 'enumerate' and len(n.args) == 1:
                return list(enumerate(self.value(n.args[0])))
            if self.whole and fn == 'zip':
                return list(zip(*[self.value(a) for a in n.args]))
            if self.whole and fn in ('list', 'tuple') and len(n.args) == 1:
                return list(self.value(n.args[0]))
            if self.whole and fn == 'len' and len(n.args) == 1:
                return len(self.value(n.args[0]))
            raise Undecidable('call %s' % fn)
        if self.whole and isinstance(n, (ast.ListComp, ast.GeneratorExp)) and len(n.generators) == 1 and not n.generators[0].ifs:
            g = n.generators[0]
            out = []
            for v in self.value(g.iter):
                self.bind(g.target, v)
                out.append(self.value(n.elt))
            return out
        if self.whole and isinstance(n, ast.Subscript):
            b = self.value(n.value)
            if isinstance(b, list):
                if isinstance(n.slice, ast.Slice):
                    lo = None if n.slice.lower is None else self.value(n.slice.lower)
                    hi = None if n.slice.upper is None else self.value(n.slice.upper)
                    st_ = None if n.slice.step is None else self.value(n.slice.step)
                    return b[slice(lo, hi, st_)]
                k = self.value(n.slice)
                if isinstance(k, int):
                    try:
                        return b[k]
                    except IndexError:
                        raise Undecidable('index out of range')
            raise Undecidable('subscript %s' % norm(n))
        if self.whole and isinstance(n, ast.UnaryOp) and isinstance(n.op, ast.USub):
            return -self.value(n.operand)
        if self.whole and isinstance(n, (ast.Tuple, ast.List)):
            return [self.value(e) for e in n.elts]
        if self.whole and isinstance(n, ast.BinOp) and isinstance(n.op, (ast.Add, ast.Sub)):
            a, b = self.value(n.left), self.value(n.right)
            if isinstance(a, int) and isinstance(b, int):
                return a + b if isinstance(n.op, ast.Add) else a - b
            raise Undecidable('arithmetic')
        if isinstance(n, ast.Compare) and len(n.ops) == 1:
            a, b = self.value(n.left), self.value(n.comparators[0])
            op = n.ops[0]
            if isinstance(op, (ast.Is, ast.Eq)):
                return a is b if isinstance(a, _Obj) or isinstance(b, _Obj) or a is None or b is None else a == b
            if isinstance(op, (ast.IsNot, ast.NotEq)):
                return not (a is b if isinstance(a, _Obj) or isinstance(b, _Obj) or a is None or b is None else a == b)
            if isinstance(op, ast.Gt):
                return a > b
            if isinstance(op, ast.Lt):
                return a < b
            raise Undecidable('comparison')
        if isinstance(n, ast.UnaryOp) and isinstance(n.op, ast.Not):
            return not self.value(n.operand)
        if isinstance(n, ast.BoolOp):
            vals = [self.value(v) for v in n.values]
            return all(vals) if isinstance(n.op, ast.And) else any(vals)
        raise Undecidable('expression %s' % norm(n))

    def bind(self, t, v):
        if isinstance(t, ast.Name):
            self.env[t.id] = v
        elif isinstance(t, (ast.Tuple, ast.List)):
            vs = list(v)
            if len(vs) != len(t.elts):
                raise Undecidable('unpack')
            for a, b in zip(t.elts, vs):
                self.bind(a, b)
        else:
            raise Undecidable('loop target')

    def store(self, t, v):
        if isinstance(t, (ast.Tuple, ast.List)) and self.whole:
            vs = list(v)
            if len(vs) != len(t.elts):
                raise Undecidable('unpack')
            for a, b in zip(t.elts, vs):
                self.store(a, b)
            return
        if isinstance(t, ast.Name):
            self.env[t.id] = v
        elif isinstance(t, ast.Attribute):
            o = self.value(t.value)
            if not isinstance(o, _Obj):
                raise Undecidable('store into attribute of %r' % (o,))
            o.attrs[t.attr] = v
        else:
            raise Undecidable('store target %s' % norm(t))

    def run(self, stmts):
        LINK = ('next_layer', 'prev_layer', 'first_layer', 'last_layer')
        for st in stmts:
            if isinstance(st, ast.AugAssign) and isinstance(st.target, ast.Attribute) and st.target.attr not in LINK:
                continue          # counters and flags do not touch the chain
            if isinstance(st, ast.Assign) and all(isinstance(t, ast.Attribute) and t.attr not in LINK for t in st.targets):
                continue
            if isinstance(st, ast.Assign):
                v = self.value(st.value)
                for t in st.targets:
                    self.store(t, v)
            elif isinstance(st, ast.If):
                self.run(st.body if self.value(st.test) else st.orelse)
            elif isinstance(st, ast.Pass):
                pass
            elif isinstance(st, ast.Return):
                if self.whole and st.value is not None:
                    self.returned = self.value(st.value)
                    raise _Done()
                return
            elif isinstance(st, ast.For) and self.whole:
                for v in self.value(st.iter):
                    self.bind(st.target, v)
                    self.run(st.body)
            elif isinstance(st, ast.Expr) and isinstance(st.value, ast.Call) and isinstance(st.value.func, ast.Attribute) \
                    and st.value.func.attr in self.methods and self.depth < 2 and not st.value.keywords:
                callee = self.methods[st.value.func.attr]
                recv = self.value(st.value.func.value)
                args = [self.value(a) for a in st.value.args]
                if len(args) + 1 != len(callee.posparams):
                    raise Undecidable('call %s' % norm(st.value)[:40])
                sub = _LinkInterp(self.methods, self.depth + 1)
                sub.fresh = self.fresh
                sub.env = dict(zip(callee.posparams, [recv] + args))
                sub.run([b for b in callee.node.body])
            elif isinstance(st, ast.Expr) and isinstance(st.value, ast.Constant):
                pass
            else:
                raise Undecidable('statement %s' % norm(st)[:50])


def _chain_ok(owner, want):
    fw, o = [], owner.attrs.get('first_layer')
    while isinstance(o, _Obj) and len(fw) <= len(want) + 1:
        fw.append(o)
        o = o.attrs.get('next_layer')
    bw, o = [], owner.attrs.get('last_layer')
    while isinstance(o, _Obj) and len(bw) <= len(want) + 1:
        bw.append(o)
        o = o.attrs.get('prev_layer')
    return fw == want and bw == want[::-1], fw, bw


def check_linked_list(run, f, rule='R10.link'):
    """Every block that moves `X.last_layer` is executed by a small heap interpreter: appended to a chain A <-> B (non-loop
    blocks) or run for three iterations of the enclosing loop on a fresh owner (copy loops).  Afterwards the chain read forward
    from first_layer and backward from last_layer must be the same sequence, with every new layer in it exactly once."""
    n = 0
    done = set()
    if f.name == 'copy' and f.cls is not None:
        # the copy of a circuit: the whole method is executed on a circuit of three layers; the returned circuit must hold the three
        # copies, in order, in both directions
        try:
          cnt = 0
          for L in (1, 2, 3):        # a one-layer circuit (also the empty circuit) takes the first-iteration branch only
            it = _LinkInterp(dict(f.cls.methods))
            it.whole = True
            me = _Obj('self')
            it.sources = [it.new('src%d' % k) for k in range(L)]
            for a, b in zip(it.sources[:-1], it.sources[1:]):
                a.attrs['next_layer'], b.attrs['prev_layer'] = b, a
            me.attrs.update(first_layer=it.sources[0], last_layer=it.sources[-1], forward_map=None, backward_map=None, N=3, device='cpu')
            it.env['self'] = me
            try:
                it.run(f.node.body)
            except _Done:
                pass
            res = it.returned
            if not isinstance(res, _Obj):
                raise Undecidable('no circuit returned')
            want = it.fresh[:]
            ok, fw, bw = _chain_ok(res, want)
            ok = ok and len(want) == L and [o.attrs.get('_copy_of') for o in fw] == list(range(L))
            run.check(ok, rule, f, 'copy of a %d-layer circuit' % L, 'copying %d layer(s): read forward from first_layer the chain of the copy is %s, read backward from '
                      'last_layer it is %s; both must be the copied layers in order (next_layer / prev_layer / first_layer / last_layer must all be set; a gate '
                      'taken by the copy later lands in last_layer)' % (L, fw, bw))
            cnt += 1
          return cnt
        except Undecidable:
            pass               # not executable as a whole: the link blocks are judged one by one below
    for st, ctx in walk(f.node):
        if not (isinstance(st, ast.Assign) and any(isinstance(t, ast.Attribute) and t.attr == 'last_layer' for t in st.targets)
                and not (isinstance(st.value, ast.Attribute) and st.value.attr == 'first_layer')):
            continue
        tgt = [t for t in st.targets if isinstance(t, ast.Attribute) and t.attr == 'last_layer'][0]
        owner_name = norm(tgt.value)
        loop = ctx.loops[-1] if ctx.loops else None
        key = id(loop) if loop is not None else id(ctx.block)
        if key in done:
            continue
        done.add(key)
        n += 1
        it = _LinkInterp(dict(f.cls.methods) if f.cls is not None else {})
        owner = _Obj('owner')
        if not isinstance(tgt.value, ast.Name):
            run.undecided(rule, f, st, 'owner of the chain is not a plain name')
            continue
        it.env[owner_name] = owner
        try:
            if loop is not None and isinstance(loop, ast.For):
                owner.attrs.update(first_layer=None, last_layer=None)
                targets = loop.target.elts if isinstance(loop.target, ast.Tuple) else [loop.target]
                enum = isinstance(loop.iter, ast.Call) and norm(loop.iter.func) == 'enumerate'
                # bindings made before the loop (e.g. a `prev = None` pointer)
                for s0, c0 in walk(f.node):
                    if s0.lineno < loop.lineno and not c0.loops and isinstance(s0, ast.Assign) and isinstance(s0.value, ast.Constant):
                        for t in s0.targets:
                            if isinstance(t, ast.Name):
                                it.env[t.id] = s0.value.value
                for k in range(3):
                    src = it.new('src%d' % k)
                    if enum and len(targets) == 2:
                        it.env[targets[0].id] = k
                        it.env[targets[1].id] = src
                    elif len(targets) == 1 and isinstance(targets[0], ast.Name):
                        it.env[targets[0].id] = src
                    else:
                        raise Undecidable('loop target')
                    it.run(loop.body)
                want = it.fresh[:]
                ok, fw, bw = _chain_ok(owner, want)
                ok = ok and len(want) == 3
                what = 'copying three layers'
            else:
                a, b = it.new('A'), it.new('B')
                a.attrs['next_layer'], b.attrs['prev_layer'] = b, a
                owner.attrs.update(first_layer=a, last_layer=b)
                for prm in f.posparams[1:]:
                    it.env[prm] = it.new('arg_' + prm)
                it.run(ctx.block)
                new = [o for o in (owner.attrs.get('last_layer'),) if isinstance(o, _Obj) and o not in (a, b)]
                want = [a, b] + new
                ok, fw, bw = _chain_ok(owner, want)
                ok = ok and len(new) == 1
                what = 'appending one layer to the chain A <-> B'
        except Undecidable as e:
            run.undecided(rule, f, st, 'link block not interpretable: %s' % e)
            continue
        run.check(ok, rule, f, st, '%s: read forward from first_layer the chain is %s, read backward from last_layer it is %s; both must be the '
                  'same sequence and contain every new layer once (next_layer / prev_layer / last_layer must all be updated)' % (what, fw, bw))
    return n


# --------------------------------------------------------------------------- R11 take guards
def check_take(run, repo, f, has_measure, rule='R11.take'):
    """Hand-over of a gate to an earlier layer is allowed only across layers it does not overlap, never across a
    measurement layer, and the gate is placed exactly once on every path."""
    gate = f.posparams[1]
    n = 0
    for st, ctx in walk(f.node):
        for c in ast.walk(st) if isinstance(st, (ast.Expr, ast.Assign, ast.Return)) else []:
            if isinstance(c, ast.Call) and isinstance(c.func, ast.Attribute) and c.func.attr == 'take' \
                    and [norm(a) for a in c.args] == [gate] and norm(c.func.value) != 'self':
                recv = norm(c.func.value)
                req = [('%s.independent_from(%s)' % (recv, gate), True)]
                ok, nm = guards.entails(ctx.conds, req)
                n += 1
                run.check(ok, rule, f, c, 'the gate may slide into %s only if %s.independent_from(%s) holds on this path'
                          % (recv, recv, gate))
                if recv.endswith('prev_layer'):
                    ok2, _ = guards.entails(ctx.conds, [('%s is None' % recv, False)])
                    run.check(ok2, rule, f, c, '%s may be None here' % recv)
                if has_measure:
                    ok3, _ = guards.entails(ctx.conds, [('isinstance(%s, MeasureLayer)' % recv, False)])
                    n += 1
                    run.check(ok3, rule + '.measure', f, c,
                              'a gate added after a measurement must never move in front of it: the hand-over to %s is not '
                              'excluded when it is a MeasureLayer' % recv)
    n += check_slide(run, f, gate, has_measure, rule)
    return n


def check_slide(run, f, gate, has_measure, rule='R11.take'):
    """Iterative forms of the hand-over.  (a) a pointer that walks back through the layers (`v = v.prev_layer` in a loop)
    may only move onto a layer that was tested: the loop condition must contain `v.prev_layer.independent_from(gate)` (the layer
    moved TO, not the one being left) and `v.prev_layer is not None`.  (b) a scan `for L in ....layers_backward()` that selects
    `target = L` where L is independent must stop at the first layer that overlaps the gate (a `break` on the path where
    `L.independent_from(gate)` is false): otherwise the gate jumps over a layer it does not commute with."""
    n = 0
    stmts = list(walk(f.node))
    for st, ctx in stmts:
        if not (isinstance(st, ast.Assign) and isinstance(st.targets[0], ast.Name) and ctx.loops):
            continue
        v = st.targets[0].id
        val = st.value
        lp = ctx.loops[-1]
        from ..names import inlined
        val_i = inlined(f, val, ctx=ctx) if isinstance(val, ast.Name) else val
        if isinstance(val_i, ast.Attribute) and val_i.attr == 'prev_layer' and isinstance(lp, ast.While) \
                and not (isinstance(val_i.value, ast.Name) and val_i.value.id == v):
            continue          # `below = layer.prev_layer` only looks at the next layer; the move is the assignment to the pointer itself
        if isinstance(val_i, ast.Attribute) and val_i.attr == 'prev_layer' and isinstance(lp, ast.While):
            to = norm(val)      # the name (or expression) under which the layer moved to was tested
            n += 1
            # the loop test holds at this statement when nothing it mentions was reassigned earlier in the body
            used = {x.id for x in ast.walk(lp.test) if isinstance(x, ast.Name)}
            earlier = [s for s in lp.body if s.lineno < st.lineno]
            stale = any(isinstance(x, ast.Name) and isinstance(x.ctx, ast.Store) and x.id in used for s in earlier for x in ast.walk(s))
            conds = ctx.conds + (() if stale else ((lp.test, True),))
            ctx = type(ctx)(conds, ctx.loops, ctx.block, ctx.index, ctx.parent_stmt)
            ok, _ = guards.entails(ctx.conds, [('%s.independent_from(%s)' % (to, gate), True)])
            run.check(ok, rule, f, st, 'the pointer moves onto %s, so the loop may only continue while %s.independent_from(%s) holds: '
                      'testing another layer lets the gate slide past (or next to) a gate it overlaps' % (to, to, gate))
            ok2, _ = guards.entails(ctx.conds, [('%s is None' % to, False)])
            run.check(ok2, rule, f, st, '%s may be None here' % to)
            if has_measure:
                ok3, _ = guards.entails(ctx.conds, [('isinstance(%s, MeasureLayer)' % to, False)])
                n += 1
                run.check(ok3, rule + '.measure', f, st, 'a gate added after a measurement must never move in front of it: the move onto %s '
                          'is not excluded when it is a MeasureLayer' % to)
        elif isinstance(lp, ast.For) and isinstance(lp.target, ast.Name) and isinstance(val, ast.Name) and val.id == lp.target.id \
                and isinstance(lp.iter, ast.Call) and isinstance(lp.iter.func, ast.Attribute) and lp.iter.func.attr == 'layers_backward':
            L = lp.target.id
            n += 1
            ok, _ = guards.entails(ctx.conds, [('%s.independent_from(%s)' % (L, gate), True)])
            run.check(ok, rule, f, st, 'layer %s is selected as the host of the gate without %s.independent_from(%s) on this path' % (L, L, gate))
            stops = False
            for s2, c2 in stmts:
                if isinstance(s2, (ast.Break, ast.Return)) and c2.loops and c2.loops[-1] is lp:
                    neg, _ = guards.entails(c2.conds, [('%s.independent_from(%s)' % (L, gate), False)])
                    stops = stops or neg
            run.check(stops, rule, f, lp, 'the backward scan selects every independent layer it meets and never stops at the first layer that '
                      'overlaps the gate: the gate can jump over a layer it does not commute with')
    return n


def check_placement(run, f, rule='R11.place'):
    """Every non-raising path of take() places the gate exactly once (append / delegate / new layer)."""
    gate = f.posparams[1]
    n = 0
    for p, end in guards.paths(f.node.body):
        if end == 'raise':
            continue
        places = 0
        for s in p:
            if isinstance(s, tuple):
                continue
            for c in ast.walk(s):
                if isinstance(c, ast.Call) and isinstance(c.func, ast.Attribute) and c.func.attr in ('append', 'take') \
                        and [norm(a) for a in c.args] == [gate]:
                    places += 1
                elif isinstance(c, ast.Call) and isinstance(c.func, ast.Name) and c.func.id == 'CliffordLayer' \
                        and [norm(a) for a in c.args] == [gate]:
                    places += 1
                elif isinstance(c, ast.Assign if False else ast.Call) and False:
                    pass
            if isinstance(s, ast.Assign) and isinstance(s.targets[0], ast.Attribute) and s.targets[0].attr == 'last_layer' \
                    and norm(s.value) == gate:
                places += 1      # a measurement layer becomes the last layer
        n += 1
        conds = ' and '.join(('' if x[2] else 'not ') + norm(x[1]) for x in p if isinstance(x, tuple)) or 'always'
        run.check(places == 1, rule, f, 'path [%s]' % conds[:120],
                  'on this path the gate is placed %d times (must be exactly once)' % places)
    return n


def check_bound_raise(run, f, rule='R11.bound'):
    """max(qubits) >= self.N raises."""
    for st, ctx in walk(f.node):
        if isinstance(st, ast.Raise):
            for t, pol in ctx.conds:
                txt = norm(t).replace(' ', '')
                if pol and 'max(' in txt and '>=self.N' in txt:
                    run.ok(rule, f, t)
                    return True
    run.violation(rule, f, f.qual, 'qubits outside the register (max(qubits) >= self.N) must be rejected')
    return False


# --------------------------------------------------------------------------- R13.cache derived container fields
CONTAINER_MUTATORS = {'append', 'extend', 'insert', 'remove', 'pop', 'add', 'update', 'clear', 'discard'}


def check_cache_coherence(run, repo, cls, rule='R13.cache'):
    """If __init__ derives two container fields from the same source (self.B is a summary of what self.A holds), every
    block that mutates one of them outside __init__ must mutate the other: otherwise the summary goes stale."""
    ini = cls.methods.get('__init__')
    if ini is None:
        return 0
    src = {}
    for st, ctx in walk(ini.node):
        if isinstance(st, ast.Assign) and isinstance(st.targets[0], ast.Attribute) and norm(st.targets[0].value) == 'self':
            names = {n.id for n in ast.walk(st.value) if isinstance(n, ast.Name)} & set(ini.params)
            attrs = {n.attr for n in ast.walk(st.value) if isinstance(n, ast.Attribute) and norm(n.value) == 'self'}
            src[st.targets[0].attr] = (names, attrs)
    pairs = []
    fields = sorted(src)
    for i, a in enumerate(fields):
        for b in fields[i + 1:]:
            if (src[a][0] & src[b][0]) or a in src[b][1] or b in src[a][1]:
                pairs.append((a, b))
    if not pairs:
        return 0
    muts = {}
    for name, m in cls.methods.items():
        if name == '__init__':
            continue
        for st, ctx in walk(m.node):
            for c in (ast.walk(st) if isinstance(st, (ast.Expr, ast.Assign, ast.AugAssign)) else []):
                if isinstance(c, ast.Call) and isinstance(c.func, ast.Attribute) and c.func.attr in CONTAINER_MUTATORS \
                        and isinstance(c.func.value, ast.Attribute) and norm(c.func.value.value) == 'self':
                    muts.setdefault(c.func.value.attr, []).append((m, st, ctx))
    n = 0
    for a, b in pairs:
        if a not in muts and b not in muts:
            continue
        for x, y in ((a, b), (b, a)):
            for m, st, ctx in muts.get(x, []):
                same_block = any(c2.block is ctx.block for m2, s2, c2 in muts.get(y, []) if m2 is m)
                n += 1
                run.check(same_block, rule, m, st, 'self.%s and self.%s are built from the same source in __init__ (one summarises the other); this '
                          'block changes self.%s without changing self.%s, which goes stale' % (x, y, x, y))
    return n


def check_map_pairs(run, cls, rule='R11.pairmaps'):
    """A circuit keeps two compiled maps, and forward / backward each fall back to the layer walk only when their own map is
    absent.  An operation that assigns one of the two fields of an object without assigning the other leaves the pair
    inconsistent (one direction recomputed from the layers, the other still the compiled map of the earlier circuit).  The
    stores of helper methods called on self count for their callers; a method that is only a helper is judged there."""
    direct, calls = {}, {}
    for name, m in cls.methods.items():
        stores = {}
        for st, ctx in walk(m.node):
            tg = []
            if isinstance(st, ast.Assign):
                stack = list(st.targets)
                while stack:
                    t = stack.pop()
                    if isinstance(t, (ast.Tuple, ast.List)):
                        stack.extend(t.elts)
                    else:
                        tg.append(t)
            for t in tg:
                if isinstance(t, ast.Attribute) and t.attr in ('forward_map', 'backward_map'):
                    stores.setdefault(norm(t.value), {}).setdefault(t.attr, st)
        direct[name] = stores
        calls[name] = {c.func.attr for c in ast.walk(m.node) if isinstance(c, ast.Call) and isinstance(c.func, ast.Attribute)
                       and norm(c.func.value) == 'self' and c.func.attr in cls.methods and c.func.attr != name}
    called = set().union(*calls.values()) if calls else set()

    def closure(name, seen):
        out = {k: dict(v) for k, v in direct[name].items()}
        for h in calls[name]:
            if h in seen:
                continue
            for fld, st in closure(h, seen | {h}).get('self', {}).items():
                out.setdefault('self', {}).setdefault(fld, st)
        return out
    n = 0
    for name, m in sorted(cls.methods.items()):
        full = closure(name, {name})
        for obj, fl in sorted(full.items()):
            missing = [a for a in ('forward_map', 'backward_map') if a not in fl]
            if missing and obj == 'self' and name in called:
                continue            # a helper: its callers are judged on what they assign altogether
            n += 1
            have = [a for a in ('forward_map', 'backward_map') if a in fl]
            run.check(not missing, rule, m, fl[have[0]], '%s assigns %s.%s and leaves %s.%s as it was: forward and backward of the circuit then use maps of '
                      'two different circuits' % (m.qual, obj, have[0], obj, missing[0] if missing else ''))
    return n
