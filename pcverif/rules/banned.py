"""R17 BANNED -- GF(2) algebra is not delegated to real linear algebra."""
import ast

from ..model import norm, walk_local

BANNED = {'matrix_rank', 'inv', 'solve', 'det', 'lstsq', 'pinv', 'matrix_power'}


def check_package(run, repo, pkg, rule='R17'):
    n = 0
    for f in repo.all_funcs(pkg):
        for c in walk_local(f.node):
            if isinstance(c, ast.Call):
                name = norm(c.func)
                parts = name.split('.')
                if len(parts) >= 3 and parts[-2] == 'linalg' and parts[-1] in BANNED and parts[0] in ('numpy', 'np', 'torch', 'scipy'):
                    n += 1
                    run.violation(rule, f, name, 'binary (GF(2)) linear algebra is delegated to real-valued %s: real and GF(2) rank / inverse '
                                  'differ, e.g. [[1,1,0],[0,1,1],[1,0,1]] has real rank 3 and GF(2) rank 2' % name, line=c.lineno)
    return n
