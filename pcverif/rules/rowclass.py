"""R9 ROWCLASS -- guards and index logic of the projection kernels over the documented tableau layout.

Layout (StabilizerState docstring): rows [0,r) standby stabilizers (SS), [r,N) active stabilizers (AS),
[N,N+r) standby destabilizers (SD), [N+r,2N) active destabilizers (AD).

* a guard over (j, N, r) is abstracted to the set of row classes it accepts: its truth value is computed by the
  checker's expression evaluator for every N <= 4, 0 <= r <= N and every row of each class; a guard that is
  not uniform on a class mis-classifies some row and is a violation in itself;
* the loop-free index logic of the replacement block (partner row, copy order, rank decrement, three-way
  relocation, final pointer) is interpreted by the checker on row *labels* for every N <= 3, r and pivot,
  and the result is compared with what the layout forces.  Only integer index arithmetic of the extracted
  block is evaluated; no repository code runs and no loop is unrolled.
"""
import ast
import itertools

from ..exprnf import ev, Undecidable
from ..flow import walk, defs_of
from ..model import norm

CLASSES = ('SS', 'AS', 'SD', 'AD')


def rows_of(cls, N, r):
    return {'SS': range(0, r), 'AS': range(r, N), 'SD': range(N, N + r), 'AD': range(N + r, 2 * N)}[cls]


import copy


class _Subst(ast.NodeTransformer):
    def __init__(self, mapping):
        self.mapping = mapping

    def visit_Name(self, node):
        if node.id in self.mapping:
            return copy.deepcopy(self.mapping[node.id])
        return node


def expand_locals(run, f, conds, names, use_ctx, rule='R9.stale'):
    """Replace locals such as `na = N + r` in the guards by their definition; a definition that was evaluated before a loop
    in which one of its inputs (the rank r) changes is stale at the use inside that loop: that is a violation."""
    out = []
    for test, pol in conds:
        mapping = {}
        for n in ast.walk(test):
            if isinstance(n, ast.Name) and n.id not in names and n.id not in f.params:
                defs = [(st, ctx) for st, ctx in walk(f.node) if isinstance(st, ast.Assign) and len(st.targets) == 1
                        and isinstance(st.targets[0], ast.Name) and st.targets[0].id == n.id]
                if len(defs) != 1:
                    continue
                dst, dctx = defs[0]
                rhs_names = {x.id for x in ast.walk(dst.value) if isinstance(x, ast.Name)}
                if not rhs_names or not rhs_names <= set(names) or any(isinstance(x, ast.Call) for x in ast.walk(dst.value)):
                    continue
                mapping[n.id] = dst.value
                # staleness: an input is reassigned inside a loop that contains the use but not the definition
                for lp in use_ctx.loops:
                    if lp in dctx.loops:
                        continue
                    for s2 in ast.walk(lp):
                        tgt = None
                        if isinstance(s2, ast.AugAssign) and isinstance(s2.target, ast.Name):
                            tgt = s2.target.id
                        elif isinstance(s2, ast.Assign) and len(s2.targets) == 1 and isinstance(s2.targets[0], ast.Name):
                            tgt = s2.targets[0].id
                        if tgt in rhs_names:
                            run.violation(rule, f, dst, '`%s` is computed once before the loop, but `%s` changes inside the loop (line %d): the row '
                                          'classes tested with `%s` later in the loop are those of the old rank' % (norm(dst), tgt, s2.lineno, n.id))
        if mapping:
            test = ast.fix_missing_locations(_Subst(mapping).visit(copy.deepcopy(test)))
        out.append((test, pol))
    return tuple(out)


def relevant(conds, names):
    """Conditions that only mention the given names (and constants)."""
    out = []
    for test, pol in conds:
        ns = {n.id for n in ast.walk(test) if isinstance(n, ast.Name)}
        has_call = any(isinstance(n, ast.Call) for n in ast.walk(test))
        if ns and ns <= set(names) and not has_call:
            out.append((test, pol))
    return out


def class_set(conds, jvar, nvar='N', rvar='r', fixed_r=None, maxN=4):
    """(accepted classes, non-uniform classes) of a conjunction of (test, polarity) over (j, N, r)."""
    acc, mixed = set(), set()
    seen = {c: set() for c in CLASSES}
    for N in range(1, maxN + 1):
        for r in ([fixed_r] if fixed_r is not None else range(0, N + 1)):
            for c in CLASSES:
                for j in rows_of(c, N, r):
                    env = {jvar: j, nvar: N, rvar: r}
                    v = True
                    for test, pol in conds:
                        if bool(ev(test, env)) != pol:
                            v = False
                            break
                    seen[c].add(v)
    for c in CLASSES:
        if seen[c] == {True}:
            acc.add(c)
        elif seen[c] == {True, False}:
            mixed.add(c)
    return acc, mixed, {c for c in CLASSES if not seen[c]}


def fmt(cs):
    return '{' + ','.join(c for c in CLASSES if c in cs) + '}'


class Kernel:
    """Facts about one loop-form projection kernel, located by def-use."""

    def __init__(self, f):
        self.f = f
        self.tab = f.posparams[0]                       # tableau strings
        self.has_r = 'r' in f.posparams
        self.row_loop = None
        self.jvar = None
        self.pivot_var = None
        self.pivot_stmt = None
        self.replace_stmt = None
        self.block = None
        self.extend_flag = None
        self.update_flag = None
        self.find()
        self.find_flags()

    def find(self):
        f = self.f
        for st, ctx in walk(f.node):
            # the replacement statement  tab[p] = <observable row>
            if isinstance(st, ast.Assign) and isinstance(st.targets[0], ast.Subscript) \
                    and isinstance(st.targets[0].value, ast.Name) and st.targets[0].value.id == self.tab \
                    and isinstance(st.targets[0].slice, ast.Name):
                v = st.value
                vb = v.value if isinstance(v, ast.Subscript) else v
                if isinstance(vb, ast.Name) and vb.id in f.posparams and vb.id != self.tab:
                    self.replace_stmt, self.block, self.replace_ctx = st, ctx.block, ctx
                    self.pivot_var = st.targets[0].slice.id
        if self.pivot_var is None:
            return
        self.scan_def = None       # expression giving the row index from the loop variable when they differ
        for st, ctx in walk(f.node):
            if isinstance(st, ast.Assign) and isinstance(st.targets[0], ast.Name) and st.targets[0].id == self.pivot_var \
                    and isinstance(st.value, ast.Name) and ctx.loops:
                lp = ctx.loops[-1]
                if not (isinstance(lp, ast.For) and isinstance(lp.target, ast.Name)):
                    continue
                if lp.target.id == st.value.id:
                    self.pivot_stmt, self.pivot_ctx = st, ctx
                    self.row_loop, self.jvar = lp, lp.target.id
                else:
                    # j = f(loop variable) defined at the top of the loop body
                    for s2 in lp.body:
                        if isinstance(s2, ast.Assign) and isinstance(s2.targets[0], ast.Name) and s2.targets[0].id == st.value.id:
                            self.pivot_stmt, self.pivot_ctx = st, ctx
                            self.row_loop, self.jvar = lp, st.value.id
                            self.scan_def = (lp.target.id, s2.value)


def _find_flags(self):
    """update flag = Name tested by the `if` that owns the replacement block; extend flag = Name tested by the `if`
    that owns the rank decrement."""
    f = self.f
    for st, ctx in walk(f.node):
        if isinstance(st, ast.If) and self.block is not None and st.body is self.block and isinstance(st.test, ast.Name):
            self.update_flag = st.test.id
        if isinstance(st, ast.If) and isinstance(st.test, ast.Name):
            for s2 in st.body:
                if (isinstance(s2, ast.AugAssign) and isinstance(s2.target, ast.Name) and s2.target.id == 'r') or \
                        (isinstance(s2, ast.Assign) and norm(s2.targets[0]) == 'r'):
                    self.extend_flag = st.test.id


    if self.extend_flag is None and self.block is not None:
        # the decrement may be missing (that is what the block model then reports): the flag is the plain name tested
        # inside the replacement block
        for s2 in self.block:
            if isinstance(s2, ast.If) and isinstance(s2.test, ast.Name):
                self.extend_flag = s2.test.id


Kernel.find_flags = _find_flags


def check_loop_guards(run, f, rule='R9', signed=True, expect_kernel=False):
    """Guards of a loop-form kernel (numba): pivot, extend, phase update, accumulation / zero guard."""
    k = Kernel(f)
    fixed_r = None if k.has_r else 0
    if expect_kernel:
        return check_expect_guards(run, f, rule)
    if k.pivot_stmt is None:
        run.undecided(rule, f, f.name, 'pivot selection `p = j` / replacement `tab[p] = obs` not found')
        return None
    j = k.jvar
    names = (j, 'N', 'r')
    # F1 pivot
    conds = relevant(expand_locals(run, f, k.pivot_ctx.conds, names, k.pivot_ctx), names)
    acc, mixed, empty = class_set(conds, j, fixed_r=fixed_r)
    want = {'SS', 'AS', 'SD'} - empty
    _report(run, rule + '.pivot', f, k.pivot_stmt, conds, acc - empty, mixed, want,
            'the first anticommuting row that is not an active destabilizer becomes the pivot')
    # the pivot is only taken while none was found yet and under the anticommutation test
    flags = [norm(t) for t, pol in k.pivot_ctx.conds if not pol and isinstance(t, ast.Name)]
    acqs = [t for t, pol in k.pivot_ctx.conds if pol and any(isinstance(n, ast.Call) and norm(n.func) == 'acq'
                                                           for n in ast.walk(t))]
    run.check(bool(acqs), rule + '.pivot', f, k.pivot_stmt, 'the pivot must be a row that anticommutes with the observable')
    # F2 extend flag
    for st, ctx in walk(f.node):
        if k.extend_flag is not None and isinstance(st, ast.Assign) and isinstance(st.targets[0], ast.Name) \
                and st.targets[0].id == k.extend_flag and isinstance(st.value, ast.Constant) and st.value.value is True:
            c2 = relevant(expand_locals(run, f, ctx.conds, names, ctx), names)
            acc, mixed, empty = class_set(c2, j, fixed_r=fixed_r)
            _report(run, rule + '.extend', f, st, c2, acc - empty, mixed, {'SS', 'SD'} - empty,
                    'the rank drops exactly when the pivot is a standby row')
    # F3' every anticommuting row after the pivot is multiplied by the pivot row, whatever its class
    for st, ctx in walk(f.node):
        if isinstance(st, ast.Assign) and isinstance(st.targets[0], ast.Subscript) and isinstance(st.targets[0].value, ast.Name) \
                and st.targets[0].value.id == k.tab and norm(st.targets[0].slice) == j and ctx.loops and ctx.loops[-1] is k.row_loop \
                and isinstance(st.value, ast.BinOp):
            cu = relevant(expand_locals(run, f, ctx.conds, names, ctx), names)
            acc, mixed, empty = class_set(cu, j, fixed_r=fixed_r)
            _report(run, rule + '.update', f, st, cu, acc - empty, mixed, set(CLASSES) - empty,
                    'every later row that anticommutes with the observable (stabilizer or destabilizer) must be multiplied by the pivot row, '
                    'otherwise it keeps anticommuting with the new stabilizer')
    # F3 stabilizer phase update
    if signed:
        for st, ctx in walk(f.node):
            if isinstance(st, ast.Assign) and isinstance(st.targets[0], ast.Subscript) \
                    and norm(st.targets[0].slice) == j and ctx.loops and ctx.loops[-1] is k.row_loop \
                    and isinstance(st.targets[0].value, ast.Name) and st.targets[0].value.id.startswith('ps'):
                c3 = relevant(expand_locals(run, f, ctx.conds, names, ctx), names)
                acc, mixed, empty = class_set(c3, j, fixed_r=fixed_r)
                _report(run, rule + '.phase', f, st, c3, acc - empty, mixed, {'SS', 'AS'} - empty,
                        'phases are tracked for stabilizer rows (j < N) and only for them')
        # F4 accumulation of the stabilizer selected by an active destabilizer
        acc_stmts = _accumulation_stmts(f)
        for st, ctx in walk(f.node):
            if id(st) in acc_stmts and ctx.loops and ctx.loops[-1] is k.row_loop:
                c4 = relevant(expand_locals(run, f, ctx.conds, names, ctx), names)
                acc, mixed, empty = class_set(c4, j, fixed_r=fixed_r)
                _report(run, rule + '.accum', f, st, c4, acc - empty, mixed, {'AD'} - empty,
                        'only active destabilizers select a stabilizer component of the observable')
                _partner_reads(run, rule + '.accum', f, st, j)
    return k


def _accumulation_stmts(f):
    """ids of the statements that accumulate a stabilizer product into scalar-named accumulators (ga / pa):
    product sites whose target is a plain Name, and their phase companions."""
    from . import pair
    out = set()
    for s in pair.find_sites(f):
        if isinstance(s.target, ast.Name) and s.acc is not None:
            out.add(id(s.st))
            c = pair.find_companion(s)
            if c is not None:
                out.add(id(c))
    return out


def _partner_reads(run, rule, f, st, j):
    """reads of tableau rows in an accumulation statement use row j - N"""
    for n in ast.walk(st.value):
        if isinstance(n, ast.Subscript) and isinstance(n.value, ast.Name) and n.value.id.endswith('_stb'):
            ok = True
            for N in (2, 3):
                for jj in range(N, 2 * N):
                    try:
                        if ev(n.slice, {j: jj, 'N': N}) != jj - N:
                            ok = False
                    except Undecidable:
                        ok = None
            if ok is None:
                run.undecided(rule, f, n, 'row index not evaluable')
            else:
                run.check(ok, rule, f, n, 'the stabilizer paired with destabilizer row %s is row %s - N' % (j, j))


def _report(run, rule, f, st, conds, acc, mixed, want, what):
    txt = ' and '.join(('' if pol else 'not ') + '(' + norm(t) + ')' for t, pol in conds) or 'True'
    if mixed:
        run.violation(rule, f, st, '%s: the guard [%s] splits the row class %s (some rows of the class are accepted, '
                      'some rejected)' % (what, txt, fmt(mixed)))
    elif acc != want:
        run.violation(rule, f, st, '%s: the guard [%s] accepts %s, the tableau layout requires %s'
                      % (what, txt, fmt(acc), fmt(want)))
    else:
        run.ok(rule, f, st, 'guard [%s] accepts exactly %s' % (txt, fmt(acc)))


def check_expect_guards(run, f, rule='R9'):
    """stabilizer_expect: zero when a standby/active-stabilizer row anticommutes; otherwise accumulate."""
    lp = None
    for st, ctx in walk(f.node):
        if isinstance(st, ast.For) and ctx.loops and isinstance(st.target, ast.Name):
            inner = st
            lp = inner
    if lp is None:
        run.undecided(rule, f, f.name, 'row loop not found')
        return
    j = lp.target.id
    names = (j, 'N', 'r')
    n = 0
    for st, ctx in walk(f.node):
        if not (ctx.loops and ctx.loops[-1] is lp):
            continue
        if isinstance(st, ast.Assign) and isinstance(st.targets[0], ast.Subscript) and isinstance(st.value, ast.Constant) \
                and st.value.value == 0 and isinstance(st.targets[0].value, ast.Name) \
                and st.targets[0].value.id not in ('ga',):
            c = relevant(ctx.conds, names)
            acc, mixed, empty = class_set(c, j)
            _report(run, rule + '.zero', f, st, c, acc - empty, mixed, {'SS', 'AS', 'SD'} - empty,
                    'the expectation vanishes when a stabilizer or standby row anticommutes with the observable')
            run.check(any(pol and any(isinstance(x, ast.Call) and norm(x.func) == 'acq' for x in ast.walk(t))
                          for t, pol in ctx.conds), rule + '.zero', f, st,
                      'the zero must be conditioned on anticommutation with the row')
            n += 1
        if id(st) in _accumulation_stmts(f):
            c = relevant(ctx.conds, names)
            acc, mixed, empty = class_set(c, j)
            _report(run, rule + '.accum', f, st, c, acc - empty, mixed, {'AD'} - empty,
                    'only active destabilizers select a stabilizer component of the observable')
            _partner_reads(run, rule + '.accum', f, st, j)
            n += 1
    return n


# --------------------------------------------------------------------------- replacement block on labels
class BlockError(Exception):
    pass


def _swap_pair(st, tab):
    """(a, b) index expressions if st is a copying row swap  tab[[a,b]] = tab[[b,a]]  (also numpy.array([a,b]))."""
    if not (isinstance(st, ast.Assign) and len(st.targets) == 1):
        return None
    t, v = st.targets[0], st.value
    if not (isinstance(t, ast.Subscript) and isinstance(v, ast.Subscript)):
        return None
    if not (isinstance(t.value, ast.Name) and t.value.id == tab and isinstance(v.value, ast.Name) and v.value.id == tab):
        return None

    def pair(ix):
        if isinstance(ix, ast.Call) and norm(ix.func).split('.')[-1] in ('array', 'tensor') and ix.args:
            ix = ix.args[0]
        if isinstance(ix, ast.List) and len(ix.elts) == 2:
            return ix.elts
        return None
    a, b = pair(t.slice), pair(v.slice)
    if a is None or b is None:
        return None
    return (a, b)


def _is_view_swap(st, tab):
    """a[p], a[q] = a[q], a[p] on the 2-D tableau: assigns through views and loses a row."""
    if isinstance(st, ast.Assign) and isinstance(st.targets[0], ast.Tuple) and isinstance(st.value, ast.Tuple):
        ts = st.targets[0].elts
        if len(ts) == 2 and all(isinstance(t, ast.Subscript) and isinstance(t.value, ast.Name) and t.value.id == tab
                                for t in ts):
            return True
    return False


def run_block(block, env, rows, tab, pivot_var, obs_label='OBS', closures=None, depth=0):
    """Interpret the index logic of a replacement block on row labels.  Returns the index at which a
    stabilizer phase was written (or None)."""
    phase_at = []

    class _Leave(Exception):
        pass

    def ex(stmts):
        for st in stmts:
            if isinstance(st, ast.If):
                try:
                    c = bool(ev(st.test, env))
                except Undecidable as e:
                    raise BlockError('test %s: %s' % (norm(st.test), e))
                ex(st.body if c else st.orelse)
                continue
            if isinstance(st, (ast.Continue, ast.Break, ast.Return)):
                raise _Leave()          # a guard clause ends the work on this observable
            if isinstance(st, ast.Expr) and isinstance(st.value, ast.Call) and isinstance(st.value.func, ast.Name) \
                    and closures and st.value.func.id in closures and depth < 2:
                # a local helper (e.g. swap_rows(a, b)): its body is interpreted with the arguments bound
                fn = closures[st.value.func.id]
                ps = [a.arg for a in fn.args.args]
                if len(ps) != len(st.value.args) or st.value.keywords:
                    raise BlockError('call %s' % norm(st.value))
                try:
                    vals = [ev(a, env) for a in st.value.args]
                except Undecidable as e:
                    raise BlockError('argument of %s: %s' % (norm(st.value), e))
                env2 = dict(env)
                env2.update(zip(ps, vals))
                body = [b for b in fn.body if not (isinstance(b, ast.Expr) and isinstance(b.value, ast.Constant))]
                phase_at.extend(run_block(body, env2, rows, tab, pivot_var, obs_label, closures, depth + 1))
                continue
            if isinstance(st, (ast.Pass, ast.Assert, ast.Expr)):
                continue
            if _is_view_swap(st, tab):
                a = ev(st.targets[0].elts[0].slice, env)
                b = ev(st.targets[0].elts[1].slice, env)
                # numpy semantics of a[p], a[q] = a[q], a[p] on row views: both rows end up equal to old a[q]
                rows[a] = rows[b]
                continue
            sp = _swap_pair(st, tab)
            if sp is not None:
                # fancy-index assignment copies: rows[targets] = old rows[sources], simultaneously
                tg = [ev(e, env) for e in sp[0]]
                src = [rows[ev(e, env)] for e in sp[1]]
                for ti, sv in zip(tg, src):
                    rows[ti] = sv
                continue
            if isinstance(st, ast.AugAssign) and isinstance(st.target, ast.Name):
                if st.target.id in env and isinstance(env[st.target.id], int):
                    try:
                        v = ev(st.value, env)
                    except Undecidable:
                        continue
                    if isinstance(st.op, ast.Sub):
                        env[st.target.id] -= v
                    elif isinstance(st.op, ast.Add):
                        env[st.target.id] += v
                continue
            if isinstance(st, ast.Assign) and len(st.targets) == 1:
                t, v = st.targets[0], st.value
                if isinstance(t, ast.Name):
                    # a saved row: `tmp = tab[i].copy()` keeps the row as it is now, `tmp = tab[i]` is a view of slot i
                    inner_v = v.func.value if isinstance(v, ast.Call) and isinstance(v.func, ast.Attribute) and v.func.attr in ('copy', 'clone') and not v.args else None
                    src = inner_v if inner_v is not None else v
                    if isinstance(src, ast.Subscript) and isinstance(src.value, ast.Name) and src.value.id == tab \
                            and not isinstance(src.slice, (ast.Tuple, ast.Slice)):
                        try:
                            i_src = ev(src.slice, env)
                            env[t.id] = ('row', rows[i_src]) if inner_v is not None else ('view', i_src)
                            continue
                        except (Undecidable, IndexError, TypeError):
                            pass
                    try:
                        env[t.id] = ev(v, env)
                    except Undecidable:
                        pass      # not index arithmetic (tensor bookkeeping): binding kept
                    continue
                if isinstance(t, ast.Subscript) and isinstance(t.value, ast.Name):
                    if t.value.id == tab and not isinstance(t.slice, (ast.Tuple, ast.Slice)):
                        try:
                            ti = ev(t.slice, env)
                        except Undecidable as e:
                            inner = v.left if isinstance(v, ast.BinOp) and isinstance(v.op, ast.Mod) else v
                            if isinstance(inner, ast.BinOp) and isinstance(inner.op, ast.Add):
                                continue     # vectorised row *update* (product with the pivot): no row moves
                            raise BlockError('row index %s: %s' % (norm(t.slice), e))
                        if isinstance(v, ast.Subscript) and isinstance(v.value, ast.Name) and v.value.id == tab:
                            rows[ti] = rows[ev(v.slice, env)]
                        elif isinstance(v, ast.Name) and isinstance(env.get(v.id), tuple) and env[v.id][0] in ('row', 'view'):
                            rows[ti] = env[v.id][1] if env[v.id][0] == 'row' else rows[env[v.id][1]]
                        else:
                            rows[ti] = obs_label
                        continue
                    if t.value.id.startswith('ps') and not isinstance(t.slice, (ast.Tuple, ast.Slice)):
                        try:
                            phase_at.append(ev(t.slice, env))
                        except Undecidable:
                            pass
                        continue
                continue
            if isinstance(st, (ast.For, ast.While)):
                raise BlockError('loop inside the replacement block')
    try:
        ex(block)
    except _Leave:
        pass
    return phase_at


def check_block(run, f, k, rule='R9.block', tc_inline_extend=False, signed=True):
    """Exhaustive small-model check of the replacement block (all N <= 3, all r, every admissible pivot)."""
    if k is None or k.replace_stmt is None:
        run.undecided(rule, f, f.name, 'replacement block not found')
        return
    tab, pv = k.tab, k.pivot_var
    has_r = k.has_r
    # the pivot row may only be overwritten after every later anticommuting row has been multiplied by it
    row_loops = [st for st, ctx in walk(f.node) if isinstance(st, ast.For) and any(
        isinstance(s2, ast.Assign) and isinstance(s2.targets[0], ast.Subscript) and isinstance(s2.targets[0].value, ast.Name)
        and s2.targets[0].value.id == tab and isinstance(s2.value, ast.BinOp) for s2 in ast.walk(st))]
    inside = [lp for lp in row_loops if lp in k.replace_ctx.loops and isinstance(lp.target, ast.Name) and lp.target.id != 'k'
              and any(isinstance(n, ast.Call) and norm(n.func) == 'acq' for n in ast.walk(lp))
              and not any(isinstance(s3, ast.For) and s3 is not lp and any(x is k.replace_stmt for x in ast.walk(s3)) for s3 in ast.walk(lp))]
    inner_most = [lp for lp in inside if k.replace_ctx.loops and k.replace_ctx.loops[-1] is lp]
    if inner_most:
        run.violation(rule.replace('.block', '.order'), f, k.replace_stmt, 'the pivot row %s[%s] is overwritten by the observable inside the row scan: rows scanned later are then '
                      'multiplied by the observable instead of the old pivot row and keep anticommuting with the new stabilizer' % (tab, pv))
        return
    uses_extend = any(isinstance(n, ast.Name) and n.id == 'extend' for st in k.block for n in ast.walk(st))
    ncases = 0
    try:
        for N in (1, 2, 3):
            for r in (range(0, N + 1) if has_r else [0]):
                for cls in ('SS', 'AS', 'SD'):
                    for p in rows_of(cls, N, r):
                        ncases += 1
                        rows = ['row%d' % i for i in range(2 * N)]
                        standby = cls in ('SS', 'SD')
                        env = {'N': N, 'r': r, pv: p, 'k': 0, 'Ng': 2 * N}
                        if k.update_flag:
                            env[k.update_flag] = True
                        if k.extend_flag:
                            env[k.extend_flag] = standby
                        closures = {n.name: n for n in ast.walk(f.node) if isinstance(n, ast.FunctionDef) and n is not f.node}
                        phase_at = run_block(k.block, env, rows, tab, pv, closures=closures)
                        r_new = env.get('r', r)
                        why = _post(N, r, r_new, p, cls, rows, phase_at, signed)
                        if why:
                            run.violation(rule, f, k.replace_stmt,
                                          'replacement block breaks the tableau layout for N=%d r=%d pivot row %d (%s): %s'
                                          % (N, r, p, cls, why))
                            return
    except BlockError as e:
        run.undecided(rule, f, k.replace_stmt, str(e))
        return
    except Undecidable as e:
        run.undecided(rule, f, k.replace_stmt, str(e))
        return
    run.ok(rule, f, k.replace_stmt, 'index logic agrees with the layout on all %d (N<=3, r, pivot) cases: partner row, '
           'copy order, rank decrement, relocation to row r, phase written at the new stabilizer' % ncases)


def _post(N, r, r_new, p, cls, rows, phase_at, signed):
    q = (p + N) % (2 * N)
    old_p = 'row%d' % p
    standby = cls in ('SS', 'SD')
    want_r = r - 1 if standby else r
    if r_new != want_r:
        return 'rank is %d afterwards, expected %d' % (r_new, want_r)
    home = r_new if standby else p
    if rows[home] != 'OBS':
        return 'the new stabilizer is not at row %d (found %s there)' % (home, rows[home])
    if rows[home + N] != old_p:
        return 'row %d must hold the old pivot row as destabilizer of the new stabilizer (found %s)' % (home + N, rows[home + N])
    if rows.count('OBS') != 1:
        return 'the observable occupies %d rows' % rows.count('OBS')
    lost = {'row%d' % i for i in range(2 * N)} - set(rows)
    if lost != {'row%d' % q}:
        return 'rows lost: %s (only the old partner row%d may be overwritten)' % (sorted(lost), q)
    if len(set(rows)) != 2 * N:
        return 'a row is duplicated'
    # pairing and class of every untouched pair
    for x in range(N):
        if x in (p % N,):
            continue
        a, b = 'row%d' % x, 'row%d' % (x + N)
        ia, ib = rows.index(a), rows.index(b)
        was_standby = x < r
        if was_standby and ia == ib + N:
            # a standby pair may come back with its two logical operators exchanged: both are standby rows
            ia, ib = ib, ia
        if ib != ia + N:
            return 'pair (%d,%d) is no longer stabilizer/destabilizer partners (now rows %d,%d)' % (x, x + N, ia, ib)
        now_standby = ia < r_new
        if was_standby != now_standby:
            return 'pair %d changed between standby and active' % x
    if signed:
        if not phase_at:
            return 'no stabilizer phase is written for the new stabilizer'
        if phase_at[-1] != home:
            return 'the phase is written at row %d, the new stabilizer is at row %d' % (phase_at[-1], home)
    return None


# --------------------------------------------------------------------------- vectorised (torch) guards
def check_vector_guards(run, f, rule='R9'):
    """torch kernels: comparisons of `indices` (= arange(2N)) with N / N+r inside mask expressions."""
    ind = None
    for st, ctx in walk(f.node):
        if isinstance(st, ast.Assign):
            for n in ast.walk(st.value):
                if isinstance(n, ast.Call) and norm(n.func).split('.')[-1] == 'arange':
                    # N, indices = Ng//2, torch.arange(Ng, ...)
                    if isinstance(st.targets[0], ast.Tuple) and isinstance(st.value, ast.Tuple):
                        for t, v in zip(st.targets[0].elts, st.value.elts):
                            if n in list(ast.walk(v)) and isinstance(t, ast.Name):
                                ind = t.id
                    elif isinstance(st.targets[0], ast.Name):
                        ind = st.targets[0].id
    if ind is None:
        run.undecided(rule, f, f.name, 'index vector arange(2N) not found')
        return 0
    want_by_target = {'pivot': {'SS', 'AS', 'SD'}, 'phase': {'SS', 'AS'}, 'accum': {'AD'}}
    n = 0
    for st, ctx in walk(f.node):
        if not isinstance(st, ast.Assign) or not isinstance(st.targets[0], ast.Name):
            continue
        comps = []

        def rec(node, pol):
            if isinstance(node, ast.UnaryOp) and isinstance(node.op, (ast.Invert, ast.Not)):
                rec(node.operand, not pol)
            elif isinstance(node, ast.Compare) and isinstance(node.left, ast.Name) and node.left.id == ind:
                comps.append((node, pol))
            else:
                for c in ast.iter_child_nodes(node):
                    rec(c, pol)
        rec(st.value, True)
        if not comps:
            continue
        tname = st.targets[0].id
        uses_update = any(isinstance(x, ast.Name) and x.id == 'update' for x in ast.walk(st.value))
        neg_update = '~update' in norm(st.value)
        if neg_update:
            kind = 'accum'
        elif uses_update:
            kind = 'phase'
        else:
            kind = 'pivot'
        acc, mixed, empty = class_set(comps, ind, fixed_r=None if 'r' in f.posparams else 0)
        what = {'pivot': 'the first anticommuting row that is not an active destabilizer becomes the pivot',
                'phase': 'phases are tracked for stabilizer rows (j < N) and only for them',
                'accum': 'only active destabilizers select a stabilizer component of the observable'}[kind]
        _report(run, rule + '.' + kind, f, st, comps, acc - empty, mixed, want_by_target[kind] - empty, what)
        n += 1
    return n


# --------------------------------------------------------------------------- per-iteration flags
def check_flag_resets(run, f, rule='R9.reset'):
    """A latch (flag / pointer set to a constant or to the inner loop variable inside an INNER loop) that is read in the enclosing
    OUTER loop must be re-initialised unconditionally in every iteration of the outer loop; if it is only initialised before
    the outer loop, the value latched while processing one observable leaks into the next.  Accumulators (variables that
    are also updated from their own value, e.g. trace = trace/2) are carried on purpose and are not latches."""
    from ..flow import assigned_pairs
    stmts = list(walk(f.node))
    n = 0
    outer_loops = [st for st, ctx in stmts if isinstance(st, ast.For) and not ctx.loops]
    for L in outer_loops:
        inner_vars = {l.target.id for l in ast.walk(L) if isinstance(l, ast.For) and l is not L and isinstance(l.target, ast.Name)}
        latch_sets, selfref = {}, set()
        for st, ctx in stmts:
            if L not in ctx.loops or not isinstance(st, (ast.Assign, ast.AugAssign)):
                continue
            if isinstance(st, ast.AugAssign):
                if isinstance(st.target, ast.Name):
                    selfref.add(st.target.id)
                continue
            for t, v in assigned_pairs(st):
                if not isinstance(t, ast.Name) or isinstance(v, tuple):
                    continue
                if any(isinstance(x, ast.Name) and x.id == t.id for x in ast.walk(v)):
                    selfref.add(t.id)
                    continue
                const_like = isinstance(v, ast.Constant) or (isinstance(v, ast.Name) and v.id in inner_vars)
                deeper = len(ctx.loops) > ctx.loops.index(L) + 1
                if const_like and deeper:
                    latch_sets.setdefault(t.id, []).append(st)
        # per-item accumulators: updated from their own value inside an inner loop, read in the outer loop, not returned
        from ..names import return_names
        carried = set(x for x in return_names(f) if x)
        acc_sets = {}
        for st, ctx in stmts:
            if L in ctx.loops and len(ctx.loops) > ctx.loops.index(L) + 1 and isinstance(st, ast.Assign):
                for t, v in assigned_pairs(st):
                    if isinstance(t, ast.Name) and not isinstance(v, tuple) and any(isinstance(x, ast.Name) and x.id == t.id for x in ast.walk(v)):
                        acc_sets.setdefault(t.id, []).append(st)
        for v, sets in sorted(acc_sets.items()):
            if v in carried or v in f.params:
                continue
            resets = []
            for st, ctx in stmts:
                if ctx.loops and ctx.loops[-1] is L and not [c for c in ctx.conds if getattr(c[0], 'lineno', 0) > L.lineno]:
                    if isinstance(st, ast.Assign):
                        for t, val in assigned_pairs(st):
                            if isinstance(t, ast.Name) and t.id == v and not isinstance(val, tuple) and not any(
                                    isinstance(x, ast.Name) and x.id == v for x in ast.walk(val)):
                                resets.append(st)
                            elif isinstance(t, ast.Subscript) and isinstance(t.value, ast.Name) and t.value.id == v and isinstance(val, ast.Constant):
                                resets.append(st)
            first = min(s2.lineno for s2 in sets)
            n += 1
            run.check(any(r.lineno < first for r in resets), rule, f, '%s inside `for %s`' % (v, norm(L.target)),
                      'the accumulator `%s` is built up inside an inner loop for one item of the loop over `%s` and is not part of the result, but it is '
                      'not cleared at the start of every iteration: what was accumulated for one observable leaks into the next' % (v, norm(L.target)))
        for v, sets in sorted(latch_sets.items()):
            if v in selfref:
                continue
            loads = [x for x in ast.walk(L) if isinstance(x, ast.Name) and x.id == v and isinstance(x.ctx, ast.Load)]
            if not loads:
                continue
            resets = []
            for st, ctx in stmts:
                if isinstance(st, ast.Assign) and ctx.loops and ctx.loops[-1] is L \
                        and not [c for c in ctx.conds if getattr(c[0], 'lineno', 0) > L.lineno]:
                    for t, val in assigned_pairs(st):
                        if isinstance(t, ast.Name) and t.id == v and not isinstance(val, tuple) and isinstance(val, ast.Constant):
                            resets.append(st)
            first = min(s2.lineno for s2 in sets)
            n += 1
            ok = any(r.lineno < first for r in resets)
            run.check(ok, rule, f, '%s inside `for %s`' % (v, norm(L.target)),
                      '`%s` is latched inside an inner loop while one item of the loop over `%s` is processed and read in that loop, but it is not '
                      'reset at the start of every iteration: the value left by one observable leaks into the next' % (v, norm(L.target)))
    return n


def check_buffer_resets(run, f, rule='R9.reset'):
    """A work buffer that is filled element-wise at a loop-dependent position inside a loop and consumed as a whole inside the
    same loop must be created (or cleared) inside that loop: if it is only created before the loop, the entries written for one
    item are still set when the next item is consumed (an observable buffer then holds Z_a Z_b instead of Z_b)."""
    stmts = list(walk(f.node))
    n = 0
    for L, lctx in stmts:
        if not isinstance(L, (ast.For, ast.While)):
            continue
        lvars = {x.id for x in ast.walk(L.target) if isinstance(x, ast.Name)} if isinstance(L, ast.For) else set()
        inside = [(st, ctx) for st, ctx in stmts if L in ctx.loops]
        # names derived from the loop variable inside the loop count as loop-dependent too
        dep = set(lvars)
        for _ in range(3):
            for st, ctx in inside:
                if isinstance(st, ast.Assign) and isinstance(st.targets[0], ast.Name) and any(
                        isinstance(x, ast.Name) and x.id in dep for x in ast.walk(st.value)):
                    dep.add(st.targets[0].id)
        stores = {}
        for st, ctx in inside:
            if isinstance(st, ast.Assign) and isinstance(st.targets[0], ast.Subscript) and isinstance(st.targets[0].value, ast.Name) \
                    and isinstance(st.value, ast.Constant):
                v = st.targets[0].value.id
                if v in f.params:
                    continue
                if any(isinstance(x, ast.Name) and x.id in dep for x in ast.walk(st.targets[0].slice)):
                    stores.setdefault(v, []).append(st)
        for v, sts in sorted(stores.items()):
            whole = []
            for st, ctx in inside:
                for x in ast.walk(st):
                    if isinstance(x, ast.Call):
                        for a in list(x.args) + [k.value for k in x.keywords]:
                            if isinstance(a, ast.Name) and a.id == v:
                                whole.append(st)
            if not whole:
                continue          # consumed after the loop: an accumulating buffer
            rebuilt = [st for st, ctx in inside if isinstance(st, ast.Assign) and any(isinstance(t, ast.Name) and t.id == v for t in st.targets)]
            pos = lambda x_: (x_.lineno, x_.col_offset)     # order in the text (statements read back from a helper share a line)
            last_use = max(pos(w) for w in whole)
            allst = [st for st, ctx in inside if isinstance(st, ast.Assign) and isinstance(st.targets[0], ast.Subscript)
                     and isinstance(st.targets[0].value, ast.Name) and st.targets[0].value.id == v]
            cleared = [st for st in allst if pos(st) > last_use or st not in sts]
            sts = [st for st in sts if st not in cleared]
            if not sts:
                continue
            n += 1
            if cleared and not rebuilt:
                # the same slot is written back to a constant after the last whole use: cleared by hand
                idx = {norm(s2.targets[0].slice) for s2 in sts}
                if all(norm(c.targets[0].slice) in idx and isinstance(c.value, ast.Constant) and pos(c) > last_use for c in cleared):
                    run.ok(rule, f, sts[0], 'buffer `%s` is cleared at the same position after its use' % v)
                else:
                    run.undecided(rule, f, sts[0], 'buffer `%s` is written at several places inside the loop; whether it is cleared is not decided' % v)
                continue
            run.check(bool(rebuilt) and min(pos(r) for r in rebuilt) < min(pos(s2) for s2 in sts), rule, f, sts[0],
                      'the buffer `%s` is filled at a position that depends on the loop variable and consumed as a whole inside the loop (%s), '
                      'but it is created before the loop and never cleared: the entry written for one item is still set for the next'
                      % (v, norm(whole[0])[:80]))
    return n


def scan_sequence(k, N, r):
    """Row indices in the order the row loop visits them."""
    lp = k.row_loop
    if not (isinstance(lp.iter, ast.Call) and norm(lp.iter.func) == 'range' and len(lp.iter.args) == 1):
        raise Undecidable('row loop is not range(...)')
    n = ev(lp.iter.args[0], {'N': N, 'r': r, 'Ng': 2 * N})
    if k.scan_def is None:
        return list(range(n))
    var, expr = k.scan_def
    return [ev(expr, {var: t, 'N': N, 'r': r, 'Ng': 2 * N}) for t in range(n)]


def check_priority(run, f, k, rule='R9.priority'):
    """The pivot is the FIRST anticommuting row in scan order.  An observable that anticommutes with an active stabilizer is
    undetermined and must replace it without changing the rank, so active stabilizers must be scanned before standby rows;
    active destabilizers (which only select the deterministic sign) must come last."""
    if k is None or k.row_loop is None:
        run.undecided(rule, f, f.name, 'row loop not found')
        return
    try:
        for N in (1, 2, 3, 4):
            for r in range(0, N + 1):
                seq = scan_sequence(k, N, r)
                if sorted(seq) != list(range(2 * N)):
                    run.violation(rule, f, k.row_loop.iter, 'the row scan does not visit every tableau row exactly once for N=%d r=%d: %s' % (N, r, seq))
                    return
                cls = []
                for j in seq:
                    cls.append(next(c for c in CLASSES if j in rows_of(c, N, r)))
                rank = {'AS': 0, 'SS': 1, 'SD': 1, 'AD': 2}
                order = [rank[c] for c in cls]
                if order != sorted(order):
                    first_bad = next(i for i in range(1, len(order)) if order[i] < order[i - 1])
                    run.violation(rule, f, k.pivot_stmt, 'for N=%d r=%d the scan visits a %s row (row %d) before the %s row %d: the first anticommuting row becomes the '
                                  'pivot, so an observable that anticommutes with an active stabilizer and with a standby row lowers the rank instead of '
                                  'replacing the active stabilizer' % (N, r, cls[first_bad - 1], seq[first_bad - 1], cls[first_bad], seq[first_bad]))
                    return
    except Undecidable as e:
        run.undecided(rule, f, k.row_loop.iter, str(e))
        return
    run.ok(rule, f, k.pivot_stmt, 'scan order: active stabilizers, then standby rows, then active destabilizers (all N<=4, r)')
