"""R19 LIBKIND -- mixed-library dataflow in the torch port.

torchclifford keeps a few numpy calls from the code it was ported from.  numpy functions applied to torch tensors do not fail
loudly: `numpy.repeat(t, 2)` dispatches to `Tensor.repeat(2)` (which TILES instead of repeating element-wise), an ndarray
indexed by a one-element tensor returns a scalar instead of an array, and iterating / star-unpacking a tensor yields 0-d
tensors, which hash by identity (set intersections of qubit indices are then always empty).  This module infers, for every
expression of a function, which library its value belongs to

    NP     numpy ndarray / numpy scalar          TORCH  torch tensor          PY  plain python int / list / tuple

by a flow-insensitive forward propagation (library constructors and functions, methods on values of known kind, conversions
`.tolist() / .item() / .numpy() / numpy.array(t) / torch.tensor(a)`, return kinds of functions of the analysed packages, and
parameter kinds joined over the call sites of the packages), and reports the three definite misuses:

  (a) a numpy function other than an explicit converter receives a TORCH value,
  (b) an NP array is indexed by a TORCH value,
  (c) a TORCH value is iterated / star-unpacked into qubit indices (`CliffordGate(*t)`), whose elements are later compared
      through set().

A value of unknown kind never produces a report.
"""
import ast

from ..flow import walk, assigned_pairs
from ..model import norm

NP, TORCH, PY = 'NP', 'TORCH', 'PY'
NP_MODS = ('numpy', 'np')
CONVERTERS = {'array', 'asarray', 'asanyarray', 'ascontiguousarray', 'from_dlpack'}     # numpy.X(tensor) is a deliberate conversion
TO_PY = {'tolist', 'item'}
NP_TO_TORCH = {'tensor', 'as_tensor', 'from_numpy'}
TORCH_ONLY_METHODS = {'ge', 'gt', 'le', 'lt', 'ne', 'eq', 'unsqueeze', 'clone', 'detach', 'repeat_interleave', 'masked_select', 'long',
                      'float', 'bool', 'to', 'cpu', 'cuda', 'scatter', 'gather', 'masked_fill', 'index_select', 'logical_not', 'type'}
NP_ONLY_METHODS = {'astype', 'copy'}
ARRAY_FIELDS = {'g', 'gs', 'ps', 'cs'}      # role naming scheme: strings, phases, coefficients are arrays of the package's library
SCALAR_RESULTS = {'ceil', 'log10', 'log2', 'max', 'min'}     # shape arithmetic on python numbers


class Kinds:
    def __init__(self, repo, pkg):
        self.repo = repo
        self.pkg = pkg
        self.ret = {}         # Func key -> kind or tuple of kinds
        self.param = {}       # (Func key, param) -> kind
        self.funcs = [f for m in repo.modules.values() if m.pkg == pkg for f in m.funcs.values()]
        for _ in range(4):    # small fixpoint: return kinds feed call sites, call sites feed parameters
            self._pass()

    # ------------------------------------------------------------------ per function
    def env_of(self, f):
        env = {}
        for p in f.params:
            k = self.param.get((f.key(), p))
            if k:
                env[p] = k
        for _ in range(3):
            for st, ctx in walk(f.node):
                if isinstance(st, ast.Assign):
                    for t, v in assigned_pairs(st):
                        if not isinstance(t, ast.Name):
                            continue
                        if isinstance(v, tuple):      # element of an unpacked call result: ('item', position, call node)
                            k = self.kind(f, v[2], env)
                            k = k[v[1]] if isinstance(k, tuple) and v[1] < len(k) else None
                        else:
                            k = self.kind(f, v, env)
                        if k is None:
                            continue
                        if t.id in env and env[t.id] != k and t.id not in f.params:
                            env[t.id] = 'MIXED'
                        else:
                            env[t.id] = k
        return {n: k for n, k in env.items() if k != 'MIXED'}

    def kind(self, f, n, env):
        if isinstance(n, ast.Name):
            return env.get(n.id)
        if isinstance(n, ast.Constant):
            return PY if isinstance(n.value, (int, float, bool)) else None
        if isinstance(n, ast.Attribute) and n.attr in ARRAY_FIELDS and not (isinstance(n.value, ast.Name) and n.value.id in NP_MODS + ('torch',)):
            return TORCH if self.pkg == 'torchclifford' else NP
        if isinstance(n, (ast.List, ast.Tuple)):
            if isinstance(n, ast.Tuple):
                return tuple(self.kind(f, e, env) for e in n.elts)
            return PY
        if isinstance(n, ast.Starred):
            return self.kind(f, n.value, env)
        if isinstance(n, ast.Subscript):
            k = self.kind(f, n.value, env)
            return k if k in (NP, TORCH) else None
        if isinstance(n, ast.BinOp):
            a, b = self.kind(f, n.left, env), self.kind(f, n.right, env)
            for k in (TORCH, NP):
                if a == k or b == k:
                    return k
            return PY if a == PY and b == PY else None
        if isinstance(n, ast.UnaryOp):
            return self.kind(f, n.operand, env)
        if isinstance(n, ast.Call):
            fn = n.func
            if isinstance(fn, ast.Attribute):
                base = norm(fn.value)
                if base in NP_MODS:
                    if fn.attr in SCALAR_RESULTS and all(self.kind(f, a, env) in (PY, None) for a in n.args):
                        return PY
                    return NP
                if base == 'torch' or base.startswith('torch.'):
                    return TORCH
                recv = self.kind(f, fn.value, env)
                if recv is None and fn.attr in TORCH_ONLY_METHODS:
                    recv = TORCH          # only tensors have this method
                if recv is None and fn.attr in NP_ONLY_METHODS and self.pkg == 'pyclifford':
                    recv = NP
                if recv in (NP, TORCH):
                    if fn.attr in TO_PY:
                        return PY
                    if fn.attr == 'numpy':
                        return NP
                    return recv
                # method of an object of the analysed packages: use the summaries of the candidates when they agree
                cands = [g for g in self.funcs if g.cls is not None and g.name == fn.attr]
                ks = {self._freeze(self.ret.get(g.key())) for g in cands}
                if len(ks) == 1 and cands:
                    return self._thaw(ks.pop())
                return None
            if isinstance(fn, ast.Name):
                if fn.id in ('int', 'len', 'float', 'range', 'list', 'tuple', 'sorted'):
                    return PY
                g = self.repo.resolve_local(f, fn.id) if hasattr(self.repo, 'resolve_local') else None
                if g is not None and not isinstance(g, type(None)) and hasattr(g, 'key'):
                    return self.ret.get(g.key())
            return None
        return None

    @staticmethod
    def _freeze(k):
        return k

    @staticmethod
    def _thaw(k):
        return k

    # ------------------------------------------------------------------ one propagation pass
    def _pass(self):
        for f in self.funcs:
            env = self.env_of(f)
            rets = [st.value for st, _ in walk(f.node) if isinstance(st, ast.Return) and st.value is not None]
            ks = [self.kind(f, r, env) for r in rets]
            if ks and all(k == ks[0] for k in ks) and ks[0] is not None:
                self.ret[f.key()] = ks[0]
            # actual -> formal
            for st, _ in walk(f.node):
                for c in ast.walk(st):
                    if not isinstance(c, ast.Call):
                        continue
                    callee = None
                    is_method = False
                    if isinstance(c.func, ast.Name):
                        g = self.repo.resolve_local(f, c.func.id)
                        if g is not None and hasattr(g, 'posparams'):
                            callee = g
                        elif g is not None and hasattr(g, 'methods') and '__init__' in g.methods:
                            callee, is_method = g.methods['__init__'], True
                    elif isinstance(c.func, ast.Attribute):
                        cands = [g for g in self.funcs if g.cls is not None and g.name == c.func.attr]
                        if len(cands) == 1:
                            callee, is_method = cands[0], True
                    if callee is None or any(isinstance(a, ast.Starred) for a in c.args):
                        continue
                    formals = callee.posparams[1:] if is_method else callee.posparams
                    for a, p in zip(c.args, formals):
                        k = self.kind(f, a, env)
                        if k in (NP, TORCH, PY):
                            key = (callee.key(), p)
                            if key in self.param and self.param[key] != k:
                                self.param[key] = 'MIXED'
                            elif key not in self.param:
                                self.param[key] = k
                    for kw in c.keywords:
                        if kw.arg in callee.params:
                            k = self.kind(f, kw.value, env)
                            if k in (NP, TORCH, PY):
                                key = (callee.key(), kw.arg)
                                if key in self.param and self.param[key] != k:
                                    self.param[key] = 'MIXED'
                                elif key not in self.param:
                                    self.param[key] = k


class SiteEnv:
    """Kinds of names as seen at one statement: only assignments that can reach it count (earlier in source order and not in the
    other arm of an `if` the statement is under); a parameter keeps its call-site kind unless an assignment on the same path
    comes first."""

    def __init__(self, K, f, st, ctx, flat):
        self.K, self.f, self.st, self.ctx, self.flat = K, f, st, ctx, flat
        self.memo = {}

    def get(self, name, default=None):
        if name in self.memo:
            return self.memo[name]
        self.memo[name] = None
        here = {(id(t), pol) for t, pol in self.ctx.conds}
        kinds, dominated = [], False
        for s2, c2 in walk(self.f.node):
            if s2.lineno >= self.st.lineno or not isinstance(s2, ast.Assign):
                continue
            for t, v in assigned_pairs(s2):
                if not (isinstance(t, ast.Name) and t.id == name):
                    continue
                theirs = {(id(tt), pol) for tt, pol in c2.conds}
                if any((tid, not pol) in here for tid, pol in theirs):
                    continue              # other arm of an if
                env2 = SiteEnv(self.K, self.f, s2, c2, self.flat)
                if isinstance(v, tuple):
                    k = self.K.kind(self.f, v[2], env2)
                    k = k[v[1]] if isinstance(k, tuple) and v[1] < len(k) else None
                else:
                    k = self.K.kind(self.f, v, env2)
                kinds.append(k)
                if theirs <= here:
                    dominated = True
        if name in self.f.params and not dominated:
            kinds.append(self.K.param.get((self.f.key(), name)))
        self.all = getattr(self, 'all', {})
        self.all[name] = list(kinds)
        if not kinds:
            out = None
        elif all(k == kinds[0] for k in kinds):
            out = kinds[0] if kinds[0] != 'MIXED' else None
        else:
            out = None
        self.memo[name] = out
        return out


_CACHE = {}


def kinds_of(repo, pkg):
    k = (id(repo), pkg)
    if k not in _CACHE:
        _CACHE[k] = Kinds(repo, pkg)
    return _CACHE[k]


def check_function(run, repo, f, rule='R19'):
    """Report the definite mixed-library misuses in f; returns the number of numpy call / index / unpack sites examined."""
    K = kinds_of(repo, f.pkg)
    flat = K.env_of(f)
    n = 0
    for st, ctx in walk(f.node):
        env = SiteEnv(K, f, st, ctx, flat)
        if isinstance(st, (ast.If, ast.For, ast.While, ast.With, ast.Try)):
            nodes = [st.test] if isinstance(st, (ast.If, ast.While)) else ([st.iter] if isinstance(st, ast.For) else [])
        else:
            nodes = [st]
        for top in nodes:
            for c in ast.walk(top):
                if isinstance(c, ast.Call) and isinstance(c.func, ast.Attribute) and norm(c.func.value) in NP_MODS:
                    n += 1
                    if c.func.attr in CONVERTERS:
                        run.ok(rule, f, c, 'explicit conversion')
                        continue
                    bad = [a for a in c.args if K.kind(f, a, env) == TORCH]
                    run.check(not bad, rule + '.np', f, c, 'the numpy function %s receives the torch tensor `%s`: numpy dispatches to the tensor method of the same '
                              'name when there is one (Tensor.repeat TILES, numpy.repeat repeats element-wise) and otherwise works on a converted copy; the '
                              'result is not what the numpy code this was ported from computes' % (norm(c.func), norm(bad[0]) if bad else ''))
                elif isinstance(c, ast.Subscript) and isinstance(c.ctx, ast.Load):
                    if K.kind(f, c.value, env) == NP:
                        n += 1
                        ik = K.kind(f, c.slice, env)
                        run.check(ik != TORCH, rule + '.index', f, c, 'the numpy array `%s` is indexed by the torch tensor `%s`: a one-element tensor is taken as a scalar '
                                  'index, so the result is a numpy scalar instead of a one-element array' % (norm(c.value), norm(c.slice)))
                elif isinstance(c, ast.Call) and any(isinstance(a, ast.Starred) for a in c.args):
                    for a in c.args:
                        if isinstance(a, ast.Starred):
                            n += 1
                            k = K.kind(f, a.value, env)
                            if isinstance(a.value, ast.Name):
                                env.get(a.value.id)
                                if TORCH in getattr(env, 'all', {}).get(a.value.id, []):
                                    k = TORCH       # a tensor on at least one path to this call
                            run.check(k != TORCH, rule + '.unpack', f, c, 'the torch tensor `%s` is star-unpacked into %s: its elements are 0-d tensors, '
                                      'which hash by identity, so comparisons of qubit indices through set() / `in` never find a common qubit'
                                      % (norm(a.value), norm(c.func)))
    return n
