"""R15 RNG -- every draw feeding a string bit, sign, coin or selector is uniform on {0,1} (or on the literal [0,2])."""
import ast

from ..exprnf import ev, Undecidable, fold_literal
from ..model import norm, walk_local
from .kinds import _is_randint_bit


def draw_sites(f):
    out = []
    for n in walk_local(f.node):
        if isinstance(n, ast.Call):
            name = norm(n.func)
            if name.endswith('randint') or name.split('.')[-1] in ('choice', 'rand', 'random', 'randn', 'uniform',
                                                                   'binomial', 'bernoulli', 'random_sample'):
                if name.split('.')[0] in ('numpy', 'np', 'torch', 'random'):
                    out.append(n)
    return out


def check_function(run, f, rule='R15'):
    n = 0
    for c in draw_sites(f):
        name = norm(c.func)
        n += 1
        if name.endswith('randint'):
            run.check(_is_randint_bit(c), rule, f, c, 'random draw is not uniform on {0,1}: %s' % norm(c))
        elif name.split('.')[-1] == 'choice':
            ok = False
            try:
                vals = fold_literal(c.args[0]) if c.args else None
                ok = isinstance(vals, tuple) and sorted(vals) in ([0, 2], [0, 1]) and not any(
                    kw.arg == 'p' for kw in c.keywords)
            except Undecidable:
                ok = False
            run.check(ok, rule, f, c, 'random choice is not a fair choice between two values: %s' % norm(c))
        else:
            run.violation(rule, f, c, 'unexpected random source %s for a bit / sign / coin' % name)
    return n


def check_fresh_per_iteration(run, f, rule='R15.fresh'):
    """A scalar draw (no size / shape argument) bound to a local before a loop and used inside that loop is ONE draw shared by
    all iterations: the outcomes written in different iterations are then perfectly correlated instead of independent."""
    from ..flow import walk
    stmts = list(walk(f.node))
    n = 0
    for st, ctx in stmts:
        if not (isinstance(st, ast.Assign) and len(st.targets) == 1 and isinstance(st.targets[0], ast.Name)):
            continue
        draws = [c for c in ast.walk(st.value) if c in draw_sites_cache(f)]
        if not draws:
            continue
        scalar = all(len(c.args) <= 2 and not any(k.arg in ('size', 'shape') for k in c.keywords)
                     and not (len(c.args) == 2 and isinstance(c.args[1], (ast.Tuple, ast.List))) for c in draws)
        if not scalar:
            continue
        v = st.targets[0].id
        n += 1
        bad, where = None, None
        for s2, c2 in stmts:
            extra = [l for l in c2.loops if l not in ctx.loops]
            if not extra or s2.lineno <= st.lineno or isinstance(s2, (ast.For, ast.While, ast.If, ast.With, ast.Try)):
                continue
            # redefinition of v inside that loop before the use makes the use see a fresh draw
            if any(isinstance(x, ast.Name) and x.id == v and isinstance(x.ctx, ast.Load) for x in ast.walk(s2)):
                redefined = any(isinstance(s3, ast.Assign) and any(isinstance(t, ast.Name) and t.id == v for t in s3.targets)
                                and extra[0] in c3.loops and s3.lineno < s2.lineno for s3, c3 in stmts)
                if not redefined:
                    bad, where = s2, extra[0].lineno
                    break
        run.check(bad is None, rule, f, st, 'the draw bound to `%s` is made once, before the loop at line %s, and used inside it (%s): every '
                  'iteration reuses the same random value, so the outcomes are perfectly correlated instead of independent'
                  % (v, where, norm(bad)[:70] if bad is not None else ''))
    return n


_DS = {}


def draw_sites_cache(f):
    k = id(f.node)
    if k not in _DS:
        _DS[k] = draw_sites(f)
    return _DS[k]
