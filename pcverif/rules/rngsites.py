"""R15 RNG -- every draw feeding a string bit, sign, coin or selector is uniform on {0,1} (or on the literal [0,2])."""
import ast

from ..exprnf import ev, Undecidable, fold_literal
from ..model import norm, walk_local
from .kinds import _is_randint_bit


def draw_sites(f):
    out = []
    for n in walk_local(f.node):
        if isinstance(n, ast.Call):
            name = norm(n.func)
            if name.endswith('randint') or name.split('.')[-1] in ('choice', 'rand', 'random', 'randn', 'uniform',
                                                                   'binomial', 'bernoulli', 'random_sample'):
                if name.split('.')[0] in ('numpy', 'np', 'torch', 'random'):
                    out.append(n)
    return out


def check_function(run, f, rule='R15'):
    n = 0
    for c in draw_sites(f):
        name = norm(c.func)
        n += 1
        if name.endswith('randint'):
            run.check(_is_randint_bit(c), rule, f, c, 'random draw is not uniform on {0,1}: %s' % norm(c))
        elif name.split('.')[-1] == 'choice':
            ok = False
            try:
                vals = fold_literal(c.args[0]) if c.args else None
                ok = isinstance(vals, tuple) and sorted(vals) in ([0, 2], [0, 1]) and not any(
                    kw.arg == 'p' for kw in c.keywords)
            except Undecidable:
                ok = False
            run.check(ok, rule, f, c, 'random choice is not a fair choice between two values: %s' % norm(c))
        else:
            run.violation(rule, f, c, 'unexpected random source %s for a bit / sign / coin' % name)
    return n
