"""Rotation-kernel records (part of R7/R8): guard = acq(G, P); increment = p_G + const + ipow; string = P xor G;
rows whose guard is false are untouched."""
import ast

from ..exprnf import ev, Undecidable
from ..flow import walk, defs_of
from ..model import norm
from . import pair
from .inout import stores_into


def acq_calls(node):
    return [n for n in ast.walk(node) if isinstance(n, ast.Call) and norm(n.func).split('.')[-1] == 'acq'
            and len(n.args) == 2]


def guard_truth(test, want_ops):
    """(value when acq=0, value when acq=1) of a test containing acq(<want_ops>), or None."""
    calls = [c for c in acq_calls(test)
             if {norm(pair.strip_shape(a)) for a in c.args} == want_ops]
    if not calls:
        return None
    target = calls[0]
    out = []
    for v in (0, 1):
        def call(n, env, rec, v=v):
            if n is target or norm(n) == norm(target):
                return v
            raise Undecidable('call')
        try:
            out.append(bool(ev(test, {}, call=call)))
        except Undecidable:
            return None
    return tuple(out)


def check_loop_rotation(run, f, signed=True, rule='R7'):
    """numba loop form: for j in range(L): if acq(g, gs[j]): [ps[j] = ...]; gs[j] = (gs[j] + g) % 2"""
    sites = pair.find_sites(f)
    if len(sites) != 1:
        run.undecided(rule + '.rot', f, f.name, '%d product sites' % len(sites))
        return
    s = sites[0]
    gen = f.posparams[0]
    pair.check_site(run, s, order=('rotate', gen) if signed else None, rule=rule)
    ops = {norm(pair.strip_shape(s.a)), norm(pair.strip_shape(s.b))}
    g_ok = False
    for test, pol in s.ctx.conds:
        tt = guard_truth(test, ops)
        if tt is not None:
            eff = tt if pol else tuple(not x for x in tt)
            g_ok = True
            run.check(eff == (False, True), rule + '.guard', f, test,
                      'the row must be rotated exactly when it anticommutes with the generator: the guard is %s '
                      'for commuting and %s for anticommuting rows' % (eff[0], eff[1]))
    if not g_ok:
        run.violation(rule + '.guard', f, s.st, 'the rotation of a row is not guarded by acq(generator, row): '
                      'commuting operators must be returned unchanged')
    # every store into the row arrays happens under the guard (other rows untouched)
    guard_stmt_ids = set()
    for st, ctx in walk(f.node):
        if isinstance(st, (ast.Assign, ast.AugAssign)):
            tg = st.targets[0] if isinstance(st, ast.Assign) else st.target
            if isinstance(tg, ast.Subscript) and isinstance(tg.value, ast.Name) and tg.value.id in f.posparams:
                guarded = any(guard_truth(t, ops) is not None for t, _ in ctx.conds)
                run.check(guarded, rule + '.untouched', f, st,
                          'store into the operator arrays outside the anticommutation guard: commuting rows change')
    # all rows are visited
    loop = s.ctx.loops[-1] if s.ctx.loops else None
    if loop is None or not (isinstance(loop, ast.For) and isinstance(loop.iter, ast.Call)
                            and norm(loop.iter.func) == 'range' and len(loop.iter.args) == 1):
        run.undecided(rule + '.rows', f, f.name, 'row loop is not `for j in range(L)`')
    else:
        b = loop.iter.args[0]
        ok = False
        if isinstance(b, ast.Name):
            for st, _ in defs_of(f.node, b.id):
                if isinstance(st, ast.Assign) and isinstance(st.targets[0], (ast.Tuple, ast.List)) \
                        and isinstance(st.targets[0].elts[0], ast.Name) and st.targets[0].elts[0].id == b.id \
                        and norm(st.value).endswith('.shape'):
                    ok = True
        elif norm(b).endswith('.shape[0]') or norm(b).startswith('len('):
            ok = True
        if ok:
            run.ok(rule + '.rows', f, loop.iter)
        else:
            run.undecided(rule + '.rows', f, loop.iter, 'row count is not recognisably the first dimension')


def check_masked_rotation(run, f, signed=True, rule='R7'):
    """torch vector form: mask = acq(g, gs); ps = (ps + (p + 1 + ipow(gs, g)) * mask) % 4;
    gs = (gs + g * mask.view(-1, 1)) % 2   (or a single return expression for the signless kernel)."""
    gen = f.posparams[0]
    sites = pair.find_sites(f)
    if not sites:
        # signless one-liner: return (gs + g * acq(g, gs).view(-1, 1)) % 2
        for st, ctx in walk(f.node):
            if isinstance(st, ast.Return) and st.value is not None:
                inner, red = pair.strip_mod(st.value, 2)
                inner = pair.strip_shape(inner)
                if isinstance(inner, ast.BinOp) and isinstance(inner.op, ast.Add):
                    a, ma = pair.split_factor(inner.left)
                    b, mb = pair.split_factor(inner.right)
                    m = ma or mb
                    run.check(red, rule + 'd', f, st, 'string product is not reduced % 2')
                    ops = {norm(pair.strip_shape(a)), norm(pair.strip_shape(b))}
                    mm = pair.strip_shape(m) if m is not None else None
                    ok = mm is not None and isinstance(mm, ast.Call) and norm(mm.func).split('.')[-1] == 'acq' \
                        and {norm(pair.strip_shape(x)) for x in mm.args} == ops
                    run.check(ok, rule + '.guard', f, st, 'the generator must be added exactly to the rows that '
                              'anticommute with it (factor acq(generator, rows))')
                    masked_is_gen = (ma is not None and norm(pair.strip_shape(a)) == gen) or \
                                    (mb is not None and norm(pair.strip_shape(b)) == gen)
                    run.check(masked_is_gen, rule + '.untouched', f, st,
                              'the mask must multiply the generator term, not the rows')
                    return
        run.undecided(rule + '.rot', f, f.name, 'no product site')
        return
    s = sites[0]
    pair.check_site(run, s, order=('rotate', gen) if signed else None, rule=rule)
    ops = {norm(pair.strip_shape(s.a)), norm(pair.strip_shape(s.b))}
    m = pair.strip_shape(s.mask) if s.mask is not None else None
    mdef = None
    if isinstance(m, ast.Name):
        ds = defs_of(f.node, m.id)
        if len(ds) == 1 and isinstance(ds[0][0], ast.Assign):
            mdef = pair.strip_shape(ds[0][0].value)
    elif isinstance(m, ast.Call):
        mdef = m
    ok = mdef is not None and isinstance(mdef, ast.Call) and norm(mdef.func).split('.')[-1] == 'acq' \
        and {norm(pair.strip_shape(x)) for x in mdef.args} == ops
    run.check(ok, rule + '.guard', f, s.st, 'the generator must be added exactly to the rows that anticommute with it: '
              'the mask is %s' % (norm(mdef) if mdef is not None else 'absent'))
    # the mask multiplies the generator (rows with mask 0 keep their string)
    gen_masked = any(norm(pair.strip_shape(x)) == gen for x in (s.a, s.b)) and s.mask is not None
    run.check(gen_masked, rule + '.untouched', f, s.st, 'the mask must multiply the generator term of the string update')
    if signed and s.companion is not None:
        inner, _ = pair.strip_mod(s.companion.value, 4)
        bad = []
        for sg, n in pair.summands(inner):
            n2, mk = pair.split_mult(n)
            if mk is None:
                # unmasked summand: must be the old phase of the rows
                pe = pair.phase_expr_of(s.a if norm(pair.strip_shape(s.a)) != gen else s.b)
                if norm(pair.strip_shape(n)) != pe:
                    bad.append(norm(n))
            else:
                mk_ok = (isinstance(mk, ast.Name) and isinstance(m, ast.Name) and mk.id == m.id) or \
                        (mdef is not None and norm(pair.strip_shape(mk)) == norm(mdef))
                if not mk_ok:
                    bad.append(norm(n))
        run.check(not bad, rule + '.untouched', f, s.companion,
                  'phase increment %s is applied to rows that commute with the generator' % bad)
        pe_rows = pair.phase_expr_of(s.a if norm(pair.strip_shape(s.a)) != gen else s.b)
        unmasked = [norm(pair.strip_shape(n)) for sg, n in pair.summands(inner) if pair.split_mult(n)[1] is None]
        run.check(unmasked == [pe_rows], rule + '.untouched', f, s.companion,
                  'rows that commute with the generator must keep their phase: the old phase %s must enter the new phase outside the mask factor '
                  '(unmasked summands found: %s)' % (pe_rows, unmasked))
