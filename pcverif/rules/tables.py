"""R12 TABLE -- constant tables extracted from the AST by guard evaluation and literal folding.

`reached(fn, env)` partially evaluates the path conditions of every simple statement of a function under
an abstract input (a few named values) and returns the statements whose conditions all hold.  It is how
the literal tables behind if/elif chains are read out without depending on how the chain is written
(`num == 3`, `num in (3,)`, nested ifs, reordered branches all give the same table).
"""
import ast

from .. import oracle
from ..exprnf import Undecidable, ev, fold_literal, affine_in
from ..flow import walk
from ..model import norm, Cls, AnalysisError


def std_call(n, env, rec):
    fn = norm(n.func)
    if fn == 'len' and len(n.args) == 1:
        return len(rec(n.args[0]))
    if fn in ('sorted', 'tuple', 'list', 'reversed', 'set', 'frozenset') and len(n.args) == 1 and not n.keywords:
        v = rec(n.args[0])
        return {'sorted': lambda x: sorted(x), 'tuple': tuple, 'list': lambda x: tuple(x), 'reversed': lambda x: tuple(reversed(tuple(x))),
                'set': set, 'frozenset': frozenset}[fn](v) if fn != 'sorted' else tuple(sorted(v))
    if fn in ('int', 'abs', 'max', 'min', 'bool') and n.args:
        return {'int': int, 'abs': abs, 'max': max, 'min': min, 'bool': bool}[fn](*[rec(a) for a in n.args])
    if fn == 'isinstance':
        raise Undecidable('isinstance')
    raise Undecidable('call %s' % fn)


def std_sub(n, env, rec):
    base = rec(n.value)
    idx = rec(n.slice)
    try:
        return base[idx]
    except Exception as e:
        raise Undecidable('subscript %s: %s' % (norm(n), e))


def std_attr(n, env, rec):
    key = norm(n)
    if key in env:
        return env[key]
    raise Undecidable('attribute %s' % key)


ENV_AT = {}


def holds(conds, env, sub=std_sub, call=std_call, attr=std_attr):
    """True / False / None (undecidable) for a conjunction of (test, polarity)."""
    res = True
    for test, pol in conds:
        try:
            v = bool(ev(test, env, sub=sub, call=call, attr=attr))
        except Undecidable:
            # a condition about other things than the variables under study (an earlier guard clause on another argument)
            # says nothing here; one that mentions them and cannot be evaluated makes the answer unknown
            if env and not ({n.id for n in ast.walk(test) if isinstance(n, ast.Name)} & set(env)):
                continue
            res = None
            continue
        if v != pol:
            return False
    return res


def reached(fn, env, kinds=(ast.Assign, ast.AugAssign, ast.Return, ast.Raise, ast.Expr, ast.Continue),
            sub=std_sub, call=std_call, attr=std_attr, strict=True):
    """Statements of fn whose path conditions hold under env.  With strict=True statements whose
    conditions cannot be decided are dropped; otherwise they are returned with flag None."""
    out = []
    env = dict(env)
    for st, ctx in walk(fn.node):
        # a straight-line rebinding of an input name (e.g. qubits = tuple(sorted(qubits))) changes what later guards see
        if isinstance(st, ast.Assign) and len(st.targets) == 1 and isinstance(st.targets[0], ast.Name) \
                and not ctx.loops and holds(ctx.conds, env, sub, call, attr) is True:
            try:
                env[st.targets[0].id] = ev(st.value, env, sub=sub, call=call, attr=attr)
            except Undecidable:
                env.pop(st.targets[0].id, None)     # later guards on this name become undecidable
        if not isinstance(st, kinds):
            continue
        h = holds(ctx.conds, env, sub, call, attr)
        if h is True or (h is None and not strict):
            out.append((st, ctx, h))
            ENV_AT[id(st)] = dict(env)
    return out


# --------------------------------------------------------------------------- Clifford map literals
def map_literal(repo, f, call, env=None):
    """(gs, ps) of a CliffordMap(gs=..., ps=...) call with literal (or, given env, computable) arguments, as nested tuples."""
    args = {}
    names = ['gs', 'ps']
    for i, a in enumerate(call.args):
        if i < 2:
            args[names[i]] = a
    for kw in call.keywords:
        if kw.arg in names:
            args[kw.arg] = kw.value
    if 'gs' not in args:
        raise Undecidable('no gs argument')
    def fold(node):
        try:
            return fold_literal(node)
        except Undecidable:
            if env is None:
                raise
            return fold_env(node, env)
    gs = fold(args['gs'])
    if 'ps' in args:
        ps = fold(args['ps'])
    else:
        ps = tuple([0] * len(gs))
    if not (isinstance(gs, tuple) and all(isinstance(r, tuple) for r in gs) and isinstance(ps, tuple)):
        raise Undecidable('not a matrix / vector literal')
    return (gs, ps)


def fold_env(node, env):
    """Literal array whose entries are arithmetic in known names (e.g. [[0,1],[1,k%2]] with k known)."""
    if isinstance(node, ast.Call):
        base = norm(node.func).split('.')[-1]
        if base in ('array', 'tensor', 'asarray') and node.args:
            return fold_env(node.args[0], env)
        raise Undecidable('not a literal: %s' % norm(node))
    if isinstance(node, (ast.List, ast.Tuple)):
        return tuple(fold_env(e, env) for e in node.elts)
    v = ev(node, env)
    if isinstance(v, (int, float, bool)):
        return int(v) if not isinstance(v, float) or v == int(v) else v
    raise Undecidable('not a number: %s' % norm(node))


def is_ctor_call(repo, f, node, clsname):
    if not isinstance(node, ast.Call):
        return False
    if isinstance(node.func, ast.Name):
        r = repo.resolve_local(f, node.func.id)
        return isinstance(r, Cls) and r.name == clsname
    return False


def gate_tables(repo, f, envs, sub=std_sub, call=std_call):
    """For each env: ('table', (gs,ps), stmt) if exactly one CliffordMap literal assignment is reached,
    ('raise', stmt) if a raise is reached first, ('none',) / ('ambiguous', n)."""
    res = []
    for env in envs:
        sts = reached(f, env, sub=sub, call=call)
        tabs, raises = [], []
        for st, ctx, _ in sts:
            if isinstance(st, ast.Raise):
                raises.append(st)
            elif isinstance(st, ast.Assign) and is_ctor_call(repo, f, st.value, 'CliffordMap'):
                tabs.append(st)
        if raises:
            res.append(('raise', raises[0]))
        elif len(tabs) == 1:
            try:
                res.append(('table', map_literal(repo, f, tabs[0].value, ENV_AT.get(id(tabs[0]))), tabs[0]))
            except Undecidable as e:
                res.append(('undecided', str(e), tabs[0]))
        elif not tabs:
            res.append(('none',))
        else:
            res.append(('ambiguous', len(tabs)))
    return res


def gate_wiring(repo, f, valid_envs, sub=std_sub, call=std_call):
    """The literal map reaches the returned gate's forward map: gate = CliffordGate(*qubits);
    gate.set_forward_map(v) / gate.forward_map = v on every valid input; return gate.  Returns (ok, why)."""
    gate_var = None
    map_vars = set()
    wired = None
    returned = None
    for st, ctx in walk(f.node):
        if isinstance(st, ast.Assign) and len(st.targets) == 1:
            t = st.targets[0]
            if isinstance(t, ast.Name) and is_ctor_call(repo, f, st.value, 'CliffordGate'):
                gate_var = t.id
                ctor = st.value
                if not (len(ctor.args) == 1 and isinstance(ctor.args[0], ast.Starred)
                        and norm(ctor.args[0].value) == 'qubits'):
                    return False, 'the gate is not constructed on *qubits'
            elif isinstance(t, ast.Name) and is_ctor_call(repo, f, st.value, 'CliffordMap'):
                map_vars.add(t.id)
            elif isinstance(t, ast.Attribute) and t.attr == 'forward_map' and isinstance(t.value, ast.Name):
                wired = (t.value.id, norm(st.value), ctx)
        elif isinstance(st, ast.Expr) and isinstance(st.value, ast.Call) and isinstance(st.value.func, ast.Attribute) \
                and st.value.func.attr == 'set_forward_map' and isinstance(st.value.func.value, ast.Name) \
                and len(st.value.args) == 1:
            wired = (st.value.func.value.id, norm(st.value.args[0]), ctx)
        elif isinstance(st, ast.Return):
            returned = norm(st.value) if st.value is not None else None
    if gate_var is None:
        return False, 'no CliffordGate is constructed'
    if wired is None:
        return False, 'the table is never installed as the forward map of the gate'
    if wired[0] != gate_var or wired[1] not in map_vars:
        return False, 'forward map of %s is set from %s, not from the literal table' % (wired[0], wired[1])
    if not all(holds(wired[2].conds, env, sub, call) is True for env in valid_envs):
        return False, 'the forward map is not installed for every valid input'
    if returned != gate_var:
        return False, 'the constructed gate is not what is returned'
    return True, ''
