"""R2 BIND -- actual -> formal binding with roles and owners.

Roles come from the repository's uniform naming scheme (DESIGN.md appendix A.1).  A violation is reported
only when both the formal's and the actual's role are known and differ, or when the two halves of a
(string, phase) pair are fed from different owners.
"""
import ast

from .resolve import bind, init_of
from ..flow import walk, assigned_pairs
from ..model import Cls, Func, norm, calls_in

STRING = {'g', 'g1', 'g2', 'gs', 'gs1', 'gs2', 'gs_in', 'gs_out', 'gs_map', 'gs_stb', 'gs_obs', 'gs_ob', 'gs_inv',
          'ga', 'g_cond', 'gs_iden'}
PHASE = {'p', 'ps', 'ps1', 'ps2', 'ps_in', 'ps_out', 'ps_map', 'ps_stb', 'ps_obs', 'ps_ob', 'ps_inv', 'ps_mis', 'pa'}
RANK = {'r'}
COEF = {'c', 'cs', 'cs1', 'cs2'}
QMASK = {'mask', 'subsys'}
SELECT = {'C'}
ATTR_ROLE = {'g': 'STRING', 'gs': 'STRING', 'p': 'PHASE', 'ps': 'PHASE', 'r': 'RANK', 'c': 'COEF', 'cs': 'COEF'}
ROLE_PRESERVING_METHODS = {'copy', 'clone', 'detach', 'astype', 'to', 'cpu', 'numpy', 'float', 'long', 'flatten',
                           'unsqueeze', 'squeeze', 'view', 'reshape'}
ROLE_PRESERVING_FUNCS = {'array', 'asarray', 'flipud', 'expand_dims', 'tensor', 'ascontiguousarray', 'copy'}
INDEX_FUNCS_P = {'stabilizer_project', 'stabilizer_measure', 'stabilizer_projection_trace',
                 'stabilizer_postselection'}


def name_role(name):
    for role, s in (('STRING', STRING), ('PHASE', PHASE), ('RANK', RANK), ('COEF', COEF), ('QMASK', QMASK),
                    ('SELECT', SELECT)):
        if name in s:
            return role
    return None


def expr_role(f, n, local_roles=None):
    """Role of an actual expression, or None if unknown."""
    if isinstance(n, ast.Name):
        if local_roles and n.id in local_roles:
            return local_roles[n.id]
        if n.id == 'p' and f.name in INDEX_FUNCS_P:
            return None
        return name_role(n.id)
    if isinstance(n, ast.Attribute):
        return ATTR_ROLE.get(n.attr)
    if isinstance(n, ast.Subscript):
        return expr_role(f, n.value, local_roles)
    if isinstance(n, ast.Call):
        fn = n.func
        if isinstance(fn, ast.Attribute) and fn.attr in ROLE_PRESERVING_METHODS:
            return expr_role(f, fn.value, local_roles)
        if norm(fn).split('.')[-1] in ROLE_PRESERVING_FUNCS and n.args:
            return expr_role(f, n.args[0], local_roles)
        return None
    return None


def owner(f, n, local_defs):
    """Owner of an actual: root object of an attribute access, or the defining statement of a local."""
    m = n
    while True:
        if isinstance(m, ast.Subscript):
            m = m.value
        elif isinstance(m, ast.Call) and isinstance(m.func, ast.Attribute) and m.func.attr in ROLE_PRESERVING_METHODS:
            m = m.func.value
        elif isinstance(m, ast.Call) and norm(m.func).split('.')[-1] in ROLE_PRESERVING_FUNCS and m.args:
            m = m.args[0]
        else:
            break
    if isinstance(m, ast.Attribute):
        return ('obj', norm(m.value))
    if isinstance(m, ast.Name):
        d = local_defs.get(m.id)
        if d is not None:
            return ('def', d)
        if m.id in local_defs:
            return None
        return ('name', name_suffix(m.id))
    return None


def name_suffix(name):
    """gs_map -> _map, ps_map -> _map, gs1 -> 1, cs1 -> 1, g -> '', p -> '' (the owner part of a role name)."""
    for pre in ('gs', 'ps', 'cs'):
        if name.startswith(pre):
            return name[len(pre):]
    if name[:1] in ('g', 'p', 'c'):
        return name[1:]
    return name


def local_def_sites(f):
    """name -> id of the (single) defining statement, for locals defined by exactly one statement."""
    out, multi = {}, set()
    for st, ctx in walk(f.node):
        if isinstance(st, ast.Assign):
            for t, v in assigned_pairs(st):
                if isinstance(t, ast.Name):
                    if t.id in out and out[t.id] != st.lineno:
                        multi.add(t.id)
                    # only components of one unpacked call result have a common origin worth comparing
                    out[t.id] = st.lineno if isinstance(v, tuple) else None
    for k in multi:
        out.pop(k, None)
    return out


PAIRS = [('gs', 'ps'), ('g', 'p'), ('gs1', 'ps1'), ('gs2', 'ps2'), ('gs_in', 'ps_in'), ('gs_map', 'ps_map'),
         ('gs_stb', 'ps_stb'), ('gs_obs', 'ps_obs'), ('gs_ob', 'ps_ob'), ('gs1', 'cs1'), ('gs2', 'cs2')]


def check_call(run, repo, f, call, target, is_method=False, rule='R2', allow_select_string=True):
    """Bind one call of a repo function/class and check roles and owner pairs.  Returns mapping."""
    fn = target
    if isinstance(target, Cls):
        fn = init_of(repo, target)
        is_method = True
        if fn is None:
            return {}
    mapping, err = bind(fn, call, is_method)
    if err:
        return mapping   # R1c reports binding failures
    ldefs = local_def_sites(f)
    n = 0
    for formal, actual in mapping.items():
        fr = name_role(formal)
        ar = expr_role(f, actual)
        if fr is None or ar is None:
            continue
        n += 1
        if fr == 'SELECT' and ar in ('STRING', 'SELECT'):
            run.ok(rule + '.role', f, call, '%s <- %s' % (formal, norm(actual)))
            continue
        if fr != ar:
            run.violation(rule + '.role', f, call, 'argument `%s` (%s) is bound to parameter `%s` (%s) of %s'
                          % (norm(actual), ar, formal, fr, fn.qual))
        else:
            run.ok(rule + '.role', f, call, '%s <- %s' % (formal, norm(actual)))
    for a, b in PAIRS:
        if a in mapping and b in mapping:
            oa, ob = owner(f, mapping[a], ldefs), owner(f, mapping[b], ldefs)
            if oa is None or ob is None:
                continue
            if oa[0] == 'obj' and ob[0] == 'obj':
                run.check(oa == ob, rule + '.owner', f, call,
                          'parameters `%s` and `%s` of %s are fed from different objects (%s vs %s)'
                          % (a, b, fn.qual, oa[1], ob[1]))
            elif oa[0] == 'name' and ob[0] == 'name' and name_role(norm(mapping[a]).split('[')[0]) \
                    and name_role(norm(mapping[b]).split('[')[0]):
                run.check(oa == ob, rule + '.owner', f, call,
                          'parameters `%s` and `%s` of %s are fed from `%s` and `%s`, which belong to different '
                          'operands' % (a, b, fn.qual, norm(mapping[a]), norm(mapping[b])))
            elif oa[0] == 'def' and ob[0] == 'def':
                run.check(oa == ob, rule + '.owner', f, call,
                          'parameters `%s` and `%s` of %s are fed from values of different origin' % (a, b, fn.qual))
    return mapping


def check_function_calls(run, repo, f, only=None, rule='R2'):
    """Check every name-resolved call of repo kernels / constructors inside f.
    only: optional set of callee names to restrict to."""
    n = 0
    for call, tgts, how in repo.callees(f):
        if how != 'name' or len(tgts) != 1:
            continue
        t = tgts[0]
        name = t.name
        if only is not None and name not in only:
            continue
        check_call(run, repo, f, call, t, rule=rule)
        n += 1
    return n


def return_roles(fn):
    """Roles of the elements of the tuple a function returns (None where unknown); None if the function
    does not return a tuple of the same arity everywhere."""
    rets = []
    for st, ctx in walk(fn.node):
        if isinstance(st, ast.Return) and st.value is not None:
            rets.append(st.value)
    if not rets:
        return None
    arities = {len(r.elts) if isinstance(r, ast.Tuple) else 1 for r in rets}
    if len(arities) != 1:
        return None
    k = arities.pop()
    roles = []
    for i in range(k):
        rs = set()
        for r in rets:
            e = r.elts[i] if isinstance(r, ast.Tuple) else r
            rs.add(expr_role(fn, e))
        roles.append(rs.pop() if len(rs) == 1 else None)
    return roles


def target_role(f, t):
    if isinstance(t, ast.Name):
        if t.id == '_':
            return None
        return name_role(t.id) if not (t.id == 'p' and f.name in INDEX_FUNCS_P) else None
    if isinstance(t, ast.Attribute):
        return ATTR_ROLE.get(t.attr)
    if isinstance(t, ast.Subscript):
        return target_role(f, t.value)
    return None


def check_unpacks(run, repo, f, rule='R2.unpack'):
    """a, b, c = kernel(...): the roles of the targets agree, position by position, with the roles of the
    tuple the kernel returns."""
    n = 0
    for st, ctx in walk(f.node):
        if not (isinstance(st, ast.Assign) and isinstance(st.value, ast.Call) and len(st.targets) == 1):
            continue
        tg = st.targets[0]
        if not isinstance(tg, (ast.Tuple, ast.List)):
            continue
        fnn = st.value.func
        if not isinstance(fnn, ast.Name):
            continue
        callee = repo.resolve_local(f, fnn.id)
        if not isinstance(callee, Func):
            continue
        roles = return_roles(callee)
        if roles is None:
            continue
        if len(roles) != len(tg.elts):
            run.violation(rule, f, st, '%d targets unpack the %d values returned by %s' % (
                len(tg.elts), len(roles), callee.qual))
            continue
        for t, rr in zip(tg.elts, roles):
            tr = target_role(f, t)
            if tr is None or rr is None:
                continue
            n += 1
            run.check(tr == rr, rule, f, st, 'target `%s` (%s) receives the %s component returned by %s'
                      % (norm(t), tr, rr, callee.qual), '%s <- %s' % (norm(t), rr))
    return n
