"""R4 EFFECT clauses on top of effects.Effects:
(a) query purity, (b) argument immunity of in-place operations, (c) copy independence,
(d) copy / conversion faithfulness, (e) destroyed-argument kernels get fresh values."""
from .. import effects as E

LAZY_CACHE = {'attr:forward_map', 'attr:backward_map'}     # gate/layer lazily cache the inverse map
INPLACE = {'rotate_by', 'transform_by', 'measure', 'postselect', 'embed', 'set_r', 'set_c', 'set_cs', '__init__',
           'set_generator', 'set_forward_map', 'set_backward_map', 'forward', 'backward', 'take', 'gate',
           'compose_circuit', 'compile'}
IMMUTABLE_FIELDS = {'p', 'c', 'r', 'N', 'n', 'qubits', 'L', 'device', 'result', 'log2prob', 'unitary',
                    'num_of_measures'}


def check_pure(run, eff, f, roots=None, allow=(), rule='R4a', what='query'):
    """No denotation storage reachable from the given parameters (default: all) is written."""
    roots = list(f.params) if roots is None else roots
    glob = [(p, k) for p, k, via in sorted(eff.summary(f).mod) if p.startswith('@') and not via]
    for p, k in glob:
        run.violation(rule + '.global', f, '%s %s' % (p[1:], k), '%s %s writes the module-level variable `%s`: results of different calls share hidden state '
                      '(a cached object handed out twice is the same mutable object)' % (what, f.qual, p[1:]))
    ms = E.mods(eff, f, roots, all_attrs=(what == 'query'))
    bad = [(p, k) for p, k, via in ms if not via and k not in allow]
    soft = [(p, k) for p, k, via in ms if via and k not in allow]
    if bad:
        for p, k in bad:
            run.violation(rule, f, '%s %s' % (p, k),
                          '%s %s writes %s (%s): it must leave its receiver and arguments unchanged' % (
                              what, f.qual, p, 'in-place array store' if k == 'store' else ('every method of that name writes it' if k == 'some' else 'attribute ' + k[5:])))
    else:
        run.ok(rule, f, f.qual, 'MOD(%s) = {} on resolved call edges' % ','.join(roots))
    for p, k in soft:
        # a may-write of the class-hierarchy approximation only (a method of that NAME in some class writes): listed, not failing
        run.undecided(rule, f, '%s %s' % (p, k), 'write exists only through name-resolved (CHA) method calls', declared=True)
    return not bad


def check_copy(run, eff, f, cls_fields, rule='R4', receiver=None):
    """copy(): every array field of the result is fresh w.r.t. self (c) and every denotation field of the
    class reaches the same-named field of the result (d).  cls_fields: the denotation fields of the class."""
    res = E.result_fields(eff, f)
    if res is None or not res[0]:
        run.violation(rule + 'c', f, 'return', 'copy() does not return a freshly constructed object')
        return
    objs, heap, ret = res
    shared_self = [a for a in ret if a[0] == 'loc']
    if shared_self:
        run.violation(rule + 'c', f, 'return', 'copy() may return %s itself' % shared_self[0][1])
    atoms = E.reachable_atoms(ret, heap)
    # (c) independence: no reachable mutable field may alias the original
    shared = sorted({(path, a[1]) for path, a in atoms if a[0] == 'loc' and path
                     and path.split('.')[-1] not in IMMUTABLE_FIELDS and a[1].split('.')[-1] not in IMMUTABLE_FIELDS
                     and path.split('.')[-1] in E.DENOTATION_FIELDS})
    if shared:
        for path, src in shared:
            run.violation(rule + 'c', f, 'result.%s' % path,
                          'the copy shares mutable data with the original: result.%s aliases %s' % (path, src))
    else:
        run.ok(rule + 'c', f, 'copy independence', '%d reachable field values, none aliases self' % len(atoms))
    # (d') a field copied under a condition may only be skipped when that very field is absent
    import ast
    from ..flow import walk
    from ..model import norm
    for st, ctx in walk(f.node):
        if isinstance(st, ast.Assign) and isinstance(st.targets[0], ast.Attribute) and st.targets[0].attr in cls_fields:
            fld = st.targets[0].attr
            if 'self.' + fld not in norm(st.value):
                continue
            for t, pol in ctx.conds:
                others = {n.attr for n in ast.walk(t) if isinstance(n, ast.Attribute) and norm(n.value) == 'self' and n.attr != fld}
                if others:
                    run.violation(rule + 'd', f, st, 'the copy of field `%s` is only made when a condition on %s holds: an object that has `%s` but fails '
                                  'that condition is copied without it' % (fld, ', '.join('self.' + o for o in sorted(others)), fld))
    # (d'') a field array assembled by sliced stores from self.<field> is a partial copy unless the slice is the whole array
    for st, ctx in walk(f.node):
        if not (isinstance(st, ast.Assign) and isinstance(st.targets[0], ast.Subscript) and isinstance(st.targets[0].value, ast.Name)):
            continue
        srcs = {n.attr for n in ast.walk(st.value) if isinstance(n, ast.Attribute) and norm(n.value) == 'self' and n.attr in cls_fields}
        if not srcs:
            continue
        sl = st.targets[0].slice
        full = (isinstance(sl, ast.Slice) and sl.lower is None and sl.upper is None and sl.step is None) or \
               (isinstance(sl, ast.Constant) and sl.value is Ellipsis)
        if full:
            continue
        fld = sorted(srcs)[0]
        cname = f.cls.name if f.cls is not None else ''
        half = isinstance(sl, ast.Slice) and sl.lower is None and sl.step is None and sl.upper is not None and norm(sl.upper) in ('self.N', 'N')
        if half and cname in ('StabilizerState', 'CliffordMap') and fld in ('gs', 'ps'):
            run.violation(rule + 'd', f, st, 'the copy fills only rows [:N] of `%s` from self.%s: a tableau has 2N rows, the destabilizer half of the copy is '
                          'not the original\'s (to_map, diagonalize and later updates read it)' % (fld, fld))
        else:
            run.undecided(rule + 'd', f, st, 'field `%s` of the copy is assembled by a sliced store (%s): whether the slice covers the whole array is not decided'
                          % (fld, norm(st.targets[0])))
    # (d) faithfulness
    top = {}
    for o in objs:
        for fld, v in heap.get(o[1], {}).items():
            top.setdefault(fld, set()).update(v)
    for fld in cls_fields:
        v = frozenset(top.get(fld, ()))
        mention = False
        for path, a in E.reachable_atoms(v, heap):
            if a[0] in ('loc', 'copyof') and (a[1] == 'self.' + fld or a[1].startswith('self.' + fld + '.')):
                mention = True
        run.check(mention, rule + 'd', f, ('%s: ' % receiver if receiver else '') + 'result.%s' % fld,
                  'field `%s` of the copy is not derived from self.%s: the copy does not denote the same object%s'
                  % (fld, fld, (' (%s inherits this copy method and has the field `%s`)' % (receiver, fld)) if receiver else ''))


def check_fresh_result(run, eff, f, rule='R4a.fresh'):
    """The result shares no mutable storage with the operands (compose / inverse return new maps)."""
    s = eff.summary(f)
    ret = s.ret if not isinstance(s.ret, tuple) else frozenset().union(*s.ret[1])
    atoms = E.reachable_atoms(ret, s.heap)
    direct = [a for a in ret if a[0] == 'loc' and not a[1].startswith('@')]
    shared_global = [a for a in ret if a[0] == 'loc' and a[1].startswith('@')]
    for a in shared_global:
        run.violation(rule, f, 'return', '%s may return an object stored in the module-level variable `%s`: every caller gets the same mutable object'
                      % (f.qual, a[1][1:]))
    shared = sorted({(path, a[1]) for path, a in atoms if a[0] == 'loc' and path.split('.')[-1] not in IMMUTABLE_FIELDS})
    if direct:
        run.violation(rule, f, 'return', '%s returns one of its operands (%s) instead of a new object' % (f.qual, direct[0][1]))
    elif shared:
        for path, src in shared:
            run.violation(rule, f, 'result.%s' % path, 'result.%s aliases operand storage %s' % (path, src))
    else:
        run.ok(rule, f, f.qual, 'result is fresh')


LINK_FIELDS = {'first_layer', 'last_layer', 'next_layer', 'prev_layer'}


def check_no_capture(run, eff, f, rule='R4e'):
    """An operation that merges another circuit into its receiver must rebuild the layer chain: no layer object reachable from
    an argument may be linked into the receiver (a link field of anything rooted at `self` receiving a value rooted at another
    parameter).  A shared layer is changed by later take() calls on either circuit."""
    s = eff.summary(f)
    others = [p for p in f.posparams if p != 'self']
    bad = []
    for target, field, av in sorted(s.attr_stores, key=repr):
        if field not in LINK_FIELDS or target.split('.')[0] != 'self':
            continue
        for a in av:
            if a[0] == 'loc' and a[1].split('.')[0] in others and a[1].split('.')[-1] in LINK_FIELDS:
                bad.append((target, field, a[1]))
    for target, field, src in bad:
        run.violation(rule, f, '%s.%s = %s' % (target, field, src), '%s links a layer of its argument into the receiver (%s.%s is %s): the two circuits '
                      'then share that layer, and a gate taken by one of them later is also taken by the other' % (f.qual, target, field, src))
    if not bad:
        run.ok(rule, f, f.qual, 'no link field of the receiver holds a layer of an argument')
    return not bad
