"""R12 reader / writer tables of the textual and token formats (printing, parsing, scalar multiples, qutip export)."""
import ast

from ..exprnf import ev, Undecidable, affine_in
from ..flow import walk
from ..model import norm
from . import tables
from .. import oracle


def _attr_env(mapping):
    def attr(n, env, rec):
        k = norm(n)
        if k in mapping:
            return mapping[k]
        raise Undecidable('attribute ' + k)
    return attr


def phase_shift_of(call, t_values=(0, 1, 2, 3), env=None):
    """For `Cls(self.g, (self.p + k) % 4)` return (string arg text, k) or None (k may be a local bound in `env`)."""
    if not (isinstance(call, ast.Call) and len(call.args) >= 2):
        return None
    ks = set()
    for t in t_values:
        try:
            v = ev(call.args[1], dict(env or {}), attr=_attr_env({'self.p': t, 'self.ps': t}))
        except Undecidable:
            return None
        ks.add((v - t) % 4 if isinstance(v, int) and 0 <= v < 4 else None)
    if len(ks) != 1 or None in ks:
        return None
    return norm(call.args[0]), ks.pop()


def rmul_table(f):
    """{c: ('self',) | ('shift', string arg, k) | ('other', text)} for c in 1, 1j, -1, -1j, and the fallback."""
    cname = f.posparams[1]
    out = {}
    from .. import mini
    for c in (1, 1j, -1, -1j, 2.5):
        # the method is executed by the checker's interpreter with the scalar bound (if / elif chains, early returns and
        # loops over a literal table of units all end at the return that this scalar reaches)
        try:
            tr = mini.execute(f.node, {cname: c})
        except Undecidable as e:
            out[c] = ('undecided', str(e))
            continue
        last = tr[-1] if tr else None
        if last is None or not isinstance(last[0], (ast.Return, ast.Raise)):
            out[c] = ('none',)
            continue
        st, env = last
        if isinstance(st, ast.Raise):
            out[c] = ('raise',)
        elif isinstance(st.value, ast.Name) and st.value.id == 'self':
            out[c] = ('self',)
        else:
            ps = phase_shift_of(st.value, env=env)
            out[c] = ('shift',) + ps if ps else ('other', norm(st.value))
    return out


def check_rmul(run, f, rule='R12.rmul', field='g'):
    tab = rmul_table(f)
    want = {1: 0, 1j: 1, -1: 2, -1j: 3}
    for c, k in want.items():
        got = tab.get(c)
        if got == ('self',):
            gk = 0
            gs = 'self.' + field
        elif got and got[0] == 'shift':
            gs, gk = got[1], got[2]
        elif got and got[0] == 'undecided':
            run.undecided(rule, f, 'c == %r' % (c,), 'the method could not be interpreted for this scalar: %s' % got[1])
            continue
        else:
            run.violation(rule, f, 'c == %r' % (c,), 'multiplication by %r must shift the phase indicator by %d (found %s)' % (c, k, got))
            continue
        run.check(gk == k and gs in ('self.g', 'self.gs'), rule, f, 'c == %r -> +%d' % (c, gk),
                  'multiplying by %r = i^%d must add %d to the phase indicator and keep the string (adds %d, string %s)' % (c, k, k, gk, gs))
    return tab


def _repr_tables_exec(f):
    """The printer executed on one-qubit operators: prefix = printed text without its last character, letter = last character."""
    from .. import mini

    def run_once(p, x, z):
        def attr(n, env, rec):
            t = norm(n)
            if t == 'self.N':
                return 1
            if t == 'self.p':
                return p
            if t == 'self.g':
                return (x, z)
            raise Undecidable('attribute ' + t)

        def sub(n, env, rec):
            b, k = rec(n.value), rec(n.slice)
            try:
                return b[k]
            except Exception as e:
                raise Undecidable('subscript %s: %s' % (norm(n), e))

        def call(n, env, rec):
            fn = n.func
            if isinstance(fn, ast.Name) and fn.id in ('int', 'str') and len(n.args) == 1:
                return {'int': int, 'str': str}[fn.id](rec(n.args[0]))
            if isinstance(fn, ast.Attribute) and fn.attr in ('item', 'long', 'int', 'tolist') and not n.args:
                return rec(fn.value)
            if isinstance(fn, ast.Attribute) and fn.attr == 'join' and len(n.args) == 1:
                b = rec(fn.value)
                if isinstance(b, str):
                    return b.join(rec(n.args[0]))
            raise Undecidable('call ' + norm(fn))
        res = []
        mini.execute(f.node, {}, sub=sub, call=call, attr=attr, result=res)
        if len(res) != 1 or not isinstance(res[0], str) or len(res[0]) < 1:
            raise Undecidable('printed text not computed')
        return res[0]
    pref, letters = {}, {}
    for p in range(4):
        pref[p] = run_once(p, 0, 0)[:-1]
    for x in (0, 1):
        for z in (0, 1):
            letters[(x, z)] = run_once(0, x, z)[-1]
    return pref, letters


def repr_tables(f):
    """(prefix table {p: str}, letter table {(x,z): str}) of a __repr__ that builds `txt`."""
    try:
        return _repr_tables_exec(f)
    except (Undecidable, TypeError, IndexError, KeyError):
        pass
    pref = {}
    from ..names import return_names
    rn = return_names(f)
    TXT = rn[0] if len(rn) == 1 and rn[0] else 'txt'
    for p in range(4):
        sts = tables.reached(f, {}, kinds=(ast.Assign,), attr=_attr_env({'self.p': p, 'self.N': 1}))
        vals = [st.value.value for st, ctx, _ in sts if isinstance(st.targets[0], ast.Name) and st.targets[0].id == TXT
                and isinstance(st.value, ast.Constant) and isinstance(st.value.value, str)]
        pref[p] = vals[-1] if vals else None
    letters = {}
    # locals x, z defined from self.g[2*i], self.g[2*i+1]
    slots = {}
    for st, ctx in walk(f.node):
        if isinstance(st, ast.Assign) and isinstance(st.targets[0], ast.Name) and isinstance(st.value, ast.Subscript) and ctx.loops:
            lp = ctx.loops[-1]
            if isinstance(lp.target, ast.Name):
                ab = affine_in(st.value.slice, lp.target.id)
                if ab == (2, 0):
                    slots[st.targets[0].id] = 'x'
                elif ab == (2, 1):
                    slots[st.targets[0].id] = 'z'
    inv = {v: k for k, v in slots.items()}
    if set(inv) == {'x', 'z'}:
        for x in (0, 1):
            for z in (0, 1):
                sts = tables.reached(f, {inv['x']: x, inv['z']: z}, kinds=(ast.AugAssign,))
                vals = [st.value.value for st, ctx, _ in sts if isinstance(st.target, ast.Name) and st.target.id == TXT
                        and isinstance(st.value, ast.Constant)]
                letters[(x, z)] = vals[0] if len(vals) == 1 else None
    return pref, letters


def qutip_letters(f):
    """{(x,z): letter} of a to_qutip method: which qutip operator each (x,z) pair is mapped to."""
    plist = None
    for st, ctx in walk(f.node):
        if isinstance(st, ast.Assign) and isinstance(st.value, ast.List) and len(st.value.elts) == 4 \
                and all(isinstance(e, ast.Call) for e in st.value.elts):
            plist = [norm(e.func).split('.')[-1] for e in st.value.elts]
            pname = norm(st.targets[0])
    if plist is None:
        return None
    names = {'qeye': 'I', 'sigmax': 'X', 'sigmay': 'Y', 'sigmaz': 'Z'}
    out = {}
    for x in (0, 1):
        for z in (0, 1):
            def sub(n, env, rec, x=x, z=z):
                idx = n.slice
                last = idx.elts[-1] if isinstance(idx, ast.Tuple) else idx
                for v in ('i',):
                    ab = affine_in(last, v)
                    if ab == (2, 0):
                        return x
                    if ab == (2, 1):
                        return z
                raise Undecidable('subscript ' + norm(n))
            hits = []
            for st, ctx in walk(f.node):
                if isinstance(st, ast.Expr) and isinstance(st.value, ast.Call) and isinstance(st.value.func, ast.Attribute) \
                        and st.value.func.attr == 'append' and ctx.loops:
                    h = tables.holds(ctx.conds, {}, sub=sub)
                    if h is True:
                        a = st.value.args[0]
                        if isinstance(a, ast.Subscript) and norm(a.value) == pname and isinstance(a.slice, ast.Constant):
                            hits.append(names.get(plist[a.slice.value]))
            out[(x, z)] = hits[0] if len(hits) == 1 else None
    return out


def _tok_value(e, mvar, tok):
    """Value of a closed expression over the current token (constants, tuples, + - * // %, `<const seq>.index(token)`, a subscript of a
    constant sequence); None when it is anything else."""
    try:
        if isinstance(e, ast.Constant):
            return e.value
        if isinstance(e, ast.Name) and e.id == mvar:
            return tok
        if isinstance(e, (ast.Tuple, ast.List)):
            vs = [_tok_value(x, mvar, tok) for x in e.elts]
            return None if any(v is None for v in vs) else tuple(vs)
        if isinstance(e, ast.BinOp) and isinstance(e.op, (ast.Add, ast.Sub, ast.Mult, ast.FloorDiv, ast.Mod)):
            a, b = _tok_value(e.left, mvar, tok), _tok_value(e.right, mvar, tok)
            if isinstance(a, int) and isinstance(b, int) and not isinstance(a, bool) and not isinstance(b, bool):
                return {ast.Add: a + b, ast.Sub: a - b, ast.Mult: a * b}.get(type(e.op)) if not isinstance(e.op, (ast.FloorDiv, ast.Mod)) \
                    else (None if b == 0 else (a // b if isinstance(e.op, ast.FloorDiv) else a % b))
            return None
        if isinstance(e, ast.Call) and isinstance(e.func, ast.Attribute) and e.func.attr == 'index' and len(e.args) == 1 and not e.keywords:
            seq, x = _tok_value(e.func.value, mvar, tok), _tok_value(e.args[0], mvar, tok)
            if isinstance(seq, (tuple, str)) and x is not None and (not isinstance(seq, str) or isinstance(x, str)) and x in seq:
                return seq.index(x)
            return None
        if isinstance(e, ast.Subscript):
            seq, i = _tok_value(e.value, mvar, tok), _tok_value(e.slice, mvar, tok)
            if isinstance(seq, (tuple, str)) and isinstance(i, int) and -len(seq) <= i < len(seq):
                return seq[i]
    except Exception:
        return None
    return None


def reader_table(f):
    """pauli(): effect of each token (codes 0..7 and characters) as a dict token -> frozenset of effects."""
    tokens = [0, 1, 2, 3, 4, 5, 6, 7, 'I', 'X', 'Y', 'Z', '+', '-', 'i', ' ']
    out = {}
    loop = None
    for st, ctx in walk(f.node):
        if isinstance(st, ast.For) and isinstance(st.target, ast.Tuple) and len(st.target.elts) == 2:
            loop = st
    if loop is None:
        return None
    ivar, mvar = [e.id for e in loop.target.elts]
    roles = reader_roles(f)
    H = roles.get('h', 'h')
    canon = {roles.get('p', 'p'): 'p', H: 'h'}
    for tok in tokens:
        effs = []
        for st, ctx in walk(f.node):
            if not (ctx.loops and ctx.loops[-1] is loop):
                continue
            if isinstance(st, (ast.Assign, ast.AugAssign, ast.Continue)):
                h = tables.holds(ctx.conds, {mvar: tok})
                if h is not True:
                    continue
                if isinstance(st, ast.Continue):
                    effs.append(('skip',))
                elif isinstance(st, ast.Assign) and isinstance(st.targets[0], ast.Name):
                    tv = _tok_value(st.value, mvar, tok)
                    effs.append(('set', canon.get(st.targets[0].id, st.targets[0].id), tv if isinstance(tv, int) else norm(st.value)))
                elif isinstance(st, ast.AugAssign) and isinstance(st.target, ast.Name):
                    tv = _tok_value(st.value, mvar, tok)
                    effs.append(('add', canon.get(st.target.id, st.target.id), tv if isinstance(tv, int) else norm(st.value)))
                elif isinstance(st, ast.Assign) and isinstance(st.targets[0], ast.Subscript):
                    # g[2*(i-h)] / g[2*(i-h)+1] = 1
                    idx = st.targets[0].slice
                    slot = None
                    try:
                        v0 = ev(idx, {ivar: 3, H: 1})
                        v1 = ev(idx, {ivar: 5, H: 2})
                        if (v0, v1) == (4, 6):
                            slot = 'x'
                        elif (v0, v1) == (5, 7):
                            slot = 'z'
                    except Undecidable:
                        pass
                    effs.append(('bit', slot, ev(st.value, {}) if isinstance(st.value, ast.Constant) else None))
        out[tok] = tuple(effs)
    return out


def reader_roles(f):
    """Names of the parser's locals by role: g (string), p (phase), h (count of non-qubit positions), from the
    returned Pauli(g[: -2*h], p)."""
    roles = {}
    for st, ctx in walk(f.node):
        if isinstance(st, ast.Return) and isinstance(st.value, ast.Call) and norm(st.value.func) == 'Pauli' and len(st.value.args) == 2:
            a0, a1 = st.value.args
            if isinstance(a1, ast.Name):
                roles['p'] = a1.id
            if isinstance(a0, ast.Name):
                roles['g'] = a0.id
            elif isinstance(a0, ast.Subscript) and isinstance(a0.value, ast.Name):
                roles['g'] = a0.value.id
                if isinstance(a0.slice, ast.Slice) and a0.slice.upper is not None:
                    ns = [n.id for n in ast.walk(a0.slice.upper) if isinstance(n, ast.Name)]
                    if len(ns) == 1:
                        roles['h'] = ns[0]
    return roles


def fold_prefix(table, prefix):
    """Interpret the reader table on the characters of a printed phase prefix; returns (p, h)."""
    p = h = 0
    for ch in prefix:
        for e in table.get(ch, ()):
            if e[0] in ('set', 'add') and e[1] in ('p', 'h') and not isinstance(e[2], int):
                raise Undecidable('effect of the prefix character %r on %s is not a constant: %s' % (ch, e[1], e[2]))
            if e[0] == 'set' and e[1] == 'p':
                p = e[2]
            elif e[0] == 'add' and e[1] == 'p':
                p += e[2]
            elif e[0] == 'add' and e[1] == 'h':
                h += e[2]
            elif e[0] == 'bit':
                return None
    return p, h


def token_tables(f, loop_form):
    """(letter code table {(x,z): code}, phase code table {p: code}) of pauli_tokenize."""
    from . import nf
    letters, phases = {}, {}
    if loop_form:
        site = None
        ph = None
        for st, ctx in walk(f.node):
            if isinstance(st, ast.Assign) and isinstance(st.targets[0], ast.Subscript) and isinstance(st.targets[0].slice, ast.Tuple) and ctx.loops:
                depth = len(ctx.loops)
                if depth == 2:
                    site = (st, ctx.loops[-1].target.id)
                elif depth == 1:
                    ph = st
        if site is None or ph is None:
            raise Undecidable('token statements not found')
        st, ivar = site
        for x in (0, 1):
            for z in (0, 1):
                def sub(n, env, rec, x=x, z=z):
                    idx = n.slice
                    last = idx.elts[-1] if isinstance(idx, ast.Tuple) else idx
                    ab = affine_in(last, ivar)
                    if ab == (2, 0):
                        return x
                    if ab == (2, 1):
                        return z
                    raise Undecidable('subscript ' + norm(n))
                letters[(x, z)] = ev(st.value, {}, sub=sub)
        # phase: x = ps[j]; ts[j, N] = f(x)
        local = {}
        for s2, c2 in walk(f.node):
            if isinstance(s2, ast.Assign) and isinstance(s2.targets[0], ast.Name) and isinstance(s2.value, ast.Subscript) \
                    and isinstance(s2.value.value, ast.Name) and s2.value.value.id.startswith('ps'):
                local[s2.targets[0].id] = True
        for p in range(4):
            env = {k: p for k in local}
            def sub2(n, env_, rec, p=p):
                if isinstance(n.value, ast.Name) and n.value.id.startswith('ps'):
                    return p
                raise Undecidable('subscript ' + norm(n))
            phases[p] = ev(ph.value, env, sub=sub2)
        col = ph.targets[0].slice.elts[-1]
        phases['col'] = norm(col)
    else:
        defs = {}
        ret = None
        for st, ctx in walk(f.node):
            if isinstance(st, ast.Assign):
                from ..flow import assigned_pairs
                for t, v in assigned_pairs(st):
                    if isinstance(t, ast.Name):
                        defs[t.id] = v
            elif isinstance(st, ast.Return):
                ret = st.value
        # ts = letters expr ; x = phase expr ; return cat((ts, x.view(-1,1)), 1)
        if not (isinstance(ret, ast.Call) and norm(ret.func).split('.')[-1] in ('cat', 'concat', 'concatenate')):
            raise Undecidable('return is not a concatenation')
        parts = ret.args[0].elts
        lexpr, pexpr = parts[0], parts[1]
        from .pair import strip_shape

        def resolve(e):
            e = strip_shape(e)
            while isinstance(e, ast.Name) and e.id in defs:
                e = strip_shape(defs[e.id])
            return e
        lexpr, pexpr = resolve(lexpr), resolve(pexpr)

        def call(n, env, rec):
            fn = norm(n.func)
            if fn == 'torch.div' and any(k.arg == 'rounding_mode' and k.value.value == 'floor' for k in n.keywords):
                return rec(n.args[0]) // rec(n.args[1])
            raise Undecidable('call ' + fn)
        for x in (0, 1):
            for z in (0, 1):
                def sub(n, env, rec, x=x, z=z):
                    s = nf._slice_slot(n)
                    if s == 'x':
                        return x
                    if s == 'z':
                        return z
                    raise Undecidable('subscript ' + norm(n))

                class Env(dict):
                    def __contains__(self, k):
                        return k in defs

                    def __getitem__(self, k):
                        return ev(defs[k], self, sub=sub, call=call)
                letters[(x, z)] = ev(lexpr, Env(), sub=sub, call=call)
        pname = f.posparams[1]
        for p in range(4):
            phases[p] = ev(pexpr, {pname: p}, call=call)
        phases['col'] = 'N'
    return letters, phases
