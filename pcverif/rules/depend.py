"""R6 DEPEND -- required dependence (information flow), syntactic may-dependence closure.

reads(f) over-approximates the set of receiver fields (and parameters) the result of a method can depend on:
every `self.<field>` loaded in the method, in the properties it reads and in the methods it invokes on `self` /
`super()`, transitively.  A required field that is not in reads(f) is provably ignored by the result."""
import ast

from ..model import norm, walk_local


def self_reads(repo, f, _seen=None):
    seen = _seen if _seen is not None else set()
    if f.key() in seen:
        return set()
    seen.add(f.key())
    out = set()
    if f.cls is None:
        return out
    for n in walk_local(f.node):
        if isinstance(n, ast.Attribute) and isinstance(n.value, ast.Name) and n.value.id == 'self' and isinstance(n.ctx, ast.Load):
            m = None
            for k in repo.subclasses(f.cls):
                mm = repo.lookup_method(k, n.attr)
                if mm is not None:
                    m = mm if m is None else m
                    out |= self_reads(repo, mm, seen)
            if m is None:
                out.add(n.attr)
        elif isinstance(n, ast.Call) and isinstance(n.func, ast.Attribute) and isinstance(n.func.value, ast.Call) \
                and isinstance(n.func.value.func, ast.Name) and n.func.value.func.id == 'super':
            for b in repo.mro(f.cls)[1:]:
                if n.func.attr in b.methods:
                    out |= self_reads(repo, b.methods[n.func.attr], seen)
                    break
        elif isinstance(n, ast.For) or isinstance(n, ast.comprehension):
            it = n.iter
            if isinstance(it, ast.Name) and it.id == 'self' or (isinstance(it, ast.Call) and any(
                    isinstance(a, ast.Name) and a.id == 'self' for a in it.args)):
                # iterating self uses __getitem__ / __len__
                for name in ('__getitem__', '__len__'):
                    m = repo.lookup_method(f.cls, name)
                    if m is not None:
                        out |= self_reads(repo, m, seen)
    return out


def param_reads(f):
    """Names of parameters loaded anywhere in the function."""
    out = set()
    for n in walk_local(f.node):
        if isinstance(n, ast.Name) and isinstance(n.ctx, ast.Load) and n.id in f.params:
            out.add(n.id)
    return out


def check_reads(run, repo, f, required, rule='R6', what='value'):
    got = self_reads(repo, f)
    ok = True
    for fld in required:
        if fld in got:
            run.ok(rule, f, 'self.%s' % fld, 'may-depend')
        else:
            ok = False
            run.violation(rule, f, 'self.%s' % fld, 'the %s of %s never reads self.%s: it cannot denote the object, whose meaning '
                          'depends on that field' % (what, f.qual, fld))
    return ok


DENOTATION = {'Pauli': ['g', 'p'], 'PauliMonomial': ['g', 'p', 'c'], 'PauliList': ['gs', 'ps'], 'PauliPolynomial': ['gs', 'ps', 'cs'],
              'CliffordMap': ['gs', 'ps'], 'StabilizerState': ['gs', 'ps', 'r']}


def operand_reads(repo, f, node, var, cls):
    """Fields of `var` (taken to be an instance of cls) that the expression `node` may depend on."""
    out = set()
    # the returned expression together with the definitions of the locals it uses (flow-insensitive closure)
    from ..flow import walk as _walk, assigned_pairs as _pairs
    nodes, seen, todo = [node], set(), [node]
    while todo:
        cur = todo.pop()
        for x in ast.walk(cur):
            if isinstance(x, ast.Name) and isinstance(x.ctx, ast.Load) and x.id != var and x.id not in seen and x.id not in f.params:
                seen.add(x.id)
                for st, ctx in _walk(f.node):
                    if isinstance(st, ast.Assign):
                        for t, v in _pairs(st):
                            if isinstance(t, ast.Name) and t.id == x.id:
                                vv = v[2] if isinstance(v, tuple) else v
                                nodes.append(vv)
                                todo.append(vv)
    for n in [y for nd in nodes for y in ast.walk(nd)]:
        if isinstance(n, ast.Attribute) and isinstance(n.value, ast.Name) and n.value.id == var:
            m = repo.lookup_method(cls, n.attr)
            if m is not None:
                out |= self_reads(repo, m)
                from ..flow import walk as _w2
                if any(isinstance(st, ast.Return) and isinstance(st.value, ast.Name) and st.value.id == 'self' for st, _ in _w2(m.node)):
                    out |= set(DENOTATION.get(cls.name, []))      # the method hands the object itself on
            else:
                out.add(n.attr)
        elif isinstance(n, ast.Name) and n.id == var and isinstance(n.ctx, ast.Load):
            # the object itself is passed on (e.g. self.expect(obs), other + x): everything may be read
            parent_is_attr = False
            for nd in nodes:
                for m2 in ast.walk(nd):
                    if isinstance(m2, ast.Attribute) and m2.value is n:
                        parent_is_attr = True
            if not parent_is_attr:
                out |= set(DENOTATION.get(cls.name, []))
    return out


def check_branch_reads(run, repo, f, rule='R6.branch'):
    """In an isinstance dispatch, the value returned from a branch must be able to depend on every denotation field of every
    class that reaches that branch, subclasses included (a fast path that converts a monomial with a method inherited from
    Pauli silently drops its coefficient)."""
    from ..flow import walk
    from .dispatch import _isinstance_test, classes_of
    n = 0
    for st, ctx in walk(f.node):
        if not (isinstance(st, ast.Return) and st.value is not None):
            continue
        # classes that can reach this return: positive isinstance tests, minus classes excluded by earlier negative tests
        pos, neg = {}, {}
        for t, pol in ctx.conds:
            it = _isinstance_test(t)
            if it is None or it[2]:
                continue
            var, cnode, _ = it
            (pos if pol else neg).setdefault(var, []).extend(classes_of(repo, f, cnode))
        for var, ks in pos.items():
            if var not in {x.id for x in ast.walk(st.value) if isinstance(x, ast.Name)}:
                continue
            reach = []
            for k in ks:
                for sub in repo.subclasses(k):
                    if any(repo.is_subclass(sub, ex) for ex in neg.get(var, [])):
                        continue
                    if sub not in reach:
                        reach.append(sub)
            for sub in reach:
                fields = DENOTATION.get(sub.name)
                if not fields:
                    continue
                got = operand_reads(repo, f, st.value, var, sub)
                missing = [x for x in fields if x not in got]
                n += 1
                run.check(not missing, rule, f, st, 'a %s reaches this branch, but the returned value cannot depend on its %s (the operand is only '
                          'used through %s): the result ignores part of what the operand denotes' % (
                              sub.name, ', '.join('`%s`' % x for x in missing), sorted(got) or 'nothing'))
    return n
