"""R6 DEPEND -- required dependence (information flow), syntactic may-dependence closure.

reads(f) over-approximates the set of receiver fields (and parameters) the result of a method can depend on:
every `self.<field>` loaded in the method, in the properties it reads and in the methods it invokes on `self` /
`super()`, transitively.  A required field that is not in reads(f) is provably ignored by the result."""
import ast

from ..model import norm, walk_local


def self_reads(repo, f, _seen=None):
    seen = _seen if _seen is not None else set()
    if f.key() in seen:
        return set()
    seen.add(f.key())
    out = set()
    if f.cls is None:
        return out
    for n in walk_local(f.node):
        if isinstance(n, ast.Attribute) and isinstance(n.value, ast.Name) and n.value.id == 'self' and isinstance(n.ctx, ast.Load):
            m = None
            for k in repo.subclasses(f.cls):
                mm = repo.lookup_method(k, n.attr)
                if mm is not None:
                    m = mm if m is None else m
                    out |= self_reads(repo, mm, seen)
            if m is None:
                out.add(n.attr)
        elif isinstance(n, ast.Call) and isinstance(n.func, ast.Attribute) and isinstance(n.func.value, ast.Call) \
                and isinstance(n.func.value.func, ast.Name) and n.func.value.func.id == 'super':
            for b in repo.mro(f.cls)[1:]:
                if n.func.attr in b.methods:
                    out |= self_reads(repo, b.methods[n.func.attr], seen)
                    break
        elif isinstance(n, ast.For) or isinstance(n, ast.comprehension):
            it = n.iter
            if isinstance(it, ast.Name) and it.id == 'self' or (isinstance(it, ast.Call) and any(
                    isinstance(a, ast.Name) and a.id == 'self' for a in it.args)):
                # iterating self uses __getitem__ / __len__
                for name in ('__getitem__', '__len__'):
                    m = repo.lookup_method(f.cls, name)
                    if m is not None:
                        out |= self_reads(repo, m, seen)
    return out


def param_reads(f):
    """Names of parameters loaded anywhere in the function."""
    out = set()
    for n in walk_local(f.node):
        if isinstance(n, ast.Name) and isinstance(n.ctx, ast.Load) and n.id in f.params:
            out.add(n.id)
    return out


def check_reads(run, repo, f, required, rule='R6', what='value'):
    got = self_reads(repo, f)
    ok = True
    for fld in required:
        if fld in got:
            run.ok(rule, f, 'self.%s' % fld, 'may-depend')
        else:
            ok = False
            run.violation(rule, f, 'self.%s' % fld, 'the %s of %s never reads self.%s: it cannot denote the object, whose meaning '
                          'depends on that field' % (what, f.qual, fld))
    return ok
