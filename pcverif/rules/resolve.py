"""R1 RESOLVE -- no definitely-failing reference in a property's cone.

(a) free names resolve to a local, enclosing, module-level, imported or builtin binding;
(b) attribute chains rooted at the numpy / torch module aliases exist in the installed library;
(c) calls of repo-defined functions / classes bind (arity, keywords), constructors followed through
    *args/**kwargs forwarding __init__s.
References inside the expression of a `raise` are exempt (that path raises anyway).
"""
import ast
import builtins
import importlib

from ..flow import in_raise
from ..model import Func, Cls, norm, walk_local, calls_in

_LIB = {}


def _lib(name):
    if name not in _LIB:
        try:
            _LIB[name] = importlib.import_module(name)
        except Exception:
            _LIB[name] = None
    return _LIB[name]


CHECKED_LIBS = ('numpy', 'torch')

# Cache of "does <lib>.<a>.<b> exist in the installed library", keyed by the library's installed version.  It describes
# the third-party library only (never /repo) and merely avoids importing torch (~5 s, 600 MB) in every check.
import json
import os
_CACHE_PATH = os.path.join(os.path.dirname(os.path.dirname(os.path.dirname(os.path.abspath(__file__)))), '.cache', 'libattrs.json')
_CACHE = None


def _lib_version(lib):
    try:
        from importlib import metadata
        return metadata.version(lib)
    except Exception:
        return 'unknown'


def _cache():
    global _CACHE
    if _CACHE is None:
        try:
            with open(_CACHE_PATH) as fh:
                _CACHE = json.load(fh)
        except Exception:
            _CACHE = {}
    return _CACHE


def _cache_store():
    try:
        os.makedirs(os.path.dirname(_CACHE_PATH), exist_ok=True)
        tmp = _CACHE_PATH + '.%d.tmp' % os.getpid()
        with open(tmp, 'w') as fh:
            json.dump(_CACHE, fh)
        os.replace(tmp, _CACHE_PATH)
    except Exception:
        pass


def chain_exists(libname, chain):
    """(exists, checked prefix) for attribute chain `chain` (list of names) rooted at module `libname`."""
    top = libname.split('.')[0]
    key = '%s==%s' % (top, _lib_version(top))
    c = _cache().setdefault(key, {})
    ck = libname + ':' + '.'.join(chain)
    if ck in c:
        return tuple(c[ck])
    obj = _lib(libname)
    if obj is None:
        return (True, list(chain))
    ok = True
    upto = []
    for a in chain:
        upto.append(a)
        if not hasattr(obj, a):
            ok = False
            break
        obj = getattr(obj, a)
        if not (type(obj).__name__ in ('module', '_OpNamespace')):
            break
    c[ck] = [ok, upto]
    _cache_store()
    return (ok, upto)


def local_names(fnode):
    names = set()
    a = fnode.args
    for x in a.posonlyargs + a.args + a.kwonlyargs:
        names.add(x.arg)
    if a.vararg:
        names.add(a.vararg.arg)
    if a.kwarg:
        names.add(a.kwarg.arg)
    for n in walk_local(fnode):
        if isinstance(n, ast.Name) and isinstance(n.ctx, (ast.Store, ast.Del)):
            names.add(n.id)
        elif isinstance(n, (ast.Import, ast.ImportFrom)):
            for al in n.names:
                names.add((al.asname or al.name).split('.')[0])
        elif isinstance(n, ast.ExceptHandler) and n.name:
            names.add(n.name)
    for n in ast.iter_child_nodes(fnode):
        pass
    for n in ast.walk(fnode):
        if isinstance(n, (ast.FunctionDef, ast.ClassDef)) and n is not fnode:
            names.add(n.name)
        if isinstance(n, ast.Lambda):
            for x in n.args.args:
                names.add(x.arg)
    return names


def check_names(run, f, rule='R1a'):
    """(a) every loaded free name resolves."""
    exempt = in_raise(f.node)
    scopes = []
    g = f
    while g is not None:
        scopes.append(local_names(g.node))
        g = g.parent
    m = f.module
    n_checked = 0
    for n in walk_local(f.node):
        if isinstance(n, ast.Name) and isinstance(n.ctx, ast.Load):
            n_checked += 1
            if any(n.id in s for s in scopes):
                continue
            if n.id in m.defs or n.id in m.imports or n.id in m.globals_assigned:
                continue
            if hasattr(builtins, n.id):
                continue
            if id(n) in exempt:
                continue
            run.violation(rule, f, n.id, 'name `%s` is not bound in any enclosing scope: the statement raises '
                          'NameError whenever it is reached' % n.id, line=n.lineno)
    return n_checked


def _dotted(node):
    parts = []
    while isinstance(node, ast.Attribute):
        parts.append(node.attr)
        node = node.value
    if isinstance(node, ast.Name):
        parts.append(node.id)
        return list(reversed(parts))
    return None


def check_lib_attrs(run, f, rule='R1b'):
    """(b) numpy.* / torch.* attribute chains exist in the installed library."""
    exempt = in_raise(f.node)
    locs = local_names(f.node)
    seen = set()
    n_checked = 0
    for n in walk_local(f.node):
        if not isinstance(n, ast.Attribute):
            continue
        d = _dotted(n)
        if not d or d[0] in locs:
            continue
        imp = f.module.imports.get(d[0])
        if not imp or imp[0] != 'ext':
            continue
        libname = imp[1]
        if libname.split('.')[0] not in CHECKED_LIBS:
            continue
        key = tuple(d)
        if key in seen:
            continue
        seen.add(key)
        n_checked += 1
        ok, up = chain_exists(libname, d[1:])
        upto = [d[0]] + list(up)
        if not ok and id(n) not in exempt:
            run.violation(rule, f, '.'.join(upto), '`%s` does not exist in the installed %s %s: AttributeError '
                          'whenever the statement is reached' % ('.'.join(upto), libname,
                                                                 _lib_version(libname.split('.')[0])),
                          line=n.lineno)
    return n_checked


def init_of(repo, c):
    """The __init__ that finally binds the arguments (following (*args, **kwargs) forwarders)."""
    for k in repo.mro(c):
        if '__init__' in k.methods:
            ini = k.methods['__init__']
            if ini.vararg and ini.kwarg and len(ini.posparams) == 1:
                continue
            return ini
    return None


def bind(fn, call, is_method):
    """Bind a call's actuals to fn's formals.  Returns (mapping formal->actual node, error or None).
    Calls with *args / **kwargs actuals are bound as far as possible without error."""
    pos = list(fn.posparams)
    if is_method and pos:
        pos = pos[1:]
    star = any(isinstance(a, ast.Starred) for a in call.args)
    dstar = any(kw.arg is None for kw in call.keywords)
    mapping = {}
    npos = 0
    for a in call.args:
        if isinstance(a, ast.Starred):
            break
        if npos < len(pos):
            mapping[pos[npos]] = a
        elif not fn.vararg:
            return mapping, 'too many positional arguments (%d given, %d accepted)' % (
                len([x for x in call.args if not isinstance(x, ast.Starred)]), len(pos))
        npos += 1
    for kw in call.keywords:
        if kw.arg is None:
            continue
        if kw.arg in pos or kw.arg in fn.kwonly:
            if kw.arg in mapping:
                return mapping, 'multiple values for argument `%s`' % kw.arg
            mapping[kw.arg] = kw.value
        elif not fn.kwarg:
            return mapping, 'unexpected keyword argument `%s`' % kw.arg
    if not star and not dstar:
        nreq = len(fn.posparams) - fn.ndefaults - (1 if is_method and fn.posparams else 0)
        for p in pos[:max(nreq, 0)]:
            if p not in mapping:
                return mapping, 'missing required argument `%s`' % p
        kwdefaults = fn.node.args.kw_defaults
        for p, dflt in zip(fn.kwonly, kwdefaults):
            if dflt is None and p not in mapping:
                return mapping, 'missing required keyword-only argument `%s`' % p
    return mapping, None


def check_calls(run, repo, f, rule='R1c'):
    """(c) calls of repo functions / classes bind."""
    exempt = in_raise(f.node)
    n_checked = 0
    for call, tgts, how in repo.callees(f):
        if id(call) in exempt:
            continue
        if how == 'cha':
            continue
        errs = []
        for t in tgts:
            if isinstance(t, Cls):
                ini = init_of(repo, t)
                if ini is None:
                    errs.append(None)
                    continue
                _, e = bind(ini, call, True)
            else:
                is_m = t.cls is not None and how in ('self', 'super') and 'staticmethod' not in t.decorators
                if t.is_property:
                    errs.append(None)
                    continue
                _, e = bind(t, call, is_m)
            errs.append(e)
        n_checked += 1
        if errs and all(e is not None for e in errs):
            run.violation(rule, f, call, 'call cannot bind to %s: %s -- TypeError whenever reached' % (
                ', '.join(sorted({(t.name if isinstance(t, Cls) else t.qual) for t in tgts})), errs[0]))
    return n_checked


def check_methods(run, repo, f, types, rule='R1d'):
    """(d) a method called on a receiver whose repo classes are inferred must exist in at least one of them."""
    from ..flow import walk
    exempt = in_raise(f.node)
    n = 0
    for st, ctx in walk(f.node):
        if isinstance(st, (ast.If, ast.For, ast.While)):
            nodes = [st.test] if isinstance(st, (ast.If, ast.While)) else [st.iter]
        elif isinstance(st, (ast.FunctionDef, ast.ClassDef)):
            continue
        else:
            nodes = [st]
        for root in nodes:
            for c in ast.walk(root):
                if isinstance(c, ast.Call) and isinstance(c.func, ast.Attribute) and id(c) not in exempt:
                    tg, how = types.method_targets(f, c, ctx.conds)
                    if how == 'typed':
                        n += 1
                    elif how == 'missing':
                        n += 1
                        run.violation(rule, f, c, 'method `%s` is not defined by %s, the only class(es) this receiver can be: '
                                      'AttributeError whenever reached' % (c.func.attr, '/'.join(sorted(k.name for k in tg))))
    return n


def check_cone(run, repo, entries, label=''):
    """Run R1 (a)-(d) over the cone of the given entry Funcs; returns the cone."""
    cone = repo.cone(entries)
    na = nb = nc = 0
    types = getattr(repo, '_types', None)
    if types is None:
        from ..types import Types
        types = repo._types = Types(repo)
    from . import libkind
    nk = 0
    for f in cone:
        na += check_names(run, f)
        nb += check_lib_attrs(run, f)
        nc += check_calls(run, repo, f)
        nc += check_methods(run, repo, f, types)
        nk += libkind.check_function(run, repo, f)       # R19: no numpy operation consumes a tensor, no tensor is used as qubit indices
    run.ok('R1', None, 'cone%s: %d functions, %d names, %d library attribute chains, %d repo calls resolved, %d numpy call / index / unpack sites kind-checked'
           % ((' ' + label) if label else '', len(cone), na, nb, nc, nk))
    run.cones[label or 'main'] = sorted('%s::%s' % (f.rel, f.qual) for f in cone)
    return cone
