"""R8 NF -- per-site normal forms of the arithmetic reduction kernels.

A reduction kernel is recognised in two shapes:
  scalar loop   acc = 0; for i in range(N): [locals]; acc += E; return acc % m        (numba, py)
  strided form  gx, gz = g[..., ::2], g[..., 1::2]; return torch.sum(E, dim=-1) % m    (torch)
                or (matmul(gz, gx.T) - matmul(gx, gz.T)) % m
Both yield (modulus, per-site expression over x1,z1,x2,z2).  The complete truth table of the per-site
expression is computed by the checker's own interpreter (exprnf.ev) and compared with the oracle
computed from the 2x2 Pauli matrices.  Because phases of tensor products add and the reduction shape is
checked, agreement on the 16 (or 4) inputs is a proof of the kernel for every N.
"""
import ast
import itertools

from .. import oracle
from ..exprnf import Undecidable, ev, affine_in
from ..flow import walk, defs_of, targets_of
from ..model import norm, walk_local

SHAPE_ONLY = {'repeat', 'view', 'unsqueeze', 'squeeze', 'to', 'float', 'long', 'int', 'reshape', 'flatten',
              'clone', 'contiguous', 'expand', 'type'}


class Form:
    def __init__(self, func, modulus, table, nops, shape, site_text, init_ok=True, bound_ok=True, notes=None):
        self.func = func
        self.modulus = modulus
        self.table = table        # dict bits -> int
        self.nops = nops
        self.shape = shape        # 'loop' | 'vector'
        self.site_text = site_text
        self.init_ok = init_ok
        self.bound_ok = bound_ok
        self.notes = notes or []


class Breach(Exception):
    """A definite structural breach found while extracting (reported as violation by the caller)."""
    def __init__(self, node, msg):
        Exception.__init__(self, msg)
        self.node = node
        self.msg = msg


def _slot(a_b):
    if a_b == (2, 0):
        return 'x'
    if a_b == (2, 1):
        return 'z'
    return None


# --------------------------------------------------------------------------- scalar loop shape
def _qubit_count_ok(fn, bound_node):
    """The loop bound is N where N = <last dim of a parameter's shape> // 2."""
    if not isinstance(bound_node, ast.Name):
        return False
    defs = defs_of(fn.node, bound_node.id)
    if len(defs) != 1 or not isinstance(defs[0][0], ast.Assign):
        return False
    v = defs[0][0].value
    if not (isinstance(v, ast.BinOp) and isinstance(v.op, ast.FloorDiv)
            and isinstance(v.right, ast.Constant) and v.right.value == 2):
        return False
    src = v.left
    if isinstance(src, ast.Name):
        d2 = defs_of(fn.node, src.id)
        if not d2:
            return False
        for st, _ in d2:
            if not isinstance(st, ast.Assign):
                return False
            tgt = st.targets[0]
            val = st.value
            if isinstance(tgt, (ast.Tuple, ast.List)):
                if not (isinstance(tgt.elts[-1], ast.Name) and tgt.elts[-1].id == src.id):
                    return False
                if not (isinstance(val, ast.Attribute) and val.attr == 'shape'):
                    return False
            else:
                t = norm(val)
                if not (t.endswith('.shape[-1]') or t.endswith('.shape[1]')):
                    return False
        return True
    t = norm(src)
    return t.endswith('.shape[-1]')


def scalar_loop_form(fn, operands=None):
    """Extract the per-site form of a numba-style scalar reduction.
    operands: list of parameter names in operand order, or None to derive from rows (acq_mat, ps0)."""
    augs = []
    for st, ctx in walk(fn.node):
        if isinstance(st, ast.AugAssign) and ctx.loops:
            augs.append((st, ctx))
    if len(augs) != 1:
        raise Undecidable('expected exactly one accumulation statement in a loop, found %d' % len(augs))
    aug, ctx = augs[0]
    if not isinstance(aug.op, ast.Add):
        raise Breach(aug, 'the reduction does not accumulate with += (found %s)' % type(aug.op).__name__)
    loop = ctx.loops[-1]
    if not (isinstance(loop, ast.For) and isinstance(loop.target, ast.Name) and isinstance(loop.iter, ast.Call)
            and norm(loop.iter.func) == 'range' and len(loop.iter.args) == 1):
        raise Undecidable('innermost loop is not `for i in range(N)`')
    ivar = loop.target.id
    bound_ok = _qubit_count_ok(fn, loop.iter.args[0])
    # accumulator and its initial value
    tgt = aug.target
    init_ok = False
    if isinstance(tgt, ast.Name):
        acc = tgt.id
        ds = [d for d in defs_of(fn.node, acc) if d[0] is not aug]
        init_ok = bool(ds) and all(isinstance(d[0], ast.Assign) and isinstance(d[0].value, ast.Constant)
                                   and d[0].value.value == 0 for d in ds
                                   if d[0].lineno < loop.lineno) and any(d[0].lineno < loop.lineno for d in ds)
        row_keys = None
    elif isinstance(tgt, ast.Subscript) and isinstance(tgt.value, ast.Name):
        acc = tgt.value.id
        ds = [d for d in defs_of(fn.node, acc) if d[0].lineno < loop.lineno]
        init_ok = bool(ds) and all(isinstance(d[0], ast.Assign) and isinstance(d[0].value, ast.Call)
                                   and norm(d[0].value.func).split('.')[-1] == 'zeros' for d in ds)
        idx = tgt.slice
        row_keys = [norm(e) for e in idx.elts] if isinstance(idx, ast.Tuple) else [norm(idx)]
    else:
        raise Undecidable('accumulator target %s' % norm(tgt))
    # statements of the loop body before the accumulation must be local definitions
    body_defs = []
    for st in loop.body:
        if st is aug:
            break
        if isinstance(st, ast.Assign) and len(st.targets) == 1 and isinstance(st.targets[0], ast.Name):
            body_defs.append(st)
        else:
            raise Undecidable('loop body statement %s' % norm(st)[:40])
    if loop.body[-1] is not aug and loop.body.index(aug) != len(loop.body) - 1:
        raise Undecidable('statements after the accumulation in the loop body')
    # operand discovery
    opkeys = []

    def opkey(node):
        """(array name, row text) of a subscript read, and the slot of site ivar."""
        if not isinstance(node.value, ast.Name):
            raise Undecidable('subscript base %s' % norm(node.value))
        arr = node.value.id
        idx = node.slice
        if isinstance(idx, ast.Tuple):
            row = ','.join(norm(e) for e in idx.elts[:-1])
            last = idx.elts[-1]
        else:
            row, last = None, idx
        ab = affine_in(last, ivar)
        if ab is None:
            raise Undecidable('index %s is not affine in %s' % (norm(last), ivar))
        s = _slot(ab)
        if s is None:
            raise Breach(node, 'index %s is neither the x slot 2*%s nor the z slot 2*%s+1 of site %s'
                         % (norm(last), ivar, ivar, ivar))
        return (arr, row), s

    for st in body_defs + [aug]:
        for n in ast.walk(st.value):
            if isinstance(n, ast.Subscript):
                k, _ = opkey(n)
                if k not in opkeys:
                    opkeys.append(k)
    if operands is not None:
        order = []
        for p in operands:
            ks = [k for k in opkeys if k[0] == p]
            if len(ks) > 1:
                raise Undecidable('several rows of operand %s are read' % p)
            order.append(ks[0] if ks else (p, None))
        extra = [k for k in opkeys if k not in order]
        if extra:
            raise Undecidable('reads of %s which is not an operand' % (extra,))
    else:
        order = list(opkeys)
        if row_keys is not None and len(order) == 2:
            # order operands by the row index used in the accumulator target (mat[j1, j2])
            def pos(k):
                return row_keys.index(k[1]) if k[1] in row_keys else 99
            order.sort(key=pos)
    nops = len(order)
    if nops not in (1, 2):
        raise Undecidable('%d operands' % nops)

    def table_fn(*bits):
        vals = {}
        for oi, k in enumerate(order):
            vals[(k, 'x')] = bits[2 * oi]
            vals[(k, 'z')] = bits[2 * oi + 1]
        env = {}

        def sub(n, _env, rec):
            k, s = opkey(n)
            return vals[(k, s)]
        for st in body_defs:
            env[st.targets[0].id] = ev(st.value, env, sub=sub)
        return ev(aug.value, env, sub=sub)

    table = {bits: table_fn(*bits) for bits in itertools.product((0, 1), repeat=2 * nops)}
    modulus = _result_modulus(fn, acc)
    return Form(fn, modulus, table, nops, 'loop', norm(aug.value), init_ok, bound_ok)


def _result_modulus(fn, acc):
    """Modulus applied to the accumulator between the loop and the return (None if never reduced)."""
    for n in walk_local(fn.node):
        if isinstance(n, ast.BinOp) and isinstance(n.op, ast.Mod) and isinstance(n.left, ast.Name) \
                and n.left.id == acc and isinstance(n.right, ast.Constant):
            return n.right.value
    return None


# --------------------------------------------------------------------------- strided vector shape
def _slice_slot(node):
    """x / z for g[..., ::2] / g[..., 1::2] (also plain g[::2])."""
    idx = node.slice
    last = idx.elts[-1] if isinstance(idx, ast.Tuple) else idx
    if not isinstance(last, ast.Slice):
        return None
    step = last.step.value if isinstance(last.step, ast.Constant) else None
    lower = 0 if last.lower is None else (last.lower.value if isinstance(last.lower, ast.Constant) else None)
    if last.upper is not None or step != 2:
        return None
    if lower == 0:
        return 'x'
    if lower == 1:
        return 'z'
    return None


def _is_sum_call(n):
    if not (isinstance(n, ast.Call) and norm(n.func) in ('torch.sum', 'numpy.sum', 'np.sum')):
        return False
    ax = None
    if len(n.args) >= 2:
        ax = n.args[1]
    for kw in n.keywords:
        if kw.arg in ('dim', 'axis'):
            ax = kw.value
    try:
        return ax is not None and ev(ax, {}) == -1
    except Undecidable:
        return False


def _is_matmul(n):
    return isinstance(n, ast.Call) and norm(n.func) in ('torch.matmul', 'numpy.matmul', 'np.matmul', 'torch.mm') \
        and len(n.args) == 2


def vector_form(fn, operands):
    """Extract the per-site form of a torch-style strided reduction.  operands: parameter names."""
    local_defs = {}
    ret = None
    for st, ctx in walk(fn.node):
        if isinstance(st, ast.Assign):
            from ..flow import assigned_pairs
            for t, v in assigned_pairs(st):
                if isinstance(t, ast.Name):
                    if isinstance(v, tuple):
                        raise Undecidable('tuple-unpacking of a call result')
                    local_defs.setdefault(t.id, []).append((v, ctx))
        elif isinstance(st, ast.Return):
            if ctx.conds or ctx.loops:
                raise Undecidable('conditional return')
            ret = st.value
    if ret is None:
        raise Undecidable('no return')
    # unconditional single definitions only (ipow_product's `if g1.dim() == 1` only defines L1, L2)
    modulus = None
    e = ret
    if isinstance(e, ast.BinOp) and isinstance(e.op, ast.Mod) and isinstance(e.right, ast.Constant):
        modulus = e.right.value
        e = e.left
    while isinstance(e, ast.Name) and e.id in local_defs and len(local_defs[e.id]) == 1:
        e = local_defs[e.id][0][0]
        if modulus is None and isinstance(e, ast.BinOp) and isinstance(e.op, ast.Mod) \
                and isinstance(e.right, ast.Constant):
            modulus = e.right.value
            e = e.left
    if _is_sum_call(e):
        site = e.args[0]
        mode = 'sum'
    else:
        leaves = []

        def additive(n):
            if isinstance(n, ast.BinOp) and isinstance(n.op, (ast.Add, ast.Sub)):
                additive(n.left)
                additive(n.right)
            else:
                leaves.append(n)
        additive(e)
        if not leaves or not all(_is_matmul(x) for x in leaves):
            raise Breach(ret, 'the result is not reduced over the qubits (no sum over the last axis and '
                              'not a sum of matmul terms)')
        site = e
        mode = 'matmul'
    nops = len(operands) if len(operands) > 1 else (2 if mode == 'matmul' else 1)

    def table_fn(*bits):
        vals = {}
        for oi in range(nops):
            vals[(oi, 'x')] = bits[2 * oi]
            vals[(oi, 'z')] = bits[2 * oi + 1]
        state = {'pos': None}

        def opindex(name):
            if len(operands) > 1:
                if name not in operands:
                    raise Undecidable('read of %s which is not an operand' % name)
                oi = operands.index(name)
                if state['pos'] is not None and state['pos'] != oi:
                    raise Undecidable('operand %s on the wrong side of a matmul' % name)
                return oi
            if name != operands[0]:
                raise Undecidable('read of %s which is not an operand' % name)
            return state['pos'] if state['pos'] is not None else 0

        class Lazy(dict):
            def __contains__(self, k):
                return k in local_defs

            def __getitem__(self, k):
                ds = local_defs[k]
                if len(ds) != 1:
                    raise Undecidable('%s has several definitions' % k)
                return ev(ds[0][0], self, sub=sub, call=call, attr=attr)

        env = Lazy()

        def sub(n, _env, rec):
            base = n.value
            # strip shape-only calls inside (g1[...,::2] itself is the leaf)
            if isinstance(base, ast.Name):
                s = _slice_slot(n)
                if s is None:
                    raise Undecidable('subscript %s is not the x (::2) or z (1::2) half' % norm(n))
                return vals[(opindex(base.id), s)]
            raise Undecidable('subscript %s' % norm(n))

        def call(n, _env, rec):
            fname = norm(n.func)
            if isinstance(n.func, ast.Attribute) and n.func.attr in SHAPE_ONLY and fname.split('.')[0] not in ('torch', 'numpy', 'np'):
                return rec(n.func.value)
            if fname == 'torch.div':
                mode_kw = [kw for kw in n.keywords if kw.arg == 'rounding_mode']
                if len(n.args) == 2 and mode_kw and isinstance(mode_kw[0].value, ast.Constant) \
                        and mode_kw[0].value.value == 'floor':
                    return rec(n.args[0]) // rec(n.args[1])
                raise Undecidable('torch.div without floor rounding')
            if _is_matmul(n):
                a, b = n.args
                if not (isinstance(b, ast.Attribute) and b.attr == 'T'):
                    raise Undecidable('matmul second argument is not transposed')
                old = state['pos']
                state['pos'] = 0
                va = rec(a)
                state['pos'] = 1
                vb = rec(b.value)
                state['pos'] = old
                return va * vb
            raise Undecidable('call %s' % fname)

        def attr(n, _env, rec):
            raise Undecidable('attribute %s' % norm(n))

        return ev(site, env, sub=sub, call=call, attr=attr)

    table = {bits: table_fn(*bits) for bits in itertools.product((0, 1), repeat=2 * nops)}
    return Form(fn, modulus, table, nops, 'vector', norm(site))


# --------------------------------------------------------------------------- oracles
def oracle_table(kind, nops):
    if kind == 'acq':
        return {b: oracle.site_acq(*b) for b in itertools.product((0, 1), repeat=4)}, 2
    if kind == 'ipow':
        return {b: oracle.site_ipow(*b) for b in itertools.product((0, 1), repeat=4)}, 4
    if kind == 'p0':
        return {b: oracle.site_p0(*b) for b in itertools.product((0, 1), repeat=2)}, 4
    raise KeyError(kind)


def compare(form, kind):
    """Return list of (bits, got, want) mismatches modulo the oracle's modulus."""
    want, m = oracle_table(kind, form.nops)
    bad = []
    for b, w in want.items():
        g = form.table[b]
        if isinstance(g, bool):
            g = int(g)
        if not isinstance(g, int) or (g - w) % m != 0:
            bad.append((b, g, w))
    return bad, m


# --------------------------------------------------------------------------- read coverage (abstract execution)
class _Unk:
    """A value the abstract execution knows nothing about: arithmetic gives another unknown, a truth test is undecidable (the
    interpreter then follows both outcomes)."""
    def _u(self, *a):
        return _Unk()
    __add__ = __radd__ = __sub__ = __rsub__ = __mul__ = __rmul__ = __floordiv__ = __rfloordiv__ = __mod__ = __rmod__ = _u
    __and__ = __rand__ = __or__ = __ror__ = __xor__ = __rxor__ = __neg__ = __pos__ = __invert__ = __truediv__ = __rtruediv__ = _u
    __pow__ = __rpow__ = __lshift__ = __rshift__ = _u
    __lt__ = __le__ = __gt__ = __ge__ = _u

    def __eq__(self, o):
        return _Unk()

    def __ne__(self, o):
        return _Unk()
    __hash__ = None

    def __bool__(self):
        raise Undecidable('truth value of an array element')


class _AArr:
    """A one-dimensional operand (or a view of it): the absolute indices it stands for; element reads are recorded."""
    def __init__(self, base, idxs, reads):
        self.base, self.idxs, self.reads = base, idxs, reads

    def __len__(self):
        return len(self.idxs)

    def get(self, k):
        if isinstance(k, slice):
            return _AArr(self.base, self.idxs[k], self.reads)
        if isinstance(k, int) and not isinstance(k, bool):
            try:
                self.reads.add((self.base, self.idxs[k]))
            except IndexError:
                raise Undecidable('index %d outside a view of %d entries' % (k, len(self.idxs)))
            return _Unk()
        raise Undecidable('index kind')

    def all_read(self):
        for i in self.idxs:
            self.reads.add((self.base, i))
        return _Unk()


def read_coverage(fn, operands, sizes=range(1, 13)):
    """Abstract execution of a reduction kernel over strings of N = 1..12 qubits: the entries are unknown, every outcome of a
    test on them is followed, and the entries read on any path are collected.  A kernel whose result depends on every entry of
    its operands must read every entry on some path: returns None if so, else (N, operand, unread entries)."""
    from .. import mini
    for N in sizes:
        reads = set()

        def sub(n, env, rec):
            b = rec(n.value)
            if isinstance(b, _AArr):
                return b.get(rec(n.slice))
            if isinstance(b, tuple):
                return b[rec(n.slice)]
            raise Undecidable('subscript ' + norm(n))

        def attr(n, env, rec):
            if n.attr == 'shape':
                b = rec(n.value)
                if isinstance(b, _AArr):
                    return (len(b),)
            if n.attr == 'size':
                b = rec(n.value)
                if isinstance(b, _AArr):
                    return len(b)
            raise Undecidable('attribute ' + norm(n))

        def call(n, env, rec):
            f_ = n.func
            if isinstance(f_, ast.Attribute) and f_.attr in ('any', 'all', 'sum', 'max', 'min') and not n.args:
                b = rec(f_.value)
                if isinstance(b, _AArr):
                    return b.all_read()
                if isinstance(b, _Unk):
                    return _Unk()
            if isinstance(f_, ast.Attribute) and isinstance(f_.value, ast.Name) and f_.value.id in ('numpy', 'np') and f_.attr in ('any', 'all', 'sum', 'count_nonzero') \
                    and len(n.args) == 1:
                b = rec(n.args[0])
                if isinstance(b, _AArr):
                    return b.all_read()
            if isinstance(f_, ast.Name) and f_.id == 'len' and len(n.args) == 1:
                return len(rec(n.args[0]))
            raise Undecidable('call ' + norm(n.func))

        def once(choices):
            env = {p: _AArr(p, list(range(2 * N)), reads) for p in operands}
            mini.execute(fn.node, env, sub=sub, call=call, attr=attr, choices=choices, result=[])
            return True
        for _ in mini.all_paths(once, limit=128):
            pass
        for p in operands:
            missing = sorted(i for i in range(2 * N) if (p, i) not in reads)
            if missing:
                return (N, p, missing)
    return None
