"""R16 LIVE -- no discarded pure result: the value returned by a repo function that has no side effect on its
arguments is used (not an expression statement, not bound only to names that are never read)."""
import ast

from .. import effects as E
from ..flow import walk
from ..model import Func, norm, walk_local


def _loads(f, name, exclude):
    n = 0
    ex = {id(x) for x in ast.walk(exclude)}
    for x in walk_local(f.node):
        if isinstance(x, ast.Name) and x.id == name and isinstance(x.ctx, ast.Load) and id(x) not in ex:
            n += 1
    return n


def returns_value(fn):
    return any(isinstance(st, ast.Return) and st.value is not None and not (isinstance(st.value, ast.Constant) and st.value.value is None)
               for st, _ in walk(fn.node))


def check_function(run, repo, eff, f, rule='R16'):
    n = 0
    for st, ctx in walk(f.node):
        call = None
        targets = None
        if isinstance(st, ast.Expr) and isinstance(st.value, ast.Call):
            call, targets = st.value, []
        elif isinstance(st, ast.Assign) and isinstance(st.value, ast.Call) and len(st.targets) == 1:
            call = st.value
            t = st.targets[0]
            targets = list(t.elts) if isinstance(t, (ast.Tuple, ast.List)) else [t]
        if call is None or not isinstance(call.func, ast.Name):
            continue
        callee = repo.resolve_local(f, call.func.id)
        if not isinstance(callee, Func) or not returns_value(callee):
            continue
        mods = [m for m in eff.summary(callee).mod if not m[2]]
        if mods:
            continue        # works in place on something: the call has an effect of its own
        n += 1
        if not targets:
            run.violation(rule, f, st, 'the result of %s is discarded, and the function has no effect on its arguments: the call does nothing' % callee.name)
            continue
        dead = []
        for t in targets:
            if isinstance(t, ast.Name):
                if t.id == '_' or _loads(f, t.id, st) == 0:
                    dead.append(t.id)
            # attribute / subscript targets store somewhere: live
        if len(dead) == len(targets):
            run.violation(rule, f, st, 'the result of %s is bound to %s, which is never read afterwards, and the function has no effect '
                          'on its arguments: the computation is lost' % (callee.name, ', '.join(dead)))
        else:
            run.ok(rule, f, st, 'result used')
    return n
