"""R14 DISPATCH -- no shadowed isinstance branch: in an if/elif chain of isinstance tests on one variable, a class
tested later must not be a (repo-hierarchy) subclass of a class tested earlier."""
import ast

from ..flow import walk
from ..model import Cls, norm


def _isinstance_test(test):
    """(variable name, class expr) for `isinstance(v, K)` possibly negated -> (name, node, negated)."""
    neg = False
    t = test
    if isinstance(t, ast.UnaryOp) and isinstance(t.op, ast.Not):
        neg = True
        t = t.operand
    if isinstance(t, ast.Call) and isinstance(t.func, ast.Name) and t.func.id == 'isinstance' and len(t.args) == 2 \
            and isinstance(t.args[0], ast.Name):
        return t.args[0].id, t.args[1], neg
    return None


def chains(f):
    """Lists of (If node, var, class node) for each if/elif chain of positive isinstance tests."""
    out = []
    seen = set()
    for st, ctx in walk(f.node):
        if isinstance(st, ast.If) and id(st) not in seen:
            chain = []
            cur = st
            while isinstance(cur, ast.If):
                seen.add(id(cur))
                it = _isinstance_test(cur.test)
                if it is not None and not it[2]:
                    chain.append((cur, it[0], it[1]))
                else:
                    chain.append((cur, None, None))
                if len(cur.orelse) == 1 and isinstance(cur.orelse[0], ast.If):
                    cur = cur.orelse[0]
                else:
                    break
            if sum(1 for c in chain if c[1]) >= 2:
                out.append(chain)
    return out


def classes_of(repo, f, node):
    elts = node.elts if isinstance(node, ast.Tuple) else [node]
    res = []
    for e in elts:
        if isinstance(e, ast.Name):
            r = repo.resolve_local(f, e.id)
            if isinstance(r, Cls):
                res.append(r)
    return res


def check_function(run, repo, f, rule='R14'):
    n = 0
    for chain in chains(f):
        earlier = []   # (var, [Cls])
        for node, var, cnode in chain:
            if var is None:
                continue
            cs = classes_of(repo, f, cnode)
            for c in cs:
                hit = None
                for v2, cs2, node2 in earlier:
                    if v2 != var:
                        continue
                    for c2 in cs2:
                        if c is not c2 and repo.is_subclass(c, c2):
                            hit = (c2, node2)
                n += 1
                if hit is not None:
                    run.violation(rule, f, node.test, 'branch `%s` can never be taken for a %s: %s is a subclass of %s, '
                                  'which is tested earlier in the same chain (line %d)'
                                  % (norm(node.test), c.name, c.name, hit[0].name, hit[1].lineno))
                else:
                    run.ok(rule, f, node.test, '%s not shadowed' % c.name)
            earlier.append((var, cs, node))
    return n
