import argparse
import importlib
import json
import os
import sys
import traceback

from .model import Repo, AnalysisError
from .report import Run


def run_property(prop, tier, root, quiet=False):
    """Returns (exit code, Run)."""
    repo = Repo(root)
    mod = importlib.import_module('pcverif.props.%s' % prop)
    run = Run(prop, tier, repo, seed=int(os.environ.get('VERIF_SEED', '0') or 0))
    run.quiet = quiet
    mod.check(run)
    # the behaviour behind a property also rests on the mechanisms of the properties it builds on: their structural
    # conditions are necessary conditions here too, so their rule instances are evaluated under this property as well
    from .registry import DEPENDS
    done = {prop}
    todo = list(DEPENDS.get(prop, []))
    while todo:
        d = todo.pop(0)
        if d in done:
            continue
        done.add(d)
        run.notes.append('includes the rule instances of %s (a mechanism this property rests on)' % d)
        importlib.import_module('pcverif.props.%s' % d).check(run)
        todo.extend(DEPENDS.get(d, []))
    if prop == 'C13':
        sibling_cross_check(run, repo, tier)
    code = run.finish(level='other', explanation=getattr(mod, 'EXPLANATION', ''),
                      trusted=getattr(mod, 'TRUSTED', None))
    return code, run


def sibling_cross_check(run, repo, tier):
    """R13.sibling: the rules of the deterministic properties are evaluated on both packages; a rule that is violated in a
    function of one package and holds in the function of the same qualified name of the other package is a disagreement
    between the two implementations of one interface."""
    from .registry import SIBLING_SOURCES
    other = {'pyclifford': 'torchclifford', 'torchclifford': 'pyclifford'}
    seen, inst = {}, {}
    for d in SIBLING_SOURCES:
        sub = Run(d, tier, repo)
        sub.quiet = True
        try:
            importlib.import_module('pcverif.props.%s' % d).check(sub)
        except AnalysisError:
            pass          # instance floors of that property are decided by its own check
        for fd in sub.findings:
            pkg = fd.rel.split('/')[0]
            seen.setdefault((fd.rule, fd.func), {}).setdefault(pkg, fd)
        for i in sub.instances:
            inst.setdefault((i['rule'], i['function']), set()).add(i['file'].split('/')[0])
    compared = 0
    for (rule, func), pk in sorted(inst.items()):
        if len(pk) == 2:
            compared += 1
    for (rule, func), by_pkg in sorted(seen.items()):
        if len(by_pkg) == 2:
            continue      # both siblings break the rule: not a disagreement
        pkg, fd = next(iter(by_pkg.items()))
        sib_rel = fd.rel.replace(pkg, other[pkg], 1)
        sib = repo.modules.get(sib_rel)
        if sib is None or func not in sib.funcs:
            if pkg == 'pyclifford':
                continue  # operation not shared by the port
        run.violation('R13.sibling', (fd.rel, fd.func), fd.construct,
                      'rule %s is violated here and not in %s::%s: the two packages disagree on this operation (%s)'
                      % (rule, sib_rel, func, fd.msg), line=fd.line)
    for k in range(compared):
        pass
    run.instances.append({'rule': 'R13.sibling', 'file': '', 'function': '', 'construct': '%d rule instances present in both packages' % compared,
                          'verdict': 'discharged', 'detail': 'verdicts compared pairwise'})
    run.notes.append('R13.sibling compared %d (rule, function) instances present in both packages, from the rules of %s'
                     % (compared, ', '.join(SIBLING_SOURCES)))
    if compared < 150:
        raise AnalysisError('R13.sibling compared only %d rule instances present in both packages (floor 150)' % compared)


def main(argv):
    ap = argparse.ArgumentParser()
    ap.add_argument('prop')
    ap.add_argument('--tier', default=os.environ.get('VERIF_TIER') or 'quick', choices=['quick', 'thorough'])
    ap.add_argument('--root', default='/repo')
    ap.add_argument('--replay')
    a = ap.parse_args(argv)
    try:
        if a.replay:
            return replay(a)
        code, run = run_property(a.prop, a.tier, a.root)
        if code == 0 and a.tier == 'thorough':
            from . import selfval
            code, summary = selfval.validate(a.prop, a.root)
            evp = os.path.join(os.path.dirname(os.path.dirname(os.path.abspath(__file__))), 'evidence', '%s.json' % a.prop)
            if os.path.realpath(a.root) == '/repo' and os.path.exists(evp):
                with open(evp) as fh:
                    ev = json.load(fh)
                ev['coverage']['self_validation'] = summary
                ev['wall_s'] = round(ev.get('wall_s', 0) + summary.get('wall_s', 0), 3)
                with open(evp, 'w') as fh:
                    json.dump(ev, fh, indent=1, default=str)
        return code
    except AnalysisError as e:
        print('ANALYSIS-ERROR property=%s %s' % (a.prop, e))
        return 2
    except Exception:
        traceback.print_exc()
        print('ANALYSIS-ERROR property=%s internal error (see traceback)' % a.prop)
        return 2


def replay(a):
    with open(a.replay) as fh:
        rec = json.load(fh)
    code, run = run_property(rec['property'], rec.get('tier', 'quick'), a.root, quiet=True)
    want = {(f['rule'], f['file'], f['function'], f['construct']) for f in rec['findings']}
    still = [fd for fd in run.findings if (fd.rule, fd.rel, fd.func, fd.construct) in want]
    for fd in still:
        print('REPRODUCED ' + fd.text())
    if still:
        print('VIOLATION property=%s replay=%s' % (rec['property'], a.replay))
        return 1
    print('not reproduced on the current tree: %d recorded finding(s) are gone' % len(want))
    return 0
