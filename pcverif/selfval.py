"""Thorough tier: self-validation of the checker for one property: its mutants of the current sources must be
reported, its benign twins must stay silent (selftest/corpus.py, selftest/runner.py)."""
import os
import sys
import time


def validate(prop, root):
    sys.path.insert(0, os.path.dirname(os.path.dirname(os.path.abspath(__file__))))
    t0 = time.time()
    try:
        from selftest import runner
    except Exception as e:
        print('[%s] self-validation corpus not available: %s' % (prop, e))
        return 0, {'available': False}
    code, summary = runner.validate(prop, root)
    summary['wall_s'] = round(time.time() - t0, 3)
    return code, summary
