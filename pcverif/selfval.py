"""Thorough tier: self-validation of the checker for one property (mutants must be killed, benign
twins must stay silent).  Filled in by selftest/corpus.py."""
def validate(prop, root):
    try:
        from selftest import runner
    except Exception:
        import sys, os
        sys.path.insert(0, os.path.dirname(os.path.dirname(os.path.abspath(__file__))))
        try:
            from selftest import runner
        except Exception:
            print('[%s] self-validation corpus not available' % prop)
            return 0
    return runner.validate(prop, root)
