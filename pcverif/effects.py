"""R4 EFFECT -- interprocedural mutation / alias / copy summaries (field-sensitive, flow-insensitive).

Abstract value (AV) = frozenset of atoms:
  ('loc', path)      may share storage with what is reachable at `path` rooted at a parameter ('self.gs')
  ('copyof', path)   fresh storage whose *content* was copied from path  (x.copy(), numpy.array(x), x.clone())
  ('obj', site)      fresh repo-class instance allocated at `site`; its fields live in the heap
  ('fresh', site)    fresh array / container storage
Summary of a function: mod (paths written in place or attribute-stored), ret (AV or tuple of AVs), heap of
the fresh objects it returns, attribute stores into parameters' objects.
Views (basic slices, expand_dims, flipud, reshape, .T, unsqueeze, view, detach ...) alias their base;
boolean / index-array subscripts, arithmetic, .copy()/.clone()/numpy.array()/torch.tensor() are fresh.
"""
import ast

from .flow import walk, assigned_pairs, defs_of
from .model import Func, Cls, norm, AnalysisError
from .rules.resolve import bind, init_of

COPY_METHODS = {'copy', 'clone', 'astype', 'tolist', 'item', 'sum', 'dot', 'nonzero', 'ge', 'all', 'any', 'long',
                'float', 'int', 'bool', 'scatter', 'index_add', 'repeat', 'repeat_interleave', 'roll', 'masked_select',
                'format', 'join', 'replace', 'items', 'keys', 'values', 'real', 'imag', 'is_integer', 'dim'}
VIEW_METHODS = {'view', 'unsqueeze', 'squeeze', 'reshape', 'detach', 'to', 'cpu', 'numpy', 'flatten', 'transpose',
                'expand', 'ravel', 'contiguous', 't', 'permute', 'type'}
VIEW_FUNCS = {'expand_dims', 'flipud', 'fliplr', 'flip', 'reshape', 'asarray', 'squeeze', 'ravel', 'transpose',
              'from_numpy', 'as_tensor', 'atleast_1d', 'atleast_2d', 'ascontiguousarray', 't'}
COPY_FUNCS = {'array', 'tensor', 'copy', 'stack', 'concatenate', 'cat', 'concat', 'zeros', 'ones', 'empty', 'eye',
              'zeros_like', 'empty_like', 'ones_like', 'arange', 'repeat', 'repeat_interleave', 'where', 'sum',
              'unique', 'abs', 'logical_and', 'logical_not', 'logical_or', 'full', 'randint', 'choice', 'matmul',
              'cumsum', 'roll', 'gather', 'div', 'prod', 'count_nonzero', 'argmax', 'masked_select', 'stack',
              'ceil', 'log2', 'log10', 'max', 'min', 'unpackbits', 'dtype', 'all', 'any', 'allclose', 'is_tensor',
              'equal', 'ix_', 'round', 'tile', 'isclose', 'argmin', 'sqrt'}
MUTATING_METHODS = {'append', 'extend', 'insert', 'pop', 'remove', 'sort', 'fill', 'fill_', 'clear', 'update',
                    'setdefault', 'resize', 'put', 'itemset', 'partition', 'reverse'}
BUILTIN_PURE = {'len', 'range', 'int', 'float', 'str', 'abs', 'max', 'min', 'sum', 'round', 'isinstance', 'type',
                'enumerate', 'zip', 'reversed', 'list', 'tuple', 'set', 'dict', 'repr', 'print', 'all', 'any',
                'super', 'bool', 'complex', 'sorted', 'map', 'filter', 'iter', 'next', 'hasattr', 'getattr'}
CONTAINER_BUILTINS = {'list', 'tuple', 'reversed', 'enumerate', 'zip', 'set', 'sorted', 'iter'}
FANCY_DEF_FUNCS = {'repeat', 'repeat_interleave', 'logical_and', 'logical_or', 'logical_not', 'nonzero', 'array',
                   'tensor', 'arange', 'ge', 'flatten', 'tile', 'where', 'abs', 'empty', 'zeros', 'ones', 'full', 'flatnonzero',
                   'argsort', 'argwhere', 'cumsum', 'empty_like', 'zeros_like', 'asarray', 'concatenate', 'cat', 'stack'}

EMPTY = frozenset()


def _library_method_names():
    names = set(dir(list)) | set(dir(dict)) | set(dir(str)) | set(dir(tuple)) | set(dir(set))
    try:
        import numpy
        names |= set(dir(numpy.ndarray))
    except Exception:
        pass
    # torch.Tensor methods that also name repo methods (torch is not imported for this)
    names |= {'inverse', 'trace', 'copy', 'clone', 'sum', 'dot', 'view', 'reshape', 'repeat', 'take', 'to', 'cpu',
              'item', 'dim', 'size', 'type', 'float', 'long', 'backward', 'expand', 'scatter', 'gather', 'unsqueeze'}
    return names


LIBRARY_METHOD_NAMES = _library_method_names()


def loc(path):
    return frozenset([('loc', path)])


def extend_path(path, attr, limit=4):
    """k-limited access path: a.next_layer.next_layer collapses, depth is capped."""
    parts = path.split('.')
    if attr in parts[1:]:
        # recursive structure (linked layers): collapse to the first occurrence
        i = parts.index(attr, 1)
        return '.'.join(parts[:i + 1])
    if len(parts) >= limit:
        return path
    return path + '.' + attr


class Summary:
    def __init__(self):
        self.mod = set()          # (path, kind, via_cha)   kind = 'store' | 'attr:<name>'
        self.ret = EMPTY          # AV, or ('tuple', [AV, ...])
        self.heap = {}            # obj site -> {field: AV}
        self.attr_stores = set()  # (target path, field, AV)   stores into parameter-rooted objects

    def snapshot(self):
        r = self.ret if not isinstance(self.ret, tuple) else ('tuple', tuple(self.ret[1]))
        return (frozenset(self.mod), r, frozenset((k, frozenset(v.items())) for k, v in self.heap.items()),
                frozenset(self.attr_stores))


class Effects:
    def __init__(self, repo, types=None):
        self.repo = repo
        if types is None:
            from .types import Types
            types = Types(repo)
        self.types = types
        self._walks = {}
        self.summaries = {}
        self.in_progress = set()
        self.changed = False
        self.props = {}
        for pkg in ('pyclifford', 'torchclifford'):
            self.props[pkg] = {}
            for c in repo.all_classes(pkg):
                for name, m in c.methods.items():
                    if m.is_property:
                        self.props[pkg].setdefault(name, []).append(m)
        self._solve()

    # ------------------------------------------------------------------ fixpoint
    def _solve(self):
        funcs = list(self.repo.all_funcs())
        for f in funcs:
            self.summaries[f.key()] = Summary()
        for it in range(12):
            before = {k: s.snapshot() for k, s in self.summaries.items()}
            for f in funcs:
                self._analyze(f)
            after = {k: s.snapshot() for k, s in self.summaries.items()}
            if before == after:
                self.iterations = it + 1
                return
        self.iterations = 12

    def summary(self, f):
        return self.summaries[f.key()]

    # ------------------------------------------------------------------ one function
    def _analyze(self, f):
        FA(self, f).run()


def _is_basic_index(fa, idx):
    """True if indexing with idx returns a view (ints, slices, ellipsis, None, integer arithmetic)."""
    elts = idx.elts if isinstance(idx, ast.Tuple) else [idx]
    for e in elts:
        if isinstance(e, ast.Slice):
            continue
        if isinstance(e, ast.Constant):
            continue
        if isinstance(e, ast.UnaryOp) and isinstance(e.op, ast.USub):
            continue
        if isinstance(e, ast.UnaryOp) and isinstance(e.op, ast.Invert):
            return False
        if isinstance(e, ast.BinOp):
            continue      # integer arithmetic such as j-N, 2*i, k+1
        if isinstance(e, ast.Name):
            if fa.is_fancy_name(e.id):
                return False
            continue
        if isinstance(e, ast.Subscript) or isinstance(e, ast.Attribute):
            continue      # self.qubits[i], obs.r : integers
        return False      # calls, lists, comparisons: index arrays / masks
    return True


class FA:
    """Flow-insensitive abstract interpretation of one function body."""

    def __init__(self, eff, f):
        self.eff, self.f, self.repo = eff, f, eff.repo
        self.s = eff.summary(f)
        self.env = {}
        self.heap = {}
        self._fancy = {}
        self.sink = None
        self.cur_conds = ()
        for p in f.params:
            self.env[p] = loc(p)

    # ---- helpers
    def site(self, node):
        return '%s:%s:%d:%d' % (self.f.rel, self.f.qual, node.lineno, node.col_offset)

    def is_fancy_name(self, name):
        c = self._fancy.get(name)
        if c is None:
            c = self._fancy[name] = self._is_fancy_name(name)
        return c

    def _is_fancy_name(self, name):
        if 'mask' in name or name in ('across', 'inside', 'outside', 'acqs', 'p1', 'p2', 'update', 'inds',
                                       'C_rows', 'C_columns', 'temp_acqs'):
            return True
        ds = defs_of(self.f.node, name)
        for st, _ in ds:
            if isinstance(st, ast.Assign):
                v = st.value
                if isinstance(v, ast.Compare):
                    return True
                if isinstance(v, ast.Call) and norm(v.func).split('.')[-1] in FANCY_DEF_FUNCS:
                    return True
        return False

    def field(self, av, attr):
        out = set()
        for a in av:
            if a[0] == 'loc':
                out.add(('loc', extend_path(a[1], attr)))
            elif a[0] == 'copyof':
                out.add(('copyof', extend_path(a[1], attr)))
            elif a[0] == 'obj':
                out |= self.heap.get(a[1], {}).get(attr, EMPTY)
            else:
                out.add(a)
        return frozenset(out)

    def copy_of(self, av, seen=None):
        out = set()
        seen = set() if seen is None else seen
        for a in av:
            if a[0] in ('loc', 'copyof'):
                out.add(('copyof', a[1]))
            elif a[0] == 'obj':
                # copying an object value-wise: its array fields
                if a[1] in seen:
                    continue
                seen.add(a[1])
                for fld, v in self.heap.get(a[1], {}).items():
                    out |= self.copy_of(v, seen)
        return frozenset(out)

    def store(self, av, kind, via=False):
        """Record an in-place write / attribute store through the storage denoted by av."""
        for a in av:
            if a[0] == 'loc':
                self.record((a[1], kind, via))

    def record(self, m):
        if self.sink is not None:
            self.sink.add(m)
        else:
            self.s.mod.add(m)

    def attr_store(self, target_av, attr, val_av):
        for a in target_av:
            if a[0] == 'loc':
                self.record((a[1], 'attr:' + attr, False))
                self.s.attr_stores.add((a[1], attr, val_av))
            elif a[0] == 'obj':
                h = self.heap.setdefault(a[1], {})
                h[attr] = h.get(attr, EMPTY) | val_av

    # ---- expressions
    def av(self, n):
        if n is None:
            return EMPTY
        if isinstance(n, ast.Name):
            if n.id not in self.env and n.id in self.f.module.globals_assigned and n.id not in self.f.module.defs:
                return loc('@' + n.id)        # module-level variable: storage shared by all calls
            return self.env.get(n.id, EMPTY)
        if isinstance(n, ast.Constant):
            return EMPTY
        if isinstance(n, ast.Attribute):
            if n.attr in ('shape', 'dtype', 'device', 'size', 'ndim', 'itemsize'):
                return EMPTY
            if n.attr in ('T', 'real', 'imag'):
                return self.av(n.value)
            base = self.av(n.value)
            props = self.eff.props.get(self.f.pkg, {}).get(n.attr)
            if props and base:
                out = EMPTY
                for pm in props:
                    r = self.instantiate_call(pm, {pm.posparams[0]: base}, n)
                    out |= r if not isinstance(r, tuple) else frozenset().union(*r[1])
                return out
            return self.field(base, n.attr)
        if isinstance(n, ast.Subscript):
            base = self.av(n.value)
            self.av(n.slice) if not isinstance(n.slice, (ast.Slice, ast.Tuple)) else None
            if _is_basic_index(self, n.slice):
                return base
            return self.copy_of(base)
        if isinstance(n, ast.Call):
            r = self.call(n)
            if isinstance(r, tuple):
                return frozenset().union(*r[1]) if r[1] else EMPTY
            return r
        if isinstance(n, (ast.Tuple, ast.List, ast.Set)):
            out = EMPTY
            for e in n.elts:
                out |= self.av(e)
            return out
        if isinstance(n, ast.Starred):
            return self.av(n.value)
        if isinstance(n, ast.IfExp):
            return self.av(n.body) | self.av(n.orelse)
        if isinstance(n, (ast.ListComp, ast.GeneratorExp, ast.SetComp)):
            for g in n.generators:
                it = self.av(g.iter)
                for t in ast.walk(g.target):
                    if isinstance(t, ast.Name):
                        self.env[t.id] = self.env.get(t.id, EMPTY) | it
            return self.av(n.elt)
        if isinstance(n, ast.BinOp):
            self.av(n.left); self.av(n.right)
            return self.copy_of(self.av(n.left)) | self.copy_of(self.av(n.right))
        if isinstance(n, ast.UnaryOp):
            return self.copy_of(self.av(n.operand))
        if isinstance(n, (ast.Compare, ast.BoolOp)):
            for c in ast.iter_child_nodes(n):
                if isinstance(c, ast.expr):
                    self.av(c)
            return EMPTY
        if isinstance(n, ast.Dict):
            out = EMPTY
            for v in n.values:
                out |= self.av(v)
            return out
        if isinstance(n, (ast.JoinedStr, ast.FormattedValue, ast.Lambda, ast.Slice)):
            return EMPTY
        if isinstance(n, (ast.Yield, ast.YieldFrom)):
            v = self.av(n.value)
            self.add_ret(v)
            return EMPTY
        return EMPTY

    def add_ret(self, v):
        if isinstance(v, tuple):
            if isinstance(self.s.ret, tuple) and len(self.s.ret[1]) == len(v[1]):
                self.s.ret = ('tuple', [a | b for a, b in zip(self.s.ret[1], v[1])])
            elif self.s.ret == EMPTY or self.s.ret is EMPTY:
                self.s.ret = ('tuple', list(v[1]))
            else:
                flat = frozenset().union(*v[1]) if v[1] else EMPTY
                cur = self.s.ret if not isinstance(self.s.ret, tuple) else frozenset().union(*self.s.ret[1])
                self.s.ret = cur | flat
        else:
            if isinstance(self.s.ret, tuple):
                self.s.ret = frozenset().union(*self.s.ret[1]) | v
            else:
                self.s.ret = self.s.ret | v

    # ---- calls
    def call(self, n):
        fn = n.func
        # evaluate arguments for their own effects
        arg_avs = [self.av(a) for a in n.args]
        kw_avs = {k.arg: self.av(k.value) for k in n.keywords}
        if isinstance(fn, ast.Name):
            tgt = self.repo.resolve_local(self.f, fn.id)
            if isinstance(tgt, Func):
                return self.call_func(tgt, n, None)
            if isinstance(tgt, Cls):
                return self.construct(tgt, n)
            if fn.id in CONTAINER_BUILTINS:
                out = EMPTY
                for a in arg_avs:
                    out |= a
                return out
            return EMPTY
        if isinstance(fn, ast.Call) and isinstance(fn.func, ast.Name) and fn.func.id == 'type' and self.f.cls is not None:
            return self.construct(self.f.cls, n)
        if isinstance(fn, ast.Attribute):
            recv = fn.value
            # library function numpy.xxx / torch.xxx
            root = recv
            while isinstance(root, ast.Attribute):
                root = root.value
            if isinstance(root, ast.Name) and root.id not in self.env:
                r = self.repo.resolve_local(self.f, root.id)
                if isinstance(r, tuple) and r[0] == 'ext':
                    return self.lib_func(fn.attr, n, arg_avs)
            # super().method(...)
            if isinstance(recv, ast.Call) and isinstance(recv.func, ast.Name) and recv.func.id == 'super' \
                    and self.f.cls is not None:
                for b in self.repo.mro(self.f.cls)[1:]:
                    if fn.attr in b.methods:
                        return self.call_func(b.methods[fn.attr], n, self.env.get('self', EMPTY))
                return EMPTY
            rav = self.av(recv)
            self.cur_call = n
            cands, how = self.method_candidates(recv, rav, fn.attr)
            if cands:
                out = None
                if how == 'cha' and self.sink is None:
                    # an effect common to every candidate of a repo-only method name is definite
                    sinks = []
                    for m in cands:
                        self.sink = set()
                        r = self.call_func(m, n, rav, via=True)
                        sinks.append(self.sink)
                        self.sink = None
                        out = r if out is None else self.join(out, r)
                    common = set.intersection(*[{(p, k) for p, k, v in sk} for sk in sinks]) if sinks else set()
                    definite = fn.attr not in LIBRARY_METHOD_NAMES
                    for sk in sinks:
                        for p, k, v in sk:
                            self.s.mod.add((p, k, not (definite and (p, k) in common)))
                    if definite:
                        # every candidate writes *something* under the receiver: the receiver is written
                        for a in rav:
                            if a[0] == 'loc' and all(any((p == a[1] or p.startswith(a[1] + '.')) and k in DATA_KINDS
                                                         for p, k, v in sk) for sk in sinks):
                                self.s.mod.add((a[1], 'some', False))
                    return out
                for m in cands:
                    r = self.call_func(m, n, rav, via=(how == 'cha'))
                    out = r if out is None else self.join(out, r)
                return out
            return self.lib_method(fn.attr, n, rav, arg_avs)
        return EMPTY

    def join(self, a, b):
        if isinstance(a, tuple) and isinstance(b, tuple) and len(a[1]) == len(b[1]):
            return ('tuple', [x | y for x, y in zip(a[1], b[1])])
        fa = frozenset().union(*a[1]) if isinstance(a, tuple) else a
        fb = frozenset().union(*b[1]) if isinstance(b, tuple) else b
        return fa | fb

    def classes_of(self, recv, rav):
        """Repo classes the receiver may be an instance of, when inferable."""
        out = []
        if isinstance(recv, ast.Name) and recv.id == 'self' and self.f.cls is not None:
            return self.repo.subclasses(self.f.cls)
        for a in rav:
            if a[0] == 'obj':
                c = self.obj_class.get(a[1]) if hasattr(self, 'obj_class') else None
                if c is not None and c not in out:
                    out.append(c)
        return out

    def method_candidates(self, recv, rav, name):
        cls = []
        if isinstance(recv, ast.Name) and recv.id == 'self' and self.f.cls is not None:
            ms = []
            for k in self.repo.subclasses(self.f.cls):
                m = self.repo.lookup_method(k, name)
                if m is not None and m not in ms:
                    ms.append(m)
            if ms:
                return ms, 'self'
        tms, thow = self.eff.types.method_targets(self.f, self.cur_call, self.cur_conds)
        if thow == 'typed':
            return tms, 'typed'
        if thow == 'missing':
            return [], None
        objs = [a for a in rav if a[0] == 'obj']
        if objs and len(objs) == len([a for a in rav if a[0] != 'fresh']):
            ms = []
            for a in objs:
                c = OBJ_CLASS.get(a[1])
                if c is None:
                    ms = None
                    break
                m = self.repo.lookup_method(c, name)
                if m is not None and m not in ms:
                    ms.append(m)
            if ms:
                return ms, 'obj'
        ms = self.repo.methods_named(self.f.pkg, name)
        if ms and name not in ('copy',) or (ms and name == 'copy' and not self.looks_like_array(recv)):
            return ms, 'cha'
        return [], None

    def looks_like_array(self, recv):
        """x.gs.copy(), x.g.copy(), gs.copy(): array method, not a repo method."""
        if isinstance(recv, ast.Attribute) and recv.attr in ('g', 'gs', 'ps', 'cs', 'p', 'c'):
            return True
        if isinstance(recv, ast.Name) and (recv.id.startswith('g') or recv.id.startswith('ps') or recv.id.startswith('cs')) \
                and recv.id not in ('gate', 'gen', 'generator', 'gates'):
            return True
        if isinstance(recv, (ast.Subscript, ast.Call)):
            return True
        return False

    def lib_func(self, name, n, arg_avs):
        if name in VIEW_FUNCS:
            return arg_avs[0] if arg_avs else EMPTY
        if name in ('array', 'tensor', 'copy', 'stack', 'concatenate', 'cat', 'concat'):
            out = EMPTY
            for a in arg_avs:
                out |= self.copy_of(a)
            return out
        if name == 'shuffle' and arg_avs:
            self.store(arg_avs[0], 'store')
        if name.endswith('_') and not name.startswith('_') and arg_avs:
            self.store(arg_avs[0], 'store')
        return EMPTY

    def lib_method(self, name, n, rav, arg_avs):
        if name in VIEW_METHODS:
            return rav
        if name in ('copy', 'clone'):
            return self.copy_of(rav)
        if name in MUTATING_METHODS or (name.endswith('_') and not name.startswith('_')):
            self.store(rav, 'store')
            if name in ('append', 'extend', 'insert'):
                # container now holds the argument: fields of fresh objects / locals
                for a in rav:
                    if a[0] == 'fresh':
                        pass
                return EMPTY
            return rav if name.endswith('_') else EMPTY
        if name in ('scatter', 'index_add'):
            return self.copy_of(rav)
        return EMPTY

    def construct(self, c, n):
        site = self.site(n)
        OBJ_CLASS[site] = c
        self.heap.setdefault(site, {})
        me = frozenset([('obj', site)])
        # forwarders (*args, **kwargs) first apply the binding __init__, then their own stores
        chain = []
        for k in self.repo.mro(c):
            if '__init__' in k.methods:
                ini = k.methods['__init__']
                chain.append(ini)
                if not (ini.vararg and ini.kwarg and len(ini.posparams) == 1):
                    break
        for ini in reversed(chain):
            if ini.vararg and ini.kwarg and len(ini.posparams) == 1:
                self.apply_summary(ini, {'self': me}, n)
            else:
                self.call_func(ini, n, me)
        return me

    def call_func(self, callee, n, self_av, via=False):
        is_method = self_av is not None and callee.cls is not None and 'staticmethod' not in callee.decorators
        mapping, err = bind(callee, n, is_method)
        binding = {}
        if is_method and callee.posparams:
            binding[callee.posparams[0]] = self_av
        for formal, actual in mapping.items():
            binding[formal] = self.av(actual)
        # *args: spread conservatively over remaining formals
        for a in n.args:
            if isinstance(a, ast.Starred):
                sv = self.av(a.value)
                for p in callee.posparams:
                    if p not in binding:
                        binding[p] = sv
                if callee.vararg:
                    binding[callee.vararg] = binding.get(callee.vararg, EMPTY) | sv
        if callee.vararg and callee.vararg not in binding:
            extra = EMPTY
            pos = callee.posparams[1:] if is_method else callee.posparams
            for i, a in enumerate(n.args):
                if i >= len(pos) and not isinstance(a, ast.Starred):
                    extra |= self.av(a)
            binding[callee.vararg] = extra
        return self.apply_summary(callee, binding, n, via)

    def instantiate_call(self, callee, binding, n):
        return self.apply_summary(callee, binding, n)

    def inst(self, av, binding, n, memo):
        out = set()
        for a in av:
            if a[0] in ('loc', 'copyof'):
                parts = a[1].split('.')
                base = binding.get(parts[0], EMPTY)
                for fld in parts[1:]:
                    base = self.field(base, fld)
                if a[0] == 'copyof':
                    base = self.copy_of(base)
                out |= base
            elif a[0] == 'obj':
                out.add(a)
                memo.add(a[1])
            else:
                out.add(a)
        return frozenset(out)

    def apply_summary(self, callee, binding, n, via=False):
        cs = self.eff.summary(callee)
        memo = set()
        # effects
        for path, kind, v in list(cs.mod):
            parts = path.split('.')
            base = binding.get(parts[0], EMPTY)
            for fld in parts[1:]:
                base = self.field(base, fld)
            if kind.startswith('attr:'):
                pass
            else:
                self.store(base, kind, via or v)
        for tpath, attr, val in list(cs.attr_stores):
            parts = tpath.split('.')
            base = binding.get(parts[0], EMPTY)
            for fld in parts[1:]:
                base = self.field(base, fld)
            v2 = self.inst(val, binding, n, memo)
            # an attribute store that the callee only has through name-resolved (CHA) edges stays "via" in the caller
            flags = [v for pth, k, v in cs.mod if pth == tpath and k == 'attr:' + attr]
            v_attr = bool(flags) and all(flags)
            for a in base:
                if a[0] == 'loc':
                    self.record((a[1], 'attr:' + attr, via or v_attr))
                    self.s.attr_stores.add((a[1], attr, v2))
                elif a[0] == 'obj':
                    h = self.heap.setdefault(a[1], {})
                    h[attr] = h.get(attr, EMPTY) | v2
        # result
        r = cs.ret
        if isinstance(r, tuple):
            res = ('tuple', [self.inst(x, binding, n, memo) for x in r[1]])
        else:
            res = self.inst(r, binding, n, memo)
        # heap of returned fresh objects (transitively)
        todo = list(memo)
        seen = set()
        while todo:
            site = todo.pop()
            if site in seen:
                continue
            seen.add(site)
            for fld, v in cs.heap.get(site, {}).items():
                m2 = set()
                v2 = self.inst(v, binding, n, m2)
                h = self.heap.setdefault(site, {})
                h[fld] = h.get(fld, EMPTY) | v2
                todo.extend(m2)
        return res

    # ---- statements
    def run(self):
        stmts = self.eff._walks.get(self.f.key())
        if stmts is None:
            stmts = self.eff._walks[self.f.key()] = list(walk(self.f.node))
        for _ in range(3):
            before = (dict(self.env), {k: dict(v) for k, v in self.heap.items()})
            for st, ctx in stmts:
                self.cur_conds = ctx.conds
                self.stmt(st)
            if before == (dict(self.env), {k: dict(v) for k, v in self.heap.items()}):
                break
        # export heap of objects reachable from the result
        self.s.heap = {k: dict(v) for k, v in self.heap.items()}

    def assign_to(self, t, v):
        if isinstance(t, ast.Name):
            self.env[t.id] = self.env.get(t.id, EMPTY) | v
        elif isinstance(t, ast.Attribute):
            self.attr_store(self.av(t.value), t.attr, v)
        elif isinstance(t, ast.Subscript):
            self.store(self.av(t.value), 'store')
            b = t.value
            while isinstance(b, ast.Subscript):
                b = b.value
            if isinstance(b, ast.Name):
                # content provenance: the local array now holds values copied from v
                if b.id in self.env or b.id not in self.f.module.globals_assigned:
                    self.env[b.id] = self.env.get(b.id, EMPTY) | self.copy_of(v)
        elif isinstance(t, (ast.Tuple, ast.List)):
            for e in t.elts:
                self.assign_to(e, v)
        elif isinstance(t, ast.Starred):
            self.assign_to(t.value, v)

    def stmt(self, st):
        if isinstance(st, ast.Assign):
            if isinstance(st.value, ast.Call) and any(isinstance(t, (ast.Tuple, ast.List)) for t in st.targets):
                r = self.call(st.value)
                for t in st.targets:
                    if isinstance(t, (ast.Tuple, ast.List)) and isinstance(r, tuple) and len(r[1]) == len(t.elts):
                        for e, v in zip(t.elts, r[1]):
                            self.assign_to(e, v)
                    else:
                        flat = frozenset().union(*r[1]) if isinstance(r, tuple) and r[1] else (r if not isinstance(r, tuple) else EMPTY)
                        self.assign_to(t, flat)
                return
            for t, v in assigned_pairs(st):
                if isinstance(v, tuple):
                    self.assign_to(t, self.av(v[2]))
                else:
                    self.assign_to(t, self.av(v))
        elif isinstance(st, ast.AugAssign):
            v = self.av(st.value)
            t = st.target
            if isinstance(t, ast.Name):
                # numpy / torch / numba: `a += b` on an array works IN PLACE on the caller's storage
                from .rules.bind import name_role
                if name_role(t.id) in ('STRING', 'PHASE', 'COEF') and not (t.id == 'p'):
                    self.store(self.env.get(t.id, EMPTY), 'store')
                self.env[t.id] = self.env.get(t.id, EMPTY) | self.copy_of(v)
            elif isinstance(t, ast.Attribute):
                if t.attr in ('gs', 'ps', 'cs', 'g'):
                    self.store(self.field(self.av(t.value), t.attr), 'store')
                self.attr_store(self.av(t.value), t.attr, v)
            elif isinstance(t, ast.Subscript):
                self.store(self.av(t.value), 'store')
        elif isinstance(st, ast.Delete):
            for t in st.targets:
                if isinstance(t, ast.Subscript):
                    self.store(self.av(t.value), 'store')       # del x[...] changes the container that x stands for
        elif isinstance(st, ast.AnnAssign):
            if st.value is not None:
                self.assign_to(st.target, self.av(st.value))
        elif isinstance(st, ast.For):
            it = self.av(st.iter)
            self.assign_to(st.target, it)
        elif isinstance(st, ast.Expr):
            self.av(st.value)
        elif isinstance(st, ast.Return):
            if st.value is None:
                return
            if isinstance(st.value, ast.Tuple):
                self.add_ret(('tuple', [self.av(e) for e in st.value.elts]))
            elif isinstance(st.value, ast.Call):
                self.add_ret(self.call(st.value))
            else:
                self.add_ret(self.av(st.value))
        elif isinstance(st, (ast.If, ast.While)):
            self.av(st.test)
        elif isinstance(st, ast.Assert):
            self.av(st.test)
        elif isinstance(st, ast.With):
            for it in st.items:
                v = self.av(it.context_expr)
                if it.optional_vars is not None:
                    self.assign_to(it.optional_vars, v)


OBJ_CLASS = {}
DATA_KINDS = {'store', 'attr:g', 'attr:p', 'attr:c', 'attr:gs', 'attr:ps', 'attr:cs', 'attr:r', 'attr:last_layer',
              'attr:first_layer', 'attr:next_layer', 'attr:gates'}


# ------------------------------------------------------------------ queries on the solved summaries
DENOTATION_FIELDS = {'g', 'p', 'c', 'gs', 'ps', 'cs', 'r', 'generator', 'forward_map', 'backward_map', 'qubits',
                     'gates', 'first_layer', 'last_layer', 'prev_layer', 'next_layer', 'state', 'N', 'n'}
ARRAY_FIELDS = {'g', 'gs', 'ps', 'cs'}


def mods(eff, f, roots=None, all_attrs=False):
    """[(path, kind, via_cha)] restricted to denotation storage rooted at the given parameter names
    (all_attrs: every attribute store counts, e.g. a cache attribute written by a query)."""
    out = []
    for path, kind, via in sorted(eff.summary(f).mod):
        root = path.split('.')[0]
        if roots is not None and root not in roots:
            continue
        if kind.startswith('attr:'):
            if kind[5:] not in DENOTATION_FIELDS and not all_attrs:
                continue
        out.append((path, kind, via))
    return out


def result_fields(eff, f):
    """For a function returning one fresh object: (site, {field: AV}, heap) else None."""
    s = eff.summary(f)
    r = s.ret
    if isinstance(r, tuple):
        return None
    objs = [a for a in r if a[0] == 'obj']
    return objs, s.heap, r


def reachable_atoms(av, heap, depth=4):
    """All atoms reachable from av through fresh objects' fields: list of (field path, atom)."""
    out = []
    seen = set()

    def rec(v, path, d):
        for a in v:
            if a[0] == 'obj':
                if (a[1], tuple(path)) in seen or d <= 0:
                    continue
                seen.add((a[1], tuple(path)))
                for fld, fv in heap.get(a[1], {}).items():
                    rec(fv, path + [fld], d - 1)
            else:
                out.append(('.'.join(path), a))
    rec(av, [], depth)
    return out
