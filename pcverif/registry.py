"""Per-property registration data used to generate MANIFEST.json (bin/mkmanifest)."""

# property id -> (technique, level text, level note, design ref)
CLAIMED = {
    'C01': ('expression normal forms (complete per-qubit truth tables of acq/ipow/acq_mat in both packages vs. the '
            '2x2 Pauli-matrix oracle) + product-site pairing/ordering rules + call binding',
            'The arithmetic kernels are proved for all N: the per-qubit summand extracted from the AST agrees with the '
            'matrix oracle on all 16 operand pairs and the reduction shape (all qubits, start 0, mod 2 / mod 4) is '
            'checked. Product sites (Pauli.__matmul__, batch_dot, both packages) are checked structurally for '
            'p1+p2+ipow(left,right) mod 4, XOR mod 2, coefficient product and consistent broadcast pairing. '
            'Associativity and chain exactness are consequences and are not separately decided.',
            'Trusted: CPython ast, the Pauli oracle, additivity of phases over tensor factors, the g*/p*/c* naming '
            'scheme. Integer overflow ignored.',
            'DESIGN.md 3 (R8, R7, R2, R13), 4 (C01)'),
    'C11': ('constant-table extraction by guard evaluation + literal folding, checked against first-principles '
            'Pauli algebra (symplectic validity, textbook action, distinctness, group closure)',
            'Complete static decision of the finite gate tables: all 31 literal tables (5 named, 24 indexed, 2 CNOT '
            'orientations) are extracted from the AST and proved valid, textbook, pairwise distinct, exhaustive and '
            'closed under composition/inverse by oracle arithmetic; arity/index guards are evaluated on valid and '
            'invalid inputs. The tables are finite, so this is the right level; placement in a register is C09.',
            'Trusted: CPython ast, the checker\'s Pauli oracle (2x2 matrices), literal folding of numpy.array. '
            'Does not decide how transform_by applies a table (C03).',
            'DESIGN.md 3 (R12, R11), 4 (C11)'),
}

NOT_APPLICABLE = {
    'C08': 'entropy is the numerical value of a GF(2) rank computation (loop-carried values of Gaussian '
           'elimination and the pure/mixed formulas); no clause whose truth is visible in the shape of the code '
           'is a meaningful necessary condition, so static analysis cannot decide it (DESIGN.md section 6)',
}

PENDING_REASON = 'check not registered yet in this revision of /verif (implementation in progress; see DESIGN.md section 4)'
