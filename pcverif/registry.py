"""Per-property registration data used to generate MANIFEST.json (bin/mkmanifest)."""

# property id -> (technique, level text, level note, design ref)
CLAIMED = {
    'C01': ('expression normal forms (complete per-qubit truth tables of acq/ipow/acq_mat in both packages vs. the '
            '2x2 Pauli-matrix oracle) + product-site pairing/ordering rules + call binding',
            'The arithmetic kernels are proved for all N: the per-qubit summand extracted from the AST agrees with the '
            'matrix oracle on all 16 operand pairs and the reduction shape (all qubits, start 0, mod 2 / mod 4) is '
            'checked. Product sites (Pauli.__matmul__, batch_dot, both packages) are checked structurally for '
            'p1+p2+ipow(left,right) mod 4, XOR mod 2, coefficient product and consistent broadcast pairing. '
            'Associativity and chain exactness are consequences and are not separately decided.',
            'Trusted: CPython ast, the Pauli oracle, additivity of phases over tensor factors, the g*/p*/c* naming '
            'scheme. Integer overflow ignored.',
            'DESIGN.md 3 (R8, R7, R2, R13), 4 (C01)'),
    'C02': ('rotation-kernel record extraction (guard / increment / string / write-set) in loop and masked-vector form, '
            'gather-scatter (in/out) discipline, interleaved-mask rule, call binding',
            'Each rotation kernel (pyclifford loop form, torchclifford masked form, signless twins) is reduced to the '
            'record guard=acq(G,P), increment=p_G+1+ipow(P,G) (or +3 with swapped operands), string=P xor G, '
            'writes only under the guard, and compared with i*P*G; masked rotate_by must gather and scatter through the '
            'same repeat(mask,2) columns; the generator sign must reach the kernel. With C01 (acq/ipow exact) this '
            'decides the rotation rule for all inputs; periodicity/inversion are consequences, not re-decided.',
            'Trusted: CPython ast, naming scheme, numpy/torch copy-vs-view semantics of mask indexing, C01.',
            'DESIGN.md 3 (R7, R5, R13, R2), 4 (C02)'),
    'C03': ('ordered-product rule on pauli_combine, summand normal form of the pauli_transform phase formula, '
            'gather-scatter and embed mask rules, ps0 normal form vs oracle, call binding',
            'pauli_combine is decided to be the ordered product of selected rows (accumulator left factor, ascending, '
            'phase read before string overwrite, identity start, selector C[out,in]); pauli_transform is decided to add '
            'exactly ps_in + ps0(gs_in) + combined phase mod 4; masked application and embed use one interleaved mask; '
            'coefficients are never written; ps0 is proved for all N. Homomorphism/commutation preservation follow and '
            'are not separately decided; validity of the map argument is a precondition.',
            'Trusted: CPython ast, naming scheme, Pauli oracle, C01.',
            'DESIGN.md 3 (R7, R6, R5, R13, R2, R8), 4 (C03)'),
    'C04': ('interprocedural mutation/alias summaries (operands unchanged, fresh results) + call binding and summand normal '
            'form of the compose / inverse wiring',
            'Decides the property\'s last sentence for all inputs (compose, inverse, identity_map, z2inv write nothing '
            'reachable from their operands and return fresh maps) and the wiring that the group laws depend on '
            '(receiver-first transform, inverse phase correction -(mismatch)-ps0, identity = eye/0, singular raises). '
            'Associativity, two-sided inverse and anti-homomorphism are NOT decided: they rest on loop-carried values of '
            'the Gauss-Jordan kernel, out of reach of a static argument.',
            'Trusted: CPython ast, view/copy table of effects.py, naming scheme, C03.',
            'DESIGN.md 3 (R4, R2, R6), 4 (C04)'),
    'C17': ('interprocedural, field-sensitive MOD / alias / copy-provenance summaries over the resolved call graph with '
            'class inference for method edges',
            'Best fit of the family: for all inputs and histories, a write to shared storage is visible as a store through '
            'an alias chain. 17 copy methods are decided fresh, independent and faithful field by field; ~220 query '
            'methods/constructors are decided to write nothing reachable from receiver or arguments; in-place '
            'operations are decided to write only their receiver. Effects visible only through name-resolved calls are '
            'listed as undecided, not reported.',
            'Trusted: CPython ast, numpy/torch view-vs-copy table, numba in-place semantics, the A.3 query/in-place '
            'lists, class inference. User-held views (state.stabilizers) are documented aliasing and out of scope.',
            'DESIGN.md 3 (R4), 4 (C17)'),
    'C05': ('row-class abstraction of kernel guards + finite model of the replacement/relocation index logic over the '
            'documented tableau layout; product-site closure; phase-kind (bit vs sign) dataflow; constructor/copy binding; '
            'in/out discipline of rank-carrying calls',
            'Structural necessary conditions of the invariant at every tableau writer: in all 7 projection kernels the '
            'pivot / rank-drop / phase-update / accumulation guards are decided to accept exactly the row classes the '
            'layout forces (for all N<=4, r), and the loop-free replacement block is interpreted on row labels for every '
            'N<=3, r and pivot (partner row, copy order, r-=1, three-way relocation, sign at the new stabilizer); products '
            'stay in {0,1}/{0..3}; no bit is stored as a sign; (gs,ps,r) reach the same-named fields. Inductiveness of '
            'the invariant over histories (mutual commutation after updates) is NOT decided.',
            'Trusted: CPython ast, layout docstring, C01-C03, naming scheme, effects.py.',
            'DESIGN.md 3 (R9, R7, R3, R2, R4, R5), 4 (C05)'),
    'C06': ('row-class guards and replacement-block model of stabilizer_measure, pairing of coin and log2prob, '
            'outcome-decode truth table, in/out discipline at measure()',
            'Decides the wiring the Born rule / projection postulate depend on: which rows are pivots, when the rank drops, '
            'that the random branch flips a fair 2*bit coin and subtracts exactly 1 from log2prob in the same block, that '
            'the deterministic branch writes nothing, that outcomes are decoded as (state sign == observable sign), that '
            'measure() stores gs, ps and r back. The numerical log2prob and exactness of the post-measurement state are '
            'values of a loop nest and are NOT decided.',
            'Trusted: CPython ast, layout docstring, C01, naming scheme.',
            'DESIGN.md 3 (R9, R7, R11, R15, R3, R5), 4 (C06)'),
    'C07': ('isinstance-chain shadowing, row-class guards + sign-decode truth tables of the expectation kernels, '
            'replacement-block model of the projection-trace kernel, branch-specific dataflow (phase kinds, parallel '
            'slices, result formula), effect summaries for purity',
            'Decides the structure Tr(rho P) depends on: dispatch reaches the right branch for every operand class; the list '
            'kernel zeroes on {SS,AS,SD} rows, accumulates on {AD} from row j-N and decodes the sign correctly; the polynomial '
            'branch carries i^ps and cs; the overlap uses fresh copies, rows [r:N] of both arrays and divides by 2^r; the trace '
            'kernel halves / zeroes with layout-true guards; get_prob writes 2*readout. Numerical equality with the trace '
            'formulas and normalisation of probabilities are NOT decided.',
            'Trusted: CPython ast, layout docstring, C01, naming scheme, effects.py.',
            'DESIGN.md 3 (R14, R9, R3, R13, R6, R4), 4 (C07)'),
    'C09': ('order signatures of generators / loops / folds, propositional entailment of take-guards over path conditions, '
            'path enumeration of gate dispatch and placement, linked-list pairing, embed/mask wiring',
            'Decides, for every program and every path, the ordering and locality structure: generators walk the right links, '
            'forward is ascending, take() slides a gate only across independent, non-measurement layers and places it exactly '
            'once, new layers are linked both ways, each gate applies its generator / forward map / inverted backward map / '
            'fresh random map through mask(qubits, N), layer compile embeds compiled gate maps at the gate mask, the forward '
            'fold is ascending, compose/copy preserve order. Equality of the compiled map with the sequential action is NOT '
            'decided (needs C03/C04 semantics).',
            'Trusted: CPython ast, C02-C04, the entailment helper (finite truth tables over path-condition atoms).',
            'DESIGN.md 3 (R10, R11, R13), 4 (C09)'),
    'C10': ('mirror queries over gate / layer / circuit backward paths, descending-order and descending-fold signatures',
            'Decides that backward mirrors forward at every level on every path: rotate by the negated generator, apply the '
            'backward map or the lazily inverted forward map, visit layers in descending order, fold the compiled backward map '
            'as the descending product (or forward_map.inverse()), compile generator gates with +-generator and map gates as '
            'mutual inverses. Correctness of inverse()/rotation themselves is C04/C02.',
            'Trusted: CPython ast, C02, C04, entailment helper.',
            'DESIGN.md 3 (R10, R11), 4 (C10)'),
    'C12': ('affine / slice normal forms of the map<->state row permutations, call binding and class inference of the '
            'constructors, guard dominance and ordering facts of stabilizer_state, projection-kernel model',
            'Decides that map_to_state / state_to_map (both packages) send X images to destabilizer rows and Z images to '
            'stabilizer rows, identically for strings and phases, and are mutually inverse for all N; that conversions and '
            'named constructors bind (gs, ps, r) and return the documented class; that stabilizer_state rejects anticommuting '
            'input before projecting, stores the rank and assigns signs to the active rows in input order; to_qutip structure. '
            'That projection + sign assignment denote the joint +1 eigenspace is NOT decided.',
            'Trusted: CPython ast, layout docstring, naming scheme, class inference, C05.',
            'DESIGN.md 3 (R13, R2, R11, R18, R9), 4 (C12)'),
    'C13': ('sibling cross-check of the two packages on extracted normal forms, tables, permutations, kernel records, '
            'signatures and result classes; banned-call scan; liveness of pure results; R1 on the torch namesakes',
            'Port equivalence is decided where both sides reduce to the same finite object: truth tables of the arithmetic '
            'kernels, reader/writer/scalar/qutip tables, row permutations, rotation/combine/transform records, row-class '
            'guards and replacement blocks of the torch projection kernels, circuit wiring, parameter lists and result classes. '
            'Numerical equality of the vectorised re-implementations that use a different algorithm is NOT decided; the torch '
            'GF(2) rank delegating to real matrix_rank is a recorded known finding.',
            'Trusted: CPython ast, oracle, class inference, effects.py.',
            'DESIGN.md 3 (R8, R12, R13, R17, R16, R18, R1), 4 (C13)'),
    'C14': ('in/out discipline and binding at MeasureLayer.forward, entailment of take guards, order signatures of '
            'Circuit.forward/backward, pairing of record and log2prob, evaluated sign/bit conversions, post-selection kernel model',
            'Decides the trajectory wiring for all circuits and records: measurement layers measure Z (slot 2q+1) through the '
            'measurement kernel and store gs, ps, r; gates never cross a measurement layer; records and log-probabilities are '
            'accumulated in order and consumed in reverse with the right slices, bits and signs; impossible records raise; '
            'postselect honours the operator sign and needs a pure state; the post-selection kernel halves / zeroes the '
            'probability and writes nothing when determined. Born probability values are NOT decided.',
            'Trusted: CPython ast, layout docstring, C05/C06, entailment helper.',
            'DESIGN.md 3 (R5, R11, R10, R12, R3, R9), 4 (C14)'),
    'C15': ('isinstance-chain shadowing over all arithmetic dunders, syntactic may-dependence of denotation functions on '
            'denotation fields, constant tables c = i^k, wiring of derived operators, parallel concatenation, reduce normal form',
            'Decides structural faithfulness of the algebra: no dispatch branch is dead for a subclass, every denotation '
            'function reads every denotation field (a field never read is provably ignored), scalar constants and derived '
            'operators are right, sums and reduction move gs / ps / cs together with phases folded as i^ps, qutip export tables '
            'match the Pauli matrices. Pauli.trace / PauliList.trace ignoring the phase is a recorded known finding (pinned by '
            'a baseline test). Numerical identity of exported matrices is NOT decided.',
            'Trusted: CPython ast, oracle letters, class hierarchy.',
            'DESIGN.md 3 (R14, R6, R12, R13), 4 (C15)'),
    'C16': ('draw-site rule, phase-kind dataflow, expression normal form of the commutation flip, sampler structure and '
            'liveness, path enumeration of random-gate dispatch',
            'Decides only the clauses visible in the code shape: all draws are fair bits (or the literal [0,2]), signs are '
            '2*bit, the random_pair flip provably toggles the anticommutation bit at a nontrivial site, the recursive sampler '
            'keeps the un-rotation result, map-less gates draw a fresh random_clifford_map on every call and never cache it, '
            'rcc constructors place map-less gates on the documented patterns. Validity by construction and UNIFORMITY over '
            'the Clifford group are distributional facts and are NOT decided.',
            'Trusted: CPython ast, oracle, effects.py, randint semantics.',
            'DESIGN.md 3 (R15, R3, R8, R16, R11), 4 (C16)'),
    'C18': ('R1 reference resolution over the cones, generator->gate wiring queries, offset agreement (2*i0 vs arange(i0,N)), '
            'mirrored-rotation rule in the diagonalisation kernels, SBRG loop wiring',
            'Claimed narrowly: the cones of diagonalize / SBRG contain no definitely-failing reference; generators are wrapped '
            'and taken in order with matching qubit / column offsets and signs; the encoding map is the backward map; each '
            'emitted generator is mirrored on the tracked strings; SBRG copies, composes and applies the same circuit and '
            'masks the right slots. That the generators actually diagonalise and SBRG exactness are NOT decided (finite case '
            'analysis over symbolic strings / numerical).',
            'Trusted: CPython ast, installed numpy/torch namespaces, C02, C09.',
            'DESIGN.md 3 (R1, R13, R7, R4), 4 (C18)'),
    'C19': ('parallel-index rule on sample / density_matrix, draw-site rule, evaluated weight, effect summaries for snapshots, '
            'povm structure',
            'Claimed narrowly: samples and the density-matrix expansion combine rows [r:N] of both arrays with a fair / complete '
            'selector and weight 2^-N; snapshots never write the base state and copy it faithfully; povm starts from a fresh '
            'zero state per sample. Uniformity of samples and overlap properties of snapshots are NOT decided.',
            'Trusted: CPython ast, effects.py, C03, C05, C06, C17.',
            'DESIGN.md 3 (R13, R15, R6, R4), 4 (C19)'),
    'C20': ('reader/writer table extraction by guard evaluation and fold of the reader table over printed prefixes, token '
            'normal forms, constant tables, parallel indexing',
            'Complete for the finite tables: reader(writer(x)) = x is decided on all letters, all four printed prefixes, all '
            'letter and phase tokens; letters equal the Pauli-matrix oracle; c = i^k for scalar multiples / negation; indexing '
            'selects gs, ps, cs together; N / L / weight use the interleaved layout; allocation and trimming arithmetic of the '
            'parser; both packages agree. numpy/torch indexing semantics are trusted.',
            'Trusted: CPython ast, oracle letters, guard evaluation.',
            'DESIGN.md 3 (R12, R8, R13), 4 (C20)'),
    'C11': ('constant-table extraction by guard evaluation + literal folding, checked against first-principles '
            'Pauli algebra (symplectic validity, textbook action, distinctness, group closure)',
            'Complete static decision of the finite gate tables: all 31 literal tables (5 named, 24 indexed, 2 CNOT '
            'orientations) are extracted from the AST and proved valid, textbook, pairwise distinct, exhaustive and '
            'closed under composition/inverse by oracle arithmetic; arity/index guards are evaluated on valid and '
            'invalid inputs. The tables are finite, so this is the right level; placement in a register is C09.',
            'Trusted: CPython ast, the checker\'s Pauli oracle (2x2 matrices), literal folding of numpy.array. '
            'Does not decide how transform_by applies a table (C03).',
            'DESIGN.md 3 (R12, R11), 4 (C11)'),
}

NOT_APPLICABLE = {
    'C08': 'entropy is the numerical value of a GF(2) rank computation (loop-carried values of Gaussian '
           'elimination and the pure/mixed formulas); no clause whose truth is visible in the shape of the code '
           'is a meaningful necessary condition, so static analysis cannot decide it (DESIGN.md section 6)',
}

PENDING_REASON = 'check not registered yet in this revision of /verif (implementation in progress; see DESIGN.md section 4)'


# property -> properties whose mechanisms it rests on (their rule instances are evaluated under it as well)
# C13 (port equivalence): every rule of the deterministic properties is evaluated on both packages and the verdicts of sibling
# functions (same qualified name) are compared; a breach on one side only means the two packages disagree (a breach on both
# sides is the other property's business, not a disagreement).  The random-sampling property C16 is left out; C19 is in for its
# deterministic structure (rows and selectors of sample / density_matrix, povm, snapshots).
SIBLING_SOURCES = ['C01', 'C02', 'C03', 'C04', 'C05', 'C06', 'C07', 'C09', 'C10', 'C11', 'C12', 'C14', 'C15', 'C17', 'C18', 'C19', 'C20']

DEPENDS = {
    'C02': ['C01'],
    'C03': ['C01'],
    'C04': ['C03'],
    'C05': ['C02', 'C03'],
    'C06': ['C01'],
    'C07': ['C01'],
    'C09': ['C02', 'C03', 'C04'],
    'C10': ['C09'],
    'C11': ['C09'],
    'C12': ['C03'],
    'C15': ['C01'],
    'C14': ['C06'],
    'C16': ['C01', 'C03'],
    'C18': ['C02', 'C09'],
    'C19': ['C03', 'C06', 'C10'],
}
