"""Per-property registration data used to generate MANIFEST.json (bin/mkmanifest)."""

# property id -> (technique, level text, level note, design ref)
CLAIMED = {
    'C11': ('constant-table extraction by guard evaluation + literal folding, checked against first-principles '
            'Pauli algebra (symplectic validity, textbook action, distinctness, group closure)',
            'Complete static decision of the finite gate tables: all 31 literal tables (5 named, 24 indexed, 2 CNOT '
            'orientations) are extracted from the AST and proved valid, textbook, pairwise distinct, exhaustive and '
            'closed under composition/inverse by oracle arithmetic; arity/index guards are evaluated on valid and '
            'invalid inputs. The tables are finite, so this is the right level; placement in a register is C09.',
            'Trusted: CPython ast, the checker\'s Pauli oracle (2x2 matrices), literal folding of numpy.array. '
            'Does not decide how transform_by applies a table (C03).',
            'DESIGN.md 3 (R12, R11), 4 (C11)'),
}

NOT_APPLICABLE = {
    'C08': 'entropy is the numerical value of a GF(2) rank computation (loop-carried values of Gaussian '
           'elimination and the pure/mixed formulas); no clause whose truth is visible in the shape of the code '
           'is a meaningful necessary condition, so static analysis cannot decide it (DESIGN.md section 6)',
}

PENDING_REASON = 'check not registered yet in this revision of /verif (implementation in progress; see DESIGN.md section 4)'
