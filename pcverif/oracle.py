"""Specification side: Pauli matrices, products, commutation, small Clifford tables.

Everything is computed from the 2x2 matrices; nothing here looks at the repository.
Convention (pyclifford/utils.py docstring): sigma(x, z) = i^(x z) X^x Z^z.
"""
import itertools

I2 = ((1, 0), (0, 1))
X = ((0, 1), (1, 0))
Z = ((1, 0), (0, -1))


def mm(a, b):
    return tuple(tuple(sum(a[i][k] * b[k][j] for k in range(2)) for j in range(2)) for i in range(2))


def scal(c, a):
    return tuple(tuple(c * v for v in row) for row in a)


def mpow(a, n):
    r = I2
    for _ in range(n):
        r = mm(r, a)
    return r


def sigma(x, z):
    return scal(1j ** (x * z), mm(mpow(X, x), mpow(Z, z)))


def meq(a, b):
    return all(abs(a[i][j] - b[i][j]) < 1e-12 for i in range(2) for j in range(2))


def site_ipow(x1, z1, x2, z2):
    """k in 0..3 with sigma(a) sigma(b) = i^k sigma(a xor b)."""
    prod = mm(sigma(x1, z1), sigma(x2, z2))
    tgt = sigma((x1 + x2) % 2, (z1 + z2) % 2)
    for k in range(4):
        if meq(prod, scal(1j ** k, tgt)):
            return k
    raise AssertionError('Pauli group not closed?')


def site_acq(x1, z1, x2, z2):
    a, b = sigma(x1, z1), sigma(x2, z2)
    ab, ba = mm(a, b), mm(b, a)
    if meq(ab, ba):
        return 0
    if meq(ab, scal(-1, ba)):
        return 1
    raise AssertionError('Paulis neither commute nor anticommute?')


def site_p0(x, z):
    """power of i separating sigma(x,z) from the bare product X^x Z^z."""
    for k in range(4):
        if meq(sigma(x, z), scal(1j ** k, mm(mpow(X, x), mpow(Z, z)))):
            return k
    raise AssertionError


BITS4 = list(itertools.product((0, 1), repeat=4))

# letters: sigma(0,0)=I sigma(1,0)=X sigma(1,1)=Y sigma(0,1)=Z
Y = ((0, -1j), (1j, 0))
LETTER = {}
for (_x, _z) in itertools.product((0, 1), repeat=2):
    for _name, _m in (('I', I2), ('X', X), ('Y', Y), ('Z', Z)):
        if meq(sigma(_x, _z), _m):
            LETTER[(_x, _z)] = _name
assert LETTER == {(0, 0): 'I', (1, 0): 'X', (1, 1): 'Y', (0, 1): 'Z'}, LETTER


# ------------------------------------------------------------------ multi-qubit Paulis as (g, p)
def p_ipow(g1, g2):
    return sum(site_ipow(g1[2 * i], g1[2 * i + 1], g2[2 * i], g2[2 * i + 1]) for i in range(len(g1) // 2)) % 4


def p_acq(g1, g2):
    return sum(site_acq(g1[2 * i], g1[2 * i + 1], g2[2 * i], g2[2 * i + 1]) for i in range(len(g1) // 2)) % 2


def p_mul(a, b):
    (g1, p1), (g2, p2) = a, b
    return (tuple((u + v) % 2 for u, v in zip(g1, g2)), (p1 + p2 + p_ipow(g1, g2)) % 4)


def p_x0z(g):
    return sum(site_p0(g[2 * i], g[2 * i + 1]) for i in range(len(g) // 2)) % 4


# ------------------------------------------------------------------ Clifford maps as (gs rows, ps)
def map_apply(cmap, pauli):
    """Image of i^p sigma(g) under the map (rows = images of X0,Z0,X1,Z1,...), as a homomorphism:
    sigma(g) = i^(x.z) prod_i X_i^x_i Z_i^z_i  ->  i^(x.z) prod_i img(X_i)^x_i img(Z_i)^z_i."""
    gs, ps = cmap
    g, p = pauli
    n2 = len(g)
    acc = (tuple([0] * len(gs[0])), 0)
    for k in range(n2):
        if g[k]:
            acc = p_mul(acc, (tuple(gs[k]), ps[k]))
    return (acc[0], (acc[1] + p + p_x0z(g)) % 4)


def map_compose(a, b):
    """First a, then b (receiver first): rows of a transformed by b."""
    gs, ps = [], []
    for row, p in zip(a[0], a[1]):
        g2, p2 = map_apply(b, (tuple(row), p))
        gs.append(g2)
        ps.append(p2)
    return (tuple(gs), tuple(ps))


def map_identity(n):
    return (tuple(tuple(1 if i == j else 0 for j in range(2 * n)) for i in range(2 * n)), tuple([0] * (2 * n)))


def map_is_valid(cmap):
    """Rows satisfy the canonical commutation relations and are Hermitian (phases compensate x.z)."""
    gs, ps = cmap
    n2 = len(gs)
    if any(len(r) != n2 for r in gs) or len(ps) != n2:
        return False, 'shape'
    for a in range(n2):
        for b in range(n2):
            want = 1 if (a // 2 == b // 2 and a != b) else 0
            if p_acq(gs[a], gs[b]) != want:
                return False, 'rows %d,%d do not have the canonical commutation relation' % (a, b)
    for a in range(n2):
        if ps[a] % 2 != 0:
            return False, 'row %d has a non-Hermitian phase %d' % (a, ps[a])
    return True, ''


def pauli_from_letters(s, sign=0):
    code = {'I': (0, 0), 'X': (1, 0), 'Y': (1, 1), 'Z': (0, 1)}
    g = []
    for ch in s:
        g.extend(code[ch])
    return (tuple(g), sign)


TEXTBOOK_1Q = {
    # gate -> images of X, Z   (C11: "H swaps X and Z; S sends X to Y and keeps Z; each Pauli gate flips
    # the sign of the Paulis it anticommutes with")
    'H': (('Z', 0), ('X', 0)),
    'S': (('Y', 0), ('Z', 0)),
    'X': (('X', 0), ('Z', 2)),
    'Y': (('X', 2), ('Z', 2)),
    'Z': (('X', 2), ('Z', 0)),
}


def textbook_1q(name):
    (a, pa), (b, pb) = TEXTBOOK_1Q[name]
    return ((pauli_from_letters(a)[0], pauli_from_letters(b)[0]), (pa, pb))


def textbook_cnot(control, target):
    """2-qubit local table (rows X0,Z0,X1,Z1) of CNOT with the given local control/target in {0,1}."""
    def img(letter, q):
        s = ['I', 'I']
        if letter == 'X' and q == control:
            s[control] = 'X'; s[target] = 'X'
        elif letter == 'Z' and q == target:
            s[control] = 'Z'; s[target] = 'Z'
        else:
            s[q] = letter
        return pauli_from_letters(''.join(s))[0]
    rows = (img('X', 0), img('Z', 0), img('X', 1), img('Z', 1))
    return (rows, (0, 0, 0, 0))


def all_1q_cliffords():
    """The 24 valid one-qubit maps modulo global phase, from first principles."""
    out = []
    strings = [(1, 0), (0, 1), (1, 1)]
    for gx in strings:
        for gz in strings:
            if p_acq(gx, gz) != 1:
                continue
            for px in (0, 2):
                for pz in (0, 2):
                    out.append(((gx, gz), (px, pz)))
    assert len(out) == 24
    return out
