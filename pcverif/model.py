"""Program model of the two live packages: modules, imports, classes (MRO), functions, call graph.

Nothing from /repo is imported or executed: sources are parsed with `ast` only.
"""
import ast
import os

LIVE = {
    'pyclifford': ['utils', 'paulialg', 'stabilizer', 'circuit', 'device'],
    'torchclifford': ['utils', 'paulialg', 'stabilizer', 'circuit'],
}


class AnalysisError(Exception):
    """The analysis itself cannot stand (vanished anchor, floor breach, unsupported construct)."""


def norm(node):
    """Normalised source text of a node (whitespace / redundant parentheses removed)."""
    if node is None:
        return ''
    if isinstance(node, str):
        return node
    return ast.unparse(node)


class Func:
    def __init__(self, module, qual, node, cls=None, parent=None):
        self.module = module
        self.qual = qual
        self.node = node
        self.cls = cls
        self.parent = parent          # enclosing Func for nested defs
        self.name = node.name
        self.decorators = [norm(d) for d in node.decorator_list]
        a = node.args
        self.posparams = [x.arg for x in a.posonlyargs + a.args]
        self.kwonly = [x.arg for x in a.kwonlyargs]
        self.vararg = a.vararg.arg if a.vararg else None
        self.kwarg = a.kwarg.arg if a.kwarg else None
        self.ndefaults = len(a.defaults)
        self.nested = {}

    @property
    def rel(self):
        return self.module.rel

    @property
    def pkg(self):
        return self.module.pkg

    @property
    def is_njit(self):
        return any(d.split('(')[0] in ('njit', 'numba.njit', 'jit') for d in self.decorators)

    @property
    def is_property(self):
        return 'property' in self.decorators

    @property
    def params(self):
        p = list(self.posparams)
        if self.vararg:
            p.append(self.vararg)
        p += self.kwonly
        if self.kwarg:
            p.append(self.kwarg)
        return p

    def key(self):
        return (self.rel, self.qual)

    def __repr__(self):
        return '<Func %s::%s>' % (self.rel, self.qual)


class Cls:
    def __init__(self, module, node):
        self.module = module
        self.node = node
        self.name = node.name
        self.base_names = [norm(b) for b in node.bases]
        self.methods = {}

    @property
    def pkg(self):
        return self.module.pkg

    def __repr__(self):
        return '<Cls %s.%s>' % (self.module.rel, self.name)


class Module:
    def __init__(self, pkg, name, root):
        self.pkg = pkg
        self.name = name
        self.rel = '%s/%s.py' % (pkg, name)
        self.path = os.path.join(root, self.rel)
        if not os.path.exists(self.path):
            raise AnalysisError('anchored module %s does not exist' % self.rel)
        with open(self.path, encoding='utf-8') as fh:
            self.src = fh.read()
        try:
            self.tree = ast.parse(self.src, filename=self.path)
        except SyntaxError as e:
            raise AnalysisError('cannot parse %s: %s' % (self.rel, e))
        self.renamed_locals = []
        self.imports = {}   # local name -> ('ext', dotted) | ('sym', module name in pkg, symbol)
        self.defs = {}      # top-level name -> Func | Cls
        self.globals_assigned = set()
        self.funcs = {}     # qual -> Func (all, including methods and nested)

    def __repr__(self):
        return '<Module %s>' % self.rel


class Repo:
    def __init__(self, root):
        self.root = root
        self.modules = {}
        for pkg, names in LIVE.items():
            for n in names:
                m = Module(pkg, n, root)
                self.modules[m.rel] = m
        # parameters (by position) and locals (by structural signature) are brought to their reference names: the analysed
        # program is alpha-equivalent to the source (see canon.py)
        from . import canon
        kw = set()
        for m in self.modules.values():
            for n in ast.walk(m.tree):
                if isinstance(n, ast.Call):
                    kw.update(k.arg for k in n.keywords if k.arg)
        for m in self.modules.values():
            m.renamed_locals = canon.normalise(m.rel, m.tree, kw)
        for m in self.modules.values():
            self._index(m)
        self._callers = None

    # ------------------------------------------------------------------ indexing
    def _index(self, m):
        for st in m.tree.body:
            if isinstance(st, ast.Import):
                for al in st.names:
                    m.imports[al.asname or al.name.split('.')[0]] = ('ext', al.name if al.asname else al.name.split('.')[0])
            elif isinstance(st, ast.ImportFrom):
                if st.level >= 1:
                    for al in st.names:
                        m.imports[al.asname or al.name] = ('sym', st.module, al.name)
                else:
                    for al in st.names:
                        m.imports[al.asname or al.name] = ('ext', '%s.%s' % (st.module, al.name))
            elif isinstance(st, (ast.FunctionDef,)):
                f = Func(m, st.name, st)
                m.defs[st.name] = f
                self._index_func(m, f)
            elif isinstance(st, ast.ClassDef):
                c = Cls(m, st)
                m.defs[st.name] = c
                for cst in st.body:
                    if isinstance(cst, ast.FunctionDef):
                        f = Func(m, '%s.%s' % (c.name, cst.name), cst, cls=c)
                        c.methods[cst.name] = f
                        self._index_func(m, f)
            elif isinstance(st, (ast.Assign, ast.AugAssign, ast.AnnAssign)):
                for t in (st.targets if isinstance(st, ast.Assign) else [st.target]):
                    for n in ast.walk(t):
                        if isinstance(n, ast.Name):
                            m.globals_assigned.add(n.id)

    def _index_func(self, m, f):
        m.funcs[f.qual] = f
        for st in ast.walk(f.node):
            if st is f.node:
                continue
            if isinstance(st, ast.FunctionDef) and self._direct_parent(f.node, st):
                g = Func(m, '%s.%s' % (f.qual, st.name), st, cls=None, parent=f)
                f.nested[st.name] = g
                self._index_func(m, g)

    @staticmethod
    def _direct_parent(outer, inner):
        """True iff `inner` is defined in `outer` with no other def in between."""
        stack = list(ast.iter_child_nodes(outer))
        while stack:
            n = stack.pop()
            if n is inner:
                return True
            if isinstance(n, (ast.FunctionDef, ast.ClassDef, ast.Lambda)):
                continue
            stack.extend(ast.iter_child_nodes(n))
        return False

    # ------------------------------------------------------------------ lookup
    def module(self, rel):
        if rel not in self.modules:
            raise AnalysisError('module %s is not part of the analysed program' % rel)
        return self.modules[rel]

    def func(self, rel, qual):
        m = self.module(rel)
        if qual not in m.funcs:
            raise AnalysisError('anchored function %s::%s no longer exists' % (rel, qual))
        return m.funcs[qual]

    def has_func(self, rel, qual):
        return rel in self.modules and qual in self.modules[rel].funcs

    def cls(self, pkg, name):
        for m in self.modules.values():
            if m.pkg == pkg and isinstance(m.defs.get(name), Cls):
                return m.defs[name]
        raise AnalysisError('anchored class %s.%s no longer exists' % (pkg, name))

    def find_cls(self, pkg, name):
        for m in self.modules.values():
            if m.pkg == pkg and isinstance(m.defs.get(name), Cls):
                return m.defs[name]
        return None

    def all_funcs(self, pkg=None):
        for m in self.modules.values():
            if pkg and m.pkg != pkg:
                continue
            for f in m.funcs.values():
                yield f

    def all_classes(self, pkg=None):
        for m in self.modules.values():
            if pkg and m.pkg != pkg:
                continue
            for d in m.defs.values():
                if isinstance(d, Cls):
                    yield d

    def resolve(self, module, name, _depth=0):
        """Resolve a module-level name: Func | Cls | ('ext', dotted) | None."""
        if name in module.defs:
            return module.defs[name]
        imp = module.imports.get(name)
        if imp is None:
            return None
        if imp[0] == 'ext':
            return imp
        _, modname, sym = imp
        rel = '%s/%s.py' % (module.pkg, modname)
        if rel not in self.modules or _depth > 5:
            return ('ext', '%s.%s' % (modname, sym))
        return self.resolve(self.modules[rel], sym, _depth + 1)

    def bases(self, c):
        out = []
        for b in c.base_names:
            r = self.resolve(c.module, b)
            if isinstance(r, Cls):
                out.append(r)
        return out

    def mro(self, c):
        cache = self.__dict__.setdefault('_mro_cache', {})
        if id(c) in cache:
            return cache[id(c)]
        r = cache[id(c)] = self._mro(c)
        return r

    def _mro(self, c):
        out, seen = [], set()

        def rec(k):
            if id(k) in seen:
                return
            seen.add(id(k))
            out.append(k)
            for b in self.bases(k):
                rec(b)
        rec(c)
        return out

    def is_subclass(self, c, d):
        return any(k is d for k in self.mro(c))

    def subclasses(self, c):
        cache = self.__dict__.setdefault('_sub_cache', {})
        if id(c) not in cache:
            cache[id(c)] = [k for k in self.all_classes(c.pkg) if self.is_subclass(k, c)]
        return cache[id(c)]

    def lookup_method(self, c, name):
        for k in self.mro(c):
            if name in k.methods:
                return k.methods[name]
        return None

    def methods_named(self, pkg, name):
        return [c.methods[name] for c in self.all_classes(pkg) if name in c.methods]

    # ------------------------------------------------------------------ call graph
    def callees(self, f):
        """Resolved callees of f: list of (call node, [Func|Cls...], how) with how in
        {'name','self','super','cha','ctor'}; unresolved / external calls are omitted."""
        out = []
        for call in calls_in(f.node):
            fn = call.func
            if isinstance(fn, ast.Name):
                tgt = self.resolve_local(f, fn.id)
                if isinstance(tgt, (Func, Cls)):
                    out.append((call, [tgt], 'name'))
            elif isinstance(fn, ast.Attribute):
                v = fn.value
                if isinstance(v, ast.Name) and v.id == 'self' and f.cls is not None:
                    ms = []
                    for k in self.subclasses(f.cls):
                        mm = self.lookup_method(k, fn.attr)
                        if mm is not None and mm not in ms:
                            ms.append(mm)
                    if ms:
                        out.append((call, ms, 'self'))
                    continue
                if isinstance(v, ast.Call) and isinstance(v.func, ast.Name) and v.func.id == 'super' and f.cls is not None:
                    for b in self.mro(f.cls)[1:]:
                        if fn.attr in b.methods:
                            out.append((call, [b.methods[fn.attr]], 'super'))
                            break
                    continue
                root = v
                while isinstance(root, (ast.Attribute, ast.Subscript, ast.Call)):
                    root = root.value if not isinstance(root, ast.Call) else root.func
                if isinstance(root, ast.Name):
                    r = self.resolve_local(f, root.id)
                    if isinstance(r, tuple) and r[0] == 'ext' and isinstance(v, (ast.Name, ast.Attribute)):
                        continue  # library call
                ms = self.methods_named(f.pkg, fn.attr)
                if ms:
                    out.append((call, ms, 'cha'))
            elif isinstance(fn, ast.Call) and isinstance(fn.func, ast.Name) and fn.func.id == 'type' and f.cls is not None:
                out.append((call, self.subclasses(f.cls), 'ctor'))
        return out

    def resolve_local(self, f, name):
        """Resolve `name` as seen from inside function f (nested defs, then module level)."""
        g = f
        while g is not None:
            if name in g.nested:
                return g.nested[name]
            g = g.parent
        return self.resolve(f.module, name)

    def cone(self, entries, follow=('name', 'self', 'super', 'cha', 'ctor')):
        """Functions reachable from the entry Funcs along resolved call edges."""
        seen, order, stack = set(), [], list(entries)
        while stack:
            f = stack.pop()
            if isinstance(f, Cls):
                init = self.lookup_method(f, '__init__')
                if init is None:
                    continue
                f = init
            if f.key() in seen:
                continue
            seen.add(f.key())
            order.append(f)
            for g in f.nested.values():
                stack.append(g)
            for call, tgts, how in self.callees(f):
                if how not in follow:
                    continue
                for t in tgts:
                    stack.append(t)
            # properties read as attributes
            for n in ast.walk(f.node):
                if isinstance(n, ast.Attribute) and isinstance(n.ctx, ast.Load):
                    for mm in self.methods_named(f.pkg, n.attr):
                        if mm.is_property:
                            stack.append(mm)
        return order


def calls_in(node):
    """All Call nodes inside a function body, not descending into nested defs."""
    out = []
    stack = list(ast.iter_child_nodes(node))
    while stack:
        n = stack.pop()
        if isinstance(n, (ast.FunctionDef, ast.ClassDef, ast.Lambda)):
            continue
        if isinstance(n, ast.Call):
            out.append(n)
        stack.extend(ast.iter_child_nodes(n))
    out.sort(key=lambda c: (c.lineno, c.col_offset))
    return out


def walk_local(node):
    """ast.walk restricted to the function itself (no nested defs / lambdas)."""
    stack = list(ast.iter_child_nodes(node))
    while stack:
        n = stack.pop()
        if isinstance(n, (ast.FunctionDef, ast.ClassDef, ast.Lambda)):
            continue
        yield n
        stack.extend(ast.iter_child_nodes(n))


def call_name(call):
    """Dotted name of the callee expression, e.g. 'numpy.random.randint', 'self.gs.copy'."""
    return norm(call.func)


def last_attr(call):
    fn = call.func
    if isinstance(fn, ast.Attribute):
        return fn.attr
    if isinstance(fn, ast.Name):
        return fn.id
    return None
