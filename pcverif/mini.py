"""A small concrete interpreter for loop-light Python functions, used by the table rules.

`execute(fn_node, env, ...)` follows the control flow of a function body with the checker's own expression evaluator
(exprnf.ev): `if` tests, `for` loops over iterables it can evaluate (literal tuples / lists, range, enumerate, zip), break /
continue / return / raise, assignments to names (a value it cannot evaluate removes the binding, so later tests on that name
become undecidable instead of wrong).  Everything else (stores into arrays, attribute stores, calls) is recorded, not
performed.  The result is the trace of executed statements with a snapshot of the environment, ending at the first return /
raise; an undecidable test or iterable raises Undecidable, so a rule built on it never guesses."""
import ast

from .exprnf import ev, Undecidable

MAX_STEPS = 2000


class _Return(Exception):
    pass


class _Break(Exception):
    pass


class _Continue(Exception):
    pass


def _builtin_call(n, env, rec, user_call=None):
    fn = n.func
    name = fn.id if isinstance(fn, ast.Name) else None
    if name in ('range', 'len', 'enumerate', 'zip', 'tuple', 'list', 'int', 'abs', 'min', 'max', 'reversed', 'sorted') and not n.keywords:
        args = [rec(a) for a in n.args]
        if name == 'enumerate':
            return tuple(enumerate(args[0], *args[1:]))
        if name == 'zip':
            return tuple(zip(*args))
        if name in ('tuple', 'list', 'reversed', 'sorted'):
            return tuple({'tuple': tuple, 'list': list, 'reversed': reversed, 'sorted': sorted}[name](args[0]))
        if name == 'range':
            return tuple(range(*args))
        return {'len': len, 'int': int, 'abs': abs, 'min': min, 'max': max}[name](*args)
    if isinstance(fn, ast.Attribute) and fn.attr == 'get' and 1 <= len(n.args) <= 2 and not n.keywords \
            and isinstance(fn.value, (ast.Dict, ast.Name)):
        try:
            base = rec(fn.value)
        except Undecidable:
            base = None
        if isinstance(base, dict):
            try:
                return base.get(*[rec(a) for a in n.args])       # lookup in a literal table
            except TypeError as e:
                raise Undecidable('dict lookup: %s' % e)
    if user_call is not None:
        return user_call(n, env, rec)
    raise Undecidable('call ' + ast.unparse(n.func))


class NeedChoice(Undecidable):
    """A test could not be evaluated and no decision for it was supplied."""


def execute(fn_node, env, sub=None, call=None, attr=None, body=None, on_store=None, on_expr=None, choices=None, result=None):
    """Trace [(stmt, env snapshot)] of the statements executed; the last one is the Return / Raise reached (if any)."""
    env = dict(env)
    trace = []
    steps = [0]

    def the_call(n, e, rec):
        return _builtin_call(n, e, rec, call)

    def value(e):
        return ev(e, env, sub=sub, call=the_call, attr=attr)

    def bind(t, v):
        if isinstance(t, ast.Name):
            env[t.id] = v
        elif isinstance(t, (ast.Tuple, ast.List)):
            vs = tuple(v)
            if len(vs) != len(t.elts):
                raise Undecidable('unpack')
            for a, b in zip(t.elts, vs):
                bind(a, b)

    def unbind(t):
        for n in ast.walk(t):
            if isinstance(n, ast.Name):
                env.pop(n.id, None)

    def run(stmts):
        for st in stmts:
            steps[0] += 1
            if steps[0] > MAX_STEPS:
                raise Undecidable('too many steps')
            trace.append((st, dict(env)))
            if isinstance(st, ast.If):
                try:
                    c = value(st.test)
                except NeedChoice:
                    raise
                except Undecidable:
                    if choices is None:
                        raise
                    if not choices:
                        raise NeedChoice(ast.unparse(st.test))
                    c = choices.pop(0)           # a test on data the interpreter does not model: both outcomes are explored by the caller
                run(st.body if c else st.orelse)
            elif isinstance(st, ast.For):
                it = value(st.iter)
                broke = False
                for v in it:
                    bind(st.target, v)
                    try:
                        run(st.body)
                    except _Continue:
                        continue
                    except _Break:
                        broke = True
                        break
                if not broke:
                    run(st.orelse)
            elif isinstance(st, ast.While):
                k = 0
                while value(st.test):
                    k += 1
                    if k > 64:
                        raise Undecidable('while loop')
                    try:
                        run(st.body)
                    except _Continue:
                        continue
                    except _Break:
                        break
            elif isinstance(st, ast.Assign):
                try:
                    v = value(st.value)
                    ok = True
                except Undecidable:
                    ok = False
                for t in st.targets:
                    if isinstance(t, (ast.Attribute, ast.Subscript)) and on_store is not None:
                        on_store(t, v if ok else Undecidable, env, value)      # rule-specific heap (attribute / element stores)
                    if isinstance(t, (ast.Name, ast.Tuple, ast.List)):
                        if ok:
                            try:
                                bind(t, v)
                            except (Undecidable, TypeError):
                                unbind(t)
                        else:
                            unbind(t)
            elif isinstance(st, ast.AugAssign):
                if isinstance(st.target, ast.Name):
                    try:
                        env[st.target.id] = ev(ast.BinOp(left=ast.Name(id=st.target.id, ctx=ast.Load()), op=st.op, right=st.value),
                                               env, sub=sub, call=the_call, attr=attr)
                    except Undecidable:
                        env.pop(st.target.id, None)
            elif isinstance(st, (ast.Return, ast.Raise)):
                if isinstance(st, ast.Return) and st.value is not None and (on_expr is not None or result is not None):
                    rv = value(st.value) if result is not None else on_expr(st.value, env, value)
                    if result is not None:
                        result.append(rv)
                raise _Return()
            elif isinstance(st, ast.Break):
                raise _Break()
            elif isinstance(st, ast.Continue):
                raise _Continue()
            elif isinstance(st, ast.Assert):
                pass
            elif isinstance(st, ast.Expr):
                if on_expr is not None:
                    on_expr(st.value, env, value)
            elif isinstance(st, (ast.Pass, ast.FunctionDef, ast.Import, ast.ImportFrom)):
                pass
            elif isinstance(st, ast.With):
                run(st.body)
            else:
                raise Undecidable('statement kind %s' % type(st).__name__)
    try:
        run(body if body is not None else fn_node.body)
    except _Return:
        pass
    except (_Break, _Continue):
        pass
    return trace


def all_paths(run_once, limit=16):
    """Call run_once(choices) for every combination of outcomes of the tests the interpreter cannot evaluate (breadth first,
    at most `limit` paths).  run_once must call execute(..., choices=list(choices)); yields (choices, result)."""
    todo = [[]]
    n = 0
    while todo:
        ch = todo.pop(0)
        n += 1
        if n > limit:
            raise Undecidable('too many undecidable tests')
        try:
            yield ch, run_once(list(ch))
        except NeedChoice:
            todo.append(ch + [True])
            todo.append(ch + [False])
