"""Findings, rule instances, known-findings matching, evidence and replay files."""
import ast
import hashlib
import json
import os
import time

from .model import AnalysisError, norm

VERIF = os.path.dirname(os.path.dirname(os.path.abspath(__file__)))


class Finding:
    def __init__(self, prop, rule, rel, func, construct, msg, line=None):
        self.prop, self.rule, self.rel, self.func = prop, rule, rel, func
        self.construct = construct
        self.msg = msg
        self.line = line

    def key(self):
        return (self.prop, self.rule, self.rel, self.func, self.construct)

    def as_dict(self):
        return {'property': self.prop, 'rule': self.rule, 'file': self.rel, 'function': self.func,
                'construct': self.construct, 'what': self.msg, 'line': self.line}

    def text(self):
        loc = '%s:%s' % (self.rel, self.line) if self.line else self.rel
        return '%s %s in %s: %s  [construct: %s]' % (self.rule, loc, self.func, self.msg, self.construct)


class Run:
    """Collects what one property check analysed and decided."""

    def __init__(self, prop, tier, repo, seed=0):
        self.prop, self.tier, self.repo, self.seed = prop, tier, repo, seed
        self.t0 = time.time()
        self.instances = []      # dicts: rule, site, construct, verdict, detail
        self.findings = []
        self.undecided_sites = []
        self.floors = {}         # rule -> (found, floor)
        self.declined = []
        self.decided = []
        self.cones = {}
        self.notes = []
        self.quiet = False

    # ---------------------------------------------------------------- recording
    @staticmethod
    def _site(f):
        if f is None:
            return ('', '')
        if isinstance(f, tuple):
            return f
        return (f.rel, f.qual)

    @staticmethod
    def _construct(c):
        if isinstance(c, ast.AST):
            return norm(c)
        return str(c)

    @staticmethod
    def _line(c):
        return getattr(c, 'lineno', None) if isinstance(c, ast.AST) else None

    def ok(self, rule, f, construct, detail=''):
        rel, qual = self._site(f)
        self.instances.append({'rule': rule, 'file': rel, 'function': qual,
                               'construct': self._construct(construct)[:200], 'verdict': 'discharged',
                               'detail': detail})

    def violation(self, rule, f, construct, msg, line=None):
        rel, qual = self._site(f)
        fd = Finding(self.prop, rule, rel, qual, self._construct(construct)[:300], msg,
                     line or self._line(construct) or (getattr(f, 'node', None) and f.node.lineno))
        if fd.key() in [x.key() for x in self.findings]:
            return
        self.findings.append(fd)
        self.instances.append({'rule': rule, 'file': rel, 'function': qual,
                               'construct': fd.construct[:200], 'verdict': 'VIOLATED', 'detail': msg})

    def undecided(self, rule, f, construct, reason, declared=False):
        """A site the rule could not read.  Unless `declared` (a limitation of the rule that exists on the reference tree and is
        listed in DESIGN.md), an unread site makes the run end as ANALYSIS-ERROR (exit 2): a pass would claim a clause that was
        not decided."""
        rel, qual = self._site(f)
        self.undecided_sites.append({'rule': rule, 'file': rel, 'function': qual,
                                     'construct': self._construct(construct)[:200], 'reason': reason, 'declared': bool(declared)})

    def check(self, cond, rule, f, construct, msg, detail=''):
        """Record a decided instance: discharged if cond else a violation."""
        if cond:
            self.ok(rule, f, construct, detail)
        else:
            self.violation(rule, f, construct, msg)
        return cond

    def count(self, rule, exact=False):
        return sum(1 for i in self.instances if i['rule'] == rule or (not exact and i['rule'].startswith(rule + '.')))

    def floor(self, rule, n, what='', exact=False):
        """`n` instances of the rule were confirmed by hand on the reference tree.  The run fails (analysis error) when the rule
        could not read a site (an UNDECIDED site of this rule exists and the count is short) or when it matched fewer than half
        of them (a rule that matches nothing passes vacuously forever).  A smaller shortfall without any unread site - two
        sites merged into one by a refactoring - is recorded in the evidence and does not fail the run."""
        found = self.count(rule, exact)
        self.floors[rule] = (found, n)
        if found >= n or self._new_findings():
            return
        und = [u for u in self.undecided_sites if u['rule'].startswith(rule)]
        hard = max(1, (n + 1) // 2)
        if und or found < hard:
            raise AnalysisError('rule %s matched %d instance(s), floor is %d%s%s' % (
                rule, found, n, (' (%s)' % what) if what else '',
                ('; undecided sites: ' + '; '.join('%s %s: %s' % (u['function'], u['construct'][:60], u['reason'])
                                                   for u in und[:4])) if und else ''))
        self.notes.append('rule %s matched %d instance(s), %d were confirmed by hand on the reference tree; no site was left unread, '
                          'so sites were merged or removed by a restructuring' % (rule, found, n))

    def _is_known(self, fd, known=None):
        for k in (known if known is not None else self._known()):
            if (k['property'] == fd.prop and k['rule'] == fd.rule and k['file'] == fd.rel
                    and k['function'] == fd.func and k['construct'] == fd.construct):
                return k
        return None

    def _new_findings(self):
        known = self._known()
        return [fd for fd in self.findings if self._is_known(fd, known) is None]

    def decide(self, text):
        self.decided.append(text)

    def decline(self, text):
        self.declined.append(text)

    # ---------------------------------------------------------------- output
    def _known(self):
        path = os.path.join(VERIF, 'known_findings.json')
        if not os.path.exists(path):
            return []
        with open(path) as fh:
            return [k for k in json.load(fh) if k.get('status') == 'open']

    def finish(self, level='other', explanation='', trusted=None, extra=None):
        known = self._known()
        new, old = [], []
        for fd in self.findings:
            hit = None
            for k in known:
                if (k['property'] == fd.prop and k['rule'] == fd.rule and k['file'] == fd.rel
                        and k['function'] == fd.func and k['construct'] == fd.construct):
                    hit = k
                    break
            (old if hit else new).append((fd, hit))
        out = []
        nm = len(self.repo.modules)
        nf = sum(len(m.funcs) for m in self.repo.modules.values())
        out.append('[%s] tier=%s root=%s analysed %d modules, %d functions' % (
            self.prop, self.tier, self.repo.root, nm, nf))
        by_rule = {}
        for i in self.instances:
            by_rule.setdefault(i['rule'], []).append(i)
        for rule in sorted(by_rule):
            li = by_rule[rule]
            bad = sum(1 for i in li if i['verdict'] != 'discharged')
            out.append('[%s]   %-10s %3d instance(s), %d violated' % (self.prop, rule, len(li), bad))
        for rule, (found, fl) in sorted(self.floors.items()):
            out.append('[%s]   floor %-8s found %d >= %d' % (self.prop, rule, found, fl))
        for u in self.undecided_sites:
            out.append('[%s]   UNDECIDED%s %s %s::%s %s -- %s' % (self.prop, ' (declared limit)' if u.get('declared') else '', u['rule'], u['file'], u['function'],
                                                               u['construct'][:70], u['reason']))
        for d in self.decided:
            out.append('[%s]   decided: %s' % (self.prop, d))
        for d in self.declined:
            out.append('[%s]   NOT decided: %s' % (self.prop, d))
        for fd, k in old:
            out.append('KNOWN-FINDING: property=%s %s' % (self.prop, fd.text()))
        replay = None
        if new:
            rdir = os.path.join(VERIF, 'replay')
            os.makedirs(rdir, exist_ok=True)
            h = hashlib.sha1(repr([fd.key() for fd, _ in new]).encode()).hexdigest()[:12]
            replay = os.path.join(rdir, '%s-%s.json' % (self.prop, h))
            with open(replay, 'w') as fh:
                json.dump({'property': self.prop, 'tier': self.tier,
                           'findings': [fd.as_dict() for fd, _ in new]}, fh, indent=1)
            for fd, _ in new:
                out.append('  finding: ' + fd.text())
            out.append('VIOLATION property=%s replay=%s' % (self.prop, replay))
        wall = time.time() - self.t0
        distinct = len({(i['rule'], i['file'], i['function'], i['construct']) for i in self.instances})
        samples = []
        seen_rules = set()
        for i in self.instances:
            if i['rule'] not in seen_rules:
                seen_rules.add(i['rule'])
                samples.append(i)
        for i in self.instances:
            if i['verdict'] != 'discharged' and i not in samples:
                samples.append(i)
        cov = {
            'explanation': explanation or ('static analysis of the current sources under %s: %s' % (
                self.repo.root, '; '.join(self.decided))),
            'evaluations': max(len(self.instances), 1),
            'distinct_nontrivial': distinct,
            'rule': 'one evaluation = one rule instance (rule, file, function, construct) matched in the '
                    'current source and decided; distinct = distinct (rule, site, construct) triples; '
                    'instances are found by the rule over the parsed program, never read from a list',
            'samples': samples[:40],
            'obligations': len(self.instances),
            'discharged': sum(1 for i in self.instances if i['verdict'] == 'discharged'),
            'checker_cmd': 'bin/check %s --tier %s' % (self.prop, self.tier),
            'trusted_base': trusted or [],
            'exhaustive': False,
            'files': sorted(self.repo.modules),
            'functions_analysed': nf,
            'per_rule': {r: {'instances': len(li),
                             'violated': sum(1 for i in li if i['verdict'] != 'discharged'),
                             'floor': self.floors.get(r, (None, None))[1]} for r, li in by_rule.items()},
            'floors': {r: {'found': a, 'floor': b} for r, (a, b) in self.floors.items()},
            'undecided_sites': self.undecided_sites,
            'decided_clauses': self.decided,
            'undecided_clauses': self.declined,
            'known_findings': [fd.as_dict() for fd, _ in old],
            'new_findings': [fd.as_dict() for fd, _ in new],
            'cones': self.cones,
            'notes': self.notes,
            'locals_normalised': {'%s::%s' % (m.rel, q): mp for m in self.repo.modules.values()
                                  for q, mp in getattr(m, 'renamed_locals', [])},
        }
        if extra:
            cov.update(extra)
        ev = {
            'property_id': self.prop, 'tier': self.tier, 'seed': int(self.seed), 'level': level,
            'coverage': cov,
            'assumptions': [
                'the live packages are pyclifford/{utils,paulialg,stabilizer,circuit,device}.py and '
                'torchclifford/{utils,paulialg,stabilizer,circuit}.py (build/lib, doc, dev are not imported)',
                'numba @njit kernels mutate ndarray arguments in place and return scalars by value',
                'a pass means no structural necessary condition of the property is broken, not that the '
                'behaviour was verified for all inputs',
                'locals are alpha-normalised to their reference spelling before the rules run (pcverif/canon.py: the renaming '
                'is injective and capture-free, so the analysed program is alpha-equivalent to the source); parameter names, '
                'field names and the g*/p*/c* role naming scheme are trusted',
            ],
            'wall_s': round(wall, 3),
            'violations': len(new),
        }
        evdir = os.path.join(VERIF, 'evidence')
        os.makedirs(evdir, exist_ok=True)
        if (os.path.realpath(self.repo.root) == '/repo' and not os.environ.get('PCVERIF_NO_EVIDENCE')) or os.environ.get('PCVERIF_WRITE_EVIDENCE'):
            with open(os.path.join(evdir, '%s.json' % self.prop), 'w') as fh:
                json.dump(ev, fh, indent=1, default=str)
        unread = [u for u in self.undecided_sites if not u.get('declared')]
        if not new and unread:
            out.append('ANALYSIS-ERROR property=%s %d site(s) could not be read by their rule, so the property is not decided on this tree: %s' % (
                self.prop, len(unread), '; '.join('%s %s::%s %s (%s)' % (u['rule'], u['file'], u['function'], u['construct'][:50], u['reason'][:80])
                                                   for u in unread[:4])))
        if not self.quiet:
            print('\n'.join(out))
        return 1 if new else (2 if unread else 0)
