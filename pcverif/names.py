"""Def-use helpers that let the rules find locals by their role in the code instead of by their spelling."""
import ast

from .flow import walk, assigned_pairs
from .model import norm


def single_def(f, name):
    """The value expression of the only assignment of local `name` (tuple pairs resolved), else None."""
    vals = []
    for st, ctx in walk(f.node):
        if isinstance(st, ast.Assign):
            for t, v in assigned_pairs(st):
                if isinstance(t, ast.Name) and t.id == name:
                    vals.append(v)
        elif isinstance(st, (ast.AugAssign,)) and isinstance(st.target, ast.Name) and st.target.id == name:
            vals.append(None)
        elif isinstance(st, ast.For):
            for t in ast.walk(st.target):
                if isinstance(t, ast.Name) and t.id == name:
                    vals.append(None)
    if len(vals) == 1 and vals[0] is not None and not isinstance(vals[0], tuple):
        return vals[0]
    return None


def deref(f, node, depth=3):
    """Copy propagation: a Name with a single definition is replaced by that definition."""
    while depth > 0 and isinstance(node, ast.Name) and node.id not in f.params:
        v = single_def(f, node.id)
        if v is None:
            break
        node = v
        depth -= 1
    return node


def return_names(f):
    """Names of the elements of the returned tuple (None for non-name elements); [] if no unique shape."""
    rets = [st.value for st, _ in walk(f.node) if isinstance(st, ast.Return) and st.value is not None]
    if not rets:
        return []
    shapes = set()
    for r in rets:
        elts = r.elts if isinstance(r, ast.Tuple) else [r]
        shapes.add(tuple(e.id if isinstance(e, ast.Name) else None for e in elts))
    if len(shapes) != 1:
        return []
    return list(shapes.pop())


def name_assigned_from(f, pred):
    """First local Name whose assigned value satisfies pred(value node)."""
    for st, ctx in walk(f.node):
        if isinstance(st, ast.Assign):
            for t, v in assigned_pairs(st):
                if isinstance(t, ast.Name) and not isinstance(v, tuple) and pred(v):
                    return t.id
    return None
