"""Def-use helpers that let the rules find locals by their role in the code instead of by their spelling."""
import ast

from .flow import walk, assigned_pairs
from .model import norm


def single_def(f, name):
    """The value expression of the only assignment of local `name` (tuple pairs resolved), else None."""
    vals = []
    for st, ctx in walk(f.node):
        if isinstance(st, ast.Assign):
            for t, v in assigned_pairs(st):
                if isinstance(t, ast.Name) and t.id == name:
                    vals.append(v)
        elif isinstance(st, (ast.AugAssign,)) and isinstance(st.target, ast.Name) and st.target.id == name:
            vals.append(None)
        elif isinstance(st, ast.For):
            for t in ast.walk(st.target):
                if isinstance(t, ast.Name) and t.id == name:
                    vals.append(None)
    if len(vals) == 1 and vals[0] is not None and not isinstance(vals[0], tuple):
        return vals[0]
    return None


def deref(f, node, depth=3):
    """Copy propagation: a Name with a single definition is replaced by that definition."""
    while depth > 0 and isinstance(node, ast.Name) and node.id not in f.params:
        v = single_def(f, node.id)
        if v is None:
            break
        node = v
        depth -= 1
    return node


def return_names(f):
    """Names of the elements of the returned tuple (None for non-name elements); [] if no unique shape."""
    rets = [st.value for st, _ in walk(f.node) if isinstance(st, ast.Return) and st.value is not None]
    if not rets:
        return []
    shapes = set()
    for r in rets:
        elts = r.elts if isinstance(r, ast.Tuple) else [r]
        shapes.add(tuple(e.id if isinstance(e, ast.Name) else None for e in elts))
    if len(shapes) != 1:
        return []
    return list(shapes.pop())


def name_assigned_from(f, pred):
    """First local Name whose assigned value satisfies pred(value node)."""
    for st, ctx in walk(f.node):
        if isinstance(st, ast.Assign):
            for t, v in assigned_pairs(st):
                if isinstance(t, ast.Name) and not isinstance(v, tuple) and pred(v):
                    return t.id
    return None


# ------------------------------------------------------------------------------------------------------------------------
# flow-insensitive local dependence closure
MUTATORS = {'append', 'extend', 'add', 'insert', 'update', 'appendleft'}


def local_deps(f):
    """{local name: set of atoms} -- what a local may depend on, closed over assignments, augmented assignments, loop and
    comprehension targets (they depend on the iterable), container mutators (`x.append(y)`: x depends on y) and element
    stores (`x[i] = y`).  Atoms: ('attr', name) for every attribute read, ('call', function name) for every call,
    ('param', name), ('const', value) for constants, ('sub',) for subscripts.  May-dependence: an atom that is absent
    proves that the value cannot depend on it."""
    direct = {}

    def atoms_of(e):
        at, names = set(), set()
        for n in ast.walk(e):
            if isinstance(n, ast.Attribute):
                at.add(('attr', n.attr))
            elif isinstance(n, ast.Call):
                at.add(('call', norm(n.func).split('.')[-1]))
            elif isinstance(n, ast.Name) and isinstance(n.ctx, ast.Load):
                names.add(n.id)
            elif isinstance(n, ast.Constant) and isinstance(n.value, (int, float, complex, str)) and not isinstance(n.value, bool):
                at.add(('const', n.value))
        return at, names

    def add(target_name, e):
        at, names = atoms_of(e)
        d = direct.setdefault(target_name, [set(), set()])
        d[0] |= at
        d[1] |= names

    def targets(t):
        for n in ast.walk(t):
            if isinstance(n, ast.Name):
                yield n.id

    for n in ast.walk(f.node):
        if isinstance(n, ast.Assign):
            for t in n.targets:
                if isinstance(t, (ast.Subscript, ast.Attribute)):
                    r = t
                    while isinstance(r, (ast.Subscript, ast.Attribute)):
                        r = r.value
                    if isinstance(r, ast.Name):
                        add(r.id, n.value)
                else:
                    for x in targets(t):
                        add(x, n.value)
        elif isinstance(n, ast.AugAssign):
            r = n.target
            while isinstance(r, (ast.Subscript, ast.Attribute)):
                r = r.value
            if isinstance(r, ast.Name):
                add(r.id, n.value)
        elif isinstance(n, (ast.For, ast.comprehension)):
            for x in targets(n.target):
                add(x, n.iter)
        elif isinstance(n, ast.Call) and isinstance(n.func, ast.Attribute) and n.func.attr in MUTATORS and isinstance(n.func.value, ast.Name):
            for a in n.args:
                add(n.func.value.id, a)
        elif isinstance(n, ast.NamedExpr):
            for x in targets(n.target):
                add(x, n.value)
    out = {}
    for p in f.params:
        out[p] = {('param', p)}

    def close(name, seen):
        if name in out and name not in direct:
            return out[name]
        if name in seen:
            return set()
        seen = seen | {name}
        res = set(out.get(name, set()))
        d = direct.get(name)
        if d:
            res |= d[0]
            for m in d[1]:
                res |= close(m, seen)
        return res
    return {name: close(name, frozenset()) for name in set(direct) | set(f.params)}


def expr_deps(f, e, deps=None):
    """Atoms an expression may depend on (its own attribute reads / calls plus the closure of the names it mentions)."""
    deps = deps if deps is not None else local_deps(f)
    res = set()
    for n in ast.walk(e):
        if isinstance(n, ast.Attribute):
            res.add(('attr', n.attr))
        elif isinstance(n, ast.Call):
            res.add(('call', norm(n.func).split('.')[-1]))
        elif isinstance(n, ast.Name) and isinstance(n.ctx, ast.Load):
            res |= deps.get(n.id, {('param', n.id)} if n.id in f.params else set())
        elif isinstance(n, ast.Constant) and isinstance(n.value, (int, float, complex, str)) and not isinstance(n.value, bool):
            res.add(('const', n.value))
    return res


def update_of(st):
    """(name, operator class, operand) for `x = x op e`, `x = e op x` (commutative op) and `x op= e`; else None."""
    if isinstance(st, ast.AugAssign) and isinstance(st.target, ast.Name):
        return st.target.id, type(st.op), st.value
    if isinstance(st, ast.Assign) and len(st.targets) == 1 and isinstance(st.targets[0], ast.Name) and isinstance(st.value, ast.BinOp):
        x = st.targets[0].id
        b = st.value
        if isinstance(b.left, ast.Name) and b.left.id == x:
            return x, type(b.op), b.right
        if isinstance(b.right, ast.Name) and b.right.id == x and isinstance(b.op, (ast.Add, ast.Mult)):
            return x, type(b.op), b.left
    return None


def allzero_polarity(test, name):
    """True if `test` holds exactly when the array `name` is all zero, False if exactly when it is not, None if not recognised.
    Read forms: (x == 0).all(), not x.any(), numpy.all(x == 0), not numpy.any(x), x.sum() == 0, numpy.count_nonzero(x) == 0."""
    from .exprnf import ev, Undecidable

    def is_name(n):
        return isinstance(n, ast.Name) and n.id == name
    vals = []
    for az in (True, False):
        def call(n, env, rec, az=az):
            fn = n.func
            last = fn.attr if isinstance(fn, ast.Attribute) else (fn.id if isinstance(fn, ast.Name) else '')
            recv = fn.value if isinstance(fn, ast.Attribute) and not (isinstance(fn.value, ast.Name) and fn.value.id in ('numpy', 'np', 'torch')) else None
            arg = recv if recv is not None else (n.args[0] if n.args else None)
            if arg is None:
                raise Undecidable('call')
            eq0 = isinstance(arg, ast.Compare) and len(arg.ops) == 1 and isinstance(arg.ops[0], ast.Eq) and is_name(arg.left) \
                and isinstance(arg.comparators[0], ast.Constant) and arg.comparators[0].value == 0
            ne0 = isinstance(arg, ast.Compare) and len(arg.ops) == 1 and isinstance(arg.ops[0], ast.NotEq) and is_name(arg.left) \
                and isinstance(arg.comparators[0], ast.Constant) and arg.comparators[0].value == 0
            if last == 'all' and eq0:
                return az
            if last == 'any' and (is_name(arg) or ne0):
                return not az
            if last in ('sum', 'count_nonzero') and (is_name(arg) or ne0):
                return 0 if az else 1
            raise Undecidable('call ' + norm(n))
        try:
            vals.append(bool(ev(test, {}, call=call)))
        except Undecidable:
            return None
    if vals == [True, False]:
        return True
    if vals == [False, True]:
        return False
    return None


def is_full_index_range(it, array):
    """`it` iterates 0 .. number of items of `array` - 1: range(len(A)), range(A.shape[0]), range(0, ...)."""
    if not (isinstance(it, ast.Call) and isinstance(it.func, ast.Name) and it.func.id == 'range' and not it.keywords):
        return False
    args = list(it.args)
    if len(args) == 2 and isinstance(args[0], ast.Constant) and args[0].value == 0:
        args = args[1:]
    if len(args) != 1:
        return False
    txt = norm(args[0]).replace(' ', '')
    return txt in ('len(%s)' % array, '%s.shape[0]' % array, '%s.size(0)' % array, '%s.__len__()' % array)


def inlined(f, node, depth=4, ctx=None, skip=()):
    """Copy of an expression in which every local with a single definition is replaced by that definition (recursively,
    depth-limited): the expression in terms of parameters, fields, loop variables and multiply-defined locals only.  For
    comparisons that must not depend on whether a sub-expression was given a name.  With `ctx` (the flow context of the
    statement holding the expression) a local defined several times is read through its nearest preceding definition in the
    same block."""
    import copy

    def block_def(name):
        if ctx is None:
            return None
        for st in reversed(ctx.block[:ctx.index]):
            if isinstance(st, ast.Assign):
                for t, v in assigned_pairs(st):
                    if isinstance(t, ast.Name) and t.id == name and not isinstance(v, tuple):
                        return v
            if any(isinstance(x, ast.Name) and x.id == name and isinstance(x.ctx, ast.Store) for x in ast.walk(st)):
                return None
        return None

    def rec(n, d):
        if isinstance(n, ast.Name) and isinstance(n.ctx, ast.Load) and n.id not in f.params and n.id not in skip and d > 0:
            v = single_def(f, n.id)
            if v is None:
                v = block_def(n.id)
            if v is not None:
                return rec(copy.deepcopy(v), d - 1)
            return n
        for fld, val in ast.iter_fields(n):
            if isinstance(val, ast.AST):
                setattr(n, fld, rec(val, d))
            elif isinstance(val, list):
                setattr(n, fld, [rec(x, d) if isinstance(x, ast.AST) else x for x in val])
        return n
    return rec(copy.deepcopy(node), depth)


def itext(f, node, skip=()):
    """Normalised text (no blanks) of inlined(f, node)."""
    return norm(inlined(f, node, skip=skip)).replace(' ', '')


class _Arr:
    """A tiny nested-list array for evaluating tests such as (g == 0).all(), (g == 0).all(-1).any() on a small model."""
    def __init__(self, v):
        self.v = v

    def _map(self, f):
        def rec(x):
            return [rec(y) for y in x] if isinstance(x, list) else f(x)
        return _Arr(rec(self.v))

    def __eq__(self, o):
        return self._map(lambda x: x == o)

    def __ne__(self, o):
        return self._map(lambda x: x != o)

    def __invert__(self):
        return self._map(lambda x: not x)

    def _flat(self):
        out = []

        def rec(x):
            if isinstance(x, list):
                for y in x:
                    rec(y)
            else:
                out.append(x)
        rec(self.v)
        return out

    def reduce(self, fn, axis=None):
        if axis is None:
            return fn(self._flat())
        if axis in (-1, 1) and self.v and isinstance(self.v[0], list):
            return _Arr([fn(row) for row in self.v])
        if axis in (-1, 0) and (not self.v or not isinstance(self.v[0], list)):
            return fn(self.v)
        raise ValueError('axis')

    def __bool__(self):
        f = self._flat()
        if len(f) != 1:
            raise ValueError('truth value of an array')
        return bool(f[0])


def batched_resample_keeps_going(f, test, name, ctx=None):
    """Does the resampling test hold on a batch [[0,0],[1,1]] of `name`, whose first row is the identity string?  (True: the loop
    goes on, as it must; False: it stops although one row is still all zero; None: the test is not in a form this reads.)"""
    from .exprnf import ev, Undecidable
    model = _Arr([[0, 0], [1, 1]])

    def call(n, env, rec):
        fn = n.func
        if isinstance(fn, ast.Attribute) and fn.attr in ('all', 'any', 'sum'):
            def arr(node):
                # an elementwise comparison of the array with a constant (the evaluator's own comparison wants a truth value)
                if isinstance(node, ast.Compare) and len(node.ops) == 1 and isinstance(node.ops[0], (ast.Eq, ast.NotEq)):
                    a, b = rec(node.left), rec(node.comparators[0])
                    if isinstance(a, _Arr):
                        return (a == b) if isinstance(node.ops[0], ast.Eq) else (a != b)
                return rec(node)
            if isinstance(fn.value, ast.Name) and fn.value.id in ('numpy', 'np', 'torch'):
                base, args = arr(n.args[0]), n.args[1:]
            else:
                base, args = arr(fn.value), n.args
            axis = None
            for a in args:
                axis = rec(a)
            for k in n.keywords:
                if k.arg in ('dim', 'axis'):
                    axis = rec(k.value)
            if not isinstance(base, _Arr):
                raise Undecidable('reduction of a non-array')
            red = {'all': all, 'any': any, 'sum': sum}[fn.attr]
            try:
                return base.reduce(red, axis)
            except ValueError:
                raise Undecidable('axis')
        raise Undecidable('call ' + norm(n))
    e = inlined(f, test, ctx=ctx, skip=(name,))
    try:
        v = ev(e, {name: model}, call=call)
        return bool(v)
    except (Undecidable, ValueError, TypeError):
        return None
