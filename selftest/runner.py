"""Self-test of the checker: single-edit mutants of the analysed sources (must be reported by the named
property check) and benign twins (must stay silent).  Each variant lives in a fresh temporary directory
outside /repo and /verif which is removed immediately after the check ran on it.

usage: python -m selftest.runner [--jobs N] [--prop Cxx] [--id substring]
"""
import argparse
import concurrent.futures
import io
import os
import shutil
import sys
import tempfile
import contextlib

HERE = os.path.dirname(os.path.abspath(__file__))
sys.path.insert(0, os.path.dirname(HERE))

from pcverif.model import LIVE, AnalysisError  # noqa: E402


def make_variant(root, edits):
    """Copy the live modules of `root` into a temp dir and apply edits [(rel, old, new)].
    Returns (tmpdir, None) or (None, reason) when an anchor text is absent / ambiguous."""
    tmp = tempfile.mkdtemp(prefix='pcverif-selftest-')
    try:
        for pkg, names in LIVE.items():
            os.makedirs(os.path.join(tmp, pkg))
            for n in names:
                shutil.copy(os.path.join(root, pkg, n + '.py'), os.path.join(tmp, pkg, n + '.py'))
        for ed in edits:
            if ed[0] == 'PATCH':
                import subprocess
                r = subprocess.run(['git', 'apply', '--whitespace=nowarn', ed[1]], cwd=tmp, capture_output=True, text=True)
                if r.returncode != 0:
                    shutil.rmtree(tmp, ignore_errors=True)
                    return None, 'patch does not apply: %s' % r.stderr.strip()[:200]
                continue
            rel, old, new = ed[:3]
            scope = ed[3] if len(ed) > 3 else None
            path = os.path.join(tmp, rel)
            src = open(path).read()
            lo, hi = 0, len(src)
            if scope:
                span = scope_span(src, scope)
                if span is None:
                    shutil.rmtree(tmp, ignore_errors=True)
                    return None, 'scope %s not found in %s' % (scope, rel)
                lo, hi = span
            seg = src[lo:hi]
            if seg.count(old) != 1:
                shutil.rmtree(tmp, ignore_errors=True)
                return None, 'anchor text occurs %d times in %s%s' % (seg.count(old), rel, ('::' + scope) if scope else '')
            src = src[:lo] + seg.replace(old, new) + src[hi:]
            try:
                compile(src, path, 'exec')
            except SyntaxError as e:
                shutil.rmtree(tmp, ignore_errors=True)
                return None, 'variant does not compile: %s' % e
            open(path, 'w').write(src)
        return tmp, None
    except Exception as e:
        shutil.rmtree(tmp, ignore_errors=True)
        return None, 'cannot build variant: %s' % e


def scope_span(src, qual):
    """Character span of a top-level function or Class.method."""
    import ast
    tree = ast.parse(src)
    parts = qual.split('.')
    body = tree.body
    node = None
    for part in parts:
        node = None
        for st in body:
            if isinstance(st, (ast.FunctionDef, ast.ClassDef)) and st.name == part:
                node = st
                break
        if node is None:
            return None
        body = node.body
    lines = src.splitlines(keepends=True)
    start = sum(len(l) for l in lines[:node.lineno - 1])
    end = sum(len(l) for l in lines[:node.end_lineno])
    return start, end


def run_one(args):
    case, root = args
    from pcverif.cli import run_property
    tmp, why = make_variant(root, case['edits'])
    if tmp is None:
        return (case['id'], 'skipped', why, [])
    res = []
    try:
        import importlib.util
        for prop in case['props']:
            if importlib.util.find_spec('pcverif.props.%s' % prop) is None:
                continue
            buf = io.StringIO()
            try:
                with contextlib.redirect_stdout(buf):
                    code, run = run_property(prop, 'quick', tmp, quiet=True)
                rules = {fd.rule for fd in run.findings}
                # an R13.sibling finding wraps the rule that one of the two packages breaks
                import re as _re
                for fd in run.findings:
                    if fd.rule == 'R13.sibling':
                        m = _re.match(r'rule (\S+) is violated', fd.msg)
                        if m:
                            rules.add(m.group(1))
                rules = sorted(rules)
                sites = ['%s %s::%s' % (fd.rule, fd.rel, fd.func) for fd in run.findings]
            except AnalysisError as e:
                code, rules, sites = 2, [], [str(e)]
            except Exception as e:
                import traceback
                code, rules, sites = 2, [], ['INTERNAL ' + traceback.format_exc()[-400:]]
            res.append((prop, code, rules, sites))
    finally:
        shutil.rmtree(tmp, ignore_errors=True)
    kind = case.get('kind', 'mutant')
    if kind == 'mutant':
        ok = all(code == 1 for _, code, _, _ in res)
        if ok and case.get('rules'):
            ok = any(any(r.startswith(w) for r in rules for w in case['rules']) for _, _, rules, _ in res)
        return (case['id'], 'killed' if ok else 'SURVIVED', '', res)
    if kind == 'noviolation':
        # a behaviour-preserving rewrite so deep that a rule may decline to read it (ANALYSIS-ERROR, exit 2); what must never
        # happen is a VIOLATION
        ok = all(code in (0, 2) for _, code, _, _ in res)
        return (case['id'], 'silent' if ok else 'FALSE-ALARM', '', res)
    ok = all(code == 0 for _, code, _, _ in res)
    return (case['id'], 'silent' if ok else 'FALSE-ALARM', '', res)


def run_cases(cases, root='/repo', jobs=16):
    if jobs > 1 and len(cases) > 1:
        # workers are replaced after a few cases: the analyser keeps per-tree caches that are never needed again once a variant
        # is done, and a long run of several hundred variants in one process would otherwise grow without bound
        out = []
        step = jobs * 4
        for k in range(0, len(cases), step):
            with concurrent.futures.ProcessPoolExecutor(max_workers=jobs) as ex:
                out.extend(ex.map(run_one, [(c, root) for c in cases[k:k + step]]))
        return out
    return [run_one((c, root)) for c in cases]


def validate(prop, root):
    """Thorough tier hook: the property's own mutants must be killed and its benign twins stay silent."""
    from selftest.corpus import CASES
    cases = [dict(c, props=[prop]) for c in CASES if prop in c['props']]
    results = run_cases(cases, root=root, jobs=min(16, os.cpu_count() or 4))
    bad = [r for r in results if r[1] in ('SURVIVED', 'FALSE-ALARM')]
    skipped = [r for r in results if r[1] == 'skipped']
    print('[%s] self-validation: %d variant(s): %d killed, %d silent, %d skipped (anchor absent), %d wrong' % (
        prop, len(results), sum(r[1] == 'killed' for r in results), sum(r[1] == 'silent' for r in results),
        len(skipped), len(bad)))
    for r in skipped:
        print('[%s]   skipped %s: %s' % (prop, r[0], r[2]))
    for r in bad:
        print('[%s]   %s %s %r' % (prop, r[1], r[0], r[3]))
    summary = {'variants': len(results), 'killed': sum(r[1] == 'killed' for r in results),
               'benign_silent': sum(r[1] == 'silent' for r in results), 'skipped_anchor_absent': [r[0] for r in skipped],
               'wrong': [(r[0], r[1]) for r in bad],
               'samples': [{'id': r[0], 'verdict': r[1], 'findings': [s for _, _, _, ss in r[3] for s in ss][:3]} for r in results[:12]]}
    if bad:
        print('ANALYSIS-ERROR property=%s the checker failed its self-validation (see above)' % prop)
        return 2, summary
    return 0, summary


def main():
    ap = argparse.ArgumentParser()
    ap.add_argument('--jobs', type=int, default=16)
    ap.add_argument('--prop')
    ap.add_argument('--id')
    ap.add_argument('--root', default='/repo')
    ap.add_argument('-v', action='store_true')
    a = ap.parse_args()
    from selftest.corpus import CASES
    cases = [c for c in CASES if (not a.prop or a.prop in c['props']) and (not a.id or a.id in c['id'])]
    if a.prop:
        cases = [dict(c, props=[a.prop]) for c in cases]
    results = run_cases(cases, root=a.root, jobs=a.jobs)
    bad = 0
    for r in results:
        flag = r[1]
        if flag in ('SURVIVED', 'FALSE-ALARM'):
            bad += 1
        if a.v or flag in ('SURVIVED', 'FALSE-ALARM', 'skipped'):
            print('%-12s %-40s %s %s' % (flag, r[0], r[2], [(p, c, rl) for p, c, rl, _ in r[3]]))
            if a.v or flag != 'skipped':
                for p, c, rl, sites in r[3]:
                    for s in sites[:6]:
                        print('      ', p, s)
    print('%d variants: %d killed, %d silent, %d skipped, %d wrong' % (
        len(results), sum(r[1] == 'killed' for r in results), sum(r[1] == 'silent' for r in results),
        sum(r[1] == 'skipped' for r in results), bad))
    return 1 if bad else 0


if __name__ == '__main__':
    sys.exit(main())
