"""Mutant / benign-twin corpus.  Each case: id, props (checks expected to react), edits [(file, old, new)],
kind 'mutant' (default; every listed check must report a VIOLATION) or 'benign' (every listed check must
pass), optional rules (prefixes of rule ids, one of which must be among the findings)."""

PU, PP, PS, PC, PD = ('pyclifford/utils.py', 'pyclifford/paulialg.py', 'pyclifford/stabilizer.py',
                      'pyclifford/circuit.py', 'pyclifford/device.py')
TU, TP, TS, TC = ('torchclifford/utils.py', 'torchclifford/paulialg.py', 'torchclifford/stabilizer.py',
                  'torchclifford/circuit.py')

CASES = []


def M(id, props, file, old, new, rules=None, scope=None):
    CASES.append({'id': id, 'props': props if isinstance(props, list) else [props],
                  'edits': [(file, old, new, scope)], 'kind': 'mutant', 'rules': rules})


def B(id, props, file, old, new, scope=None):
    CASES.append({'id': id, 'props': props if isinstance(props, list) else [props],
                  'edits': [(file, old, new, scope)], 'kind': 'benign'})


# ------------------------------------------------------------------ C01
M('c01-ipow-sign', ['C01'], PU, 'ipow += g1z * g2x - g1x * g2z + 2*', 'ipow += g1x * g2z - g1z * g2x + 2*', ['R8'])
M('c01-ipow-drop2', ['C01'], PU, '+ 2*((gx//2) * gz + gx * (gz//2))', '+ ((gx//2) * gz + gx * (gz//2))', ['R8'])
M('c01-acq-index', ['C01'], PU, 'acq += g1[2*i+1]*g2[2*i] - g1[2*i]*g2[2*i+1]', 'acq += g1[2*i+1]*g2[2*i] - g1[2*i]*g2[2*i]', ['R8'])
M('c01-acq-mod', ['C01'], PU, '    return acq % 2', '    return acq % 4', ['R8'])
M('c01-ipow-init', ['C01'], PU, '    ipow = 0\n', '    ipow = 1\n', ['R8'])
M('c01-acq-slot', ['C01'], PU, 'acq += g1[2*i+1]*g2[2*i]', 'acq += g1[2*i+2]*g2[2*i]', ['R8'])
M('c01-matmul-drop-p', ['C01'], PP, 'p = (self.p + other.p + ipow(self.g, other.g)) % 4', 'p = (self.p + ipow(self.g, other.g)) % 4', ['R7e'])
M('c01-matmul-swap', ['C01'], PP, 'ipow(self.g, other.g)) % 4', 'ipow(other.g, self.g)) % 4', ['R7c'])
M('c01-batchdot-swap', ['C01'], PU, 'ipow(gs1[j1], gs2[j2]))%4', 'ipow(gs2[j2], gs1[j1]))%4', ['R7c'])
M('c01-batchdot-mod', ['C01'], PU, 'ps[j1,j2] = (ps1[j1] + ps2[j2] + ipow(gs1[j1], gs2[j2]))%4', 'ps[j1,j2] = (ps1[j1] + ps2[j2] + ipow(gs1[j1], gs2[j2]))', ['R7d'])
M('c01-batchdot-noipow', ['C01'], PU, 'ps[j1,j2] = (ps1[j1] + ps2[j2] + ipow(gs1[j1], gs2[j2]))%4', 'ps[j1,j2] = (ps1[j1] + ps2[j2])%4', ['R7a'])
M('c01-tc-ipow-drop2', ['C01', 'C13'], TU, "    return torch.sum(g1z * g2x - g1x * g2z + 2*(torch.div(gx, 2, rounding_mode='floor') * gz + gx * torch.div(gz, 2, rounding_mode='floor')), dim=-1) % 4", "    return torch.sum(g1z * g2x - g1x * g2z, dim=-1) % 4", ['R8'])
M('c01-tc-acq-slice', ['C01'], TU, '    gz1, gz2 = g1[...,1::2], g2[...,1::2]\n    return torch.sum(', '    gz1, gz2 = g1[...,1::2], g2[...,::2]\n    return torch.sum(', ['R8'])
M('c01-tc-bcast', ['C01'], TU, 'cs = (cs1.unsqueeze(1)*cs2.unsqueeze(0)).view(-1,)', 'cs = (cs1.unsqueeze(0)*cs2.unsqueeze(1)).view(-1,)', ['R13'])
M('c01-tc-repeat', ['C01'], TU, 'g1[...,1::2].repeat(1, L2).view(L1*L2, -1)', 'g1[...,1::2].repeat(L2, 1).view(L1*L2, -1)', ['R13'])
M('c01-poly-order', ['C01'], PP, 'batch_dot(self.gs, self.ps, self.cs, other.gs, other.ps, other.cs)', 'batch_dot(other.gs, other.ps, other.cs, self.gs, self.ps, self.cs)', ['R2'])
M('c01-poly-owner', ['C01'], PP, 'batch_dot(self.gs, self.ps, self.cs, other.gs, other.ps, other.cs)', 'batch_dot(self.gs, other.ps, self.cs, other.gs, self.ps, other.cs)', ['R2'])
M('c01-coef', ['C01'], PU, 'cs[j1,j2] = cs1[j1] * cs2[j2]', 'cs[j1,j2] = cs1[j1] * cs1[j1]', ['R7.coef'])
B('c01-benign-commute', ['C01'], PU, 'ipow += g1z * g2x - g1x * g2z + 2*((gx//2) * gz + gx * (gz//2))', 'ipow += 2*(gx * (gz//2) + (gx//2) * gz) - g1x * g2z + g2x * g1z')
B('c01-benign-rename', ['C01'], PU, '        acq += g1[2*i+1]*g2[2*i] - g1[2*i]*g2[2*i+1]\n    return acq % 2', '        acq += g1[1+2*i]*g2[i*2] - g1[2*i]*g2[2*i+1]\n    return acq % 2')
B('c01-benign-matmul-order', ['C01'], PP, 'p = (self.p + other.p + ipow(self.g, other.g)) % 4', 'p = (ipow(self.g, other.g) + other.p + self.p) % 4')

# ------------------------------------------------------------------ C02
M('c02-const3', ['C02'], PU, 'ps[j] = (ps[j] + p + 1 + ipow(gs[j], g))%4', 'ps[j] = (ps[j] + p + 3 + ipow(gs[j], g))%4', ['R7c'])
M('c02-order', ['C02'], PU, '            ps[j] = (ps[j] + p + 1 + ipow(gs[j], g))%4\n            gs[j] = (gs[j] + g)%2\n    return gs, ps', '            gs[j] = (gs[j] + g)%2\n            ps[j] = (ps[j] + p + 1 + ipow(gs[j], g))%4\n    return gs, ps', ['R7b'])
M('c02-drop-p', ['C02'], PU, 'ps[j] = (ps[j] + p + 1 + ipow(gs[j], g))%4', 'ps[j] = (ps[j] + 1 + ipow(gs[j], g))%4', ['R7e'])
M('c02-swap-ipow', ['C02'], PU, 'ps[j] = (ps[j] + p + 1 + ipow(gs[j], g))%4', 'ps[j] = (ps[j] + p + 1 + ipow(g, gs[j]))%4', ['R7c'])
M('c02-guard-neg', ['C02'], PU, '        if acq(g, gs[j]):\n            ps[j] = (ps[j] + p + 1', '        if not acq(g, gs[j]):\n            ps[j] = (ps[j] + p + 1', ['R7.guard'])
M('c02-guard-gone', ['C02'], PU, '        if acq(g, gs[j]):\n            ps[j] = (ps[j] + p + 1', '        if True:\n            ps[j] = (ps[j] + p + 1', ['R7.guard'])
M('c02-scatter', ['C02'], PP, '            self.gs[:,mask2], self.ps = clifford_rotate(\n                generator.g, generator.p, self.gs[:,mask2], self.ps)', '            self.gs[:,mask], self.ps = clifford_rotate(\n                generator.g, generator.p, self.gs[:,mask2], self.ps)', ['R5', 'R13'])
M('c02-tile', ['C02'], PP, '            mask2 = numpy.repeat(mask,  2)', '            mask2 = numpy.tile(mask,  2)', ['R13.mask'])
M('c02-genphase', ['C02'], PP, '            clifford_rotate(generator.g, generator.p, self.gs, self.ps)', '            clifford_rotate(generator.g, 0, self.gs, self.ps)', ['R6.gen'])
M('c02-discard-masked', ['C02'], PP, '            self.gs[:,mask2], self.ps = clifford_rotate(\n                generator.g, generator.p, self.gs[:,mask2], self.ps)', '            clifford_rotate(\n                generator.g, generator.p, self.gs[:,mask2], self.ps)', ['R5'])
M('c02-tc-discard', ['C02'], TP, '            self.gs, self.ps = clifford_rotate(generator.g, generator.p, self.gs, self.ps)', '            clifford_rotate(generator.g, generator.p, self.gs, self.ps)', ['R5'])
M('c02-tc-unmasked-phase', ['C02'], TU, 'ps = (ps + (p + 1 + ipow(gs, g.unsqueeze(0))) * mask) % 4', 'ps = (ps + (p + 1 + ipow(gs, g.unsqueeze(0))) * mask + mask*0 + 2*(1-mask)*0 + p) % 4', ['R7'])
M('c02-tc-order', ['C02'], TU, 'ps = (ps + (p + 1 + ipow(gs, g.unsqueeze(0))) * mask) % 4', 'ps = (ps + (p + 1 + ipow(g.unsqueeze(0), gs)) * mask) % 4', ['R7c'])
M('c02-tc-mask', ['C02'], TU, '    mask = acq(g, gs)\n    ps = (ps + (p + 1', '    mask = 1 - acq(g, gs)\n    ps = (ps + (p + 1', ['R7.guard'])
M('c02-map-init', ['C02'], PS, '    ps = numpy.zeros(2*gen.N, dtype=numpy.int_) # initialize', '    ps = numpy.ones(2*gen.N, dtype=numpy.int_) # initialize', ['R12.init'])
M('c02-neg', ['C02'], PP, '    def __neg__(self):\n        return type(self)(self.g, (self.p + 2) % 4)', '    def __neg__(self):\n        return type(self)(self.g, (self.p + 1) % 4)', ['R12.neg'])
M('c02-back', ['C02'], PP, '        result = self.as_list().rotate_by(generator, mask=mask)\n        self.g = result.gs[0]\n        self.p = result.ps[0]', '        result = self.as_list().rotate_by(generator, mask=mask)\n        self.g = result.gs[0]', ['R5.back'])
M('c02-signless-guard', ['C02'], PU, '        if acq(g, gs[j]):\n            gs[j] = (gs[j] + g)%2\n    return gs\n', '        if acq(g, gs[j]) == 0:\n            gs[j] = (gs[j] + g)%2\n    return gs\n', ['R7.guard'])
B('c02-benign-gp3', ['C02'], PU, 'ps[j] = (ps[j] + p + 1 + ipow(gs[j], g))%4', 'ps[j] = (ipow(g, gs[j]) + 3 + p + ps[j])%4')
B('c02-benign-guard', ['C02'], PU, '        if acq(g, gs[j]):\n            ps[j] = (ps[j] + p + 1', '        if acq(gs[j], g) == 1:\n            ps[j] = (ps[j] + p + 1')
B('c02-benign-guard2', ['C02'], PU, '        if acq(g, gs[j]):\n            ps[j] = (ps[j] + p + 1', '        if acq(g, gs[j]) != 0:\n            ps[j] = (ps[j] + p + 1')

# ------------------------------------------------------------------ C03
M('c03-drop-ps0', ['C03'], PU, '    ps_out = (ps_in + ps0(gs_in) + ps_out)%4', '    ps_out = (ps_in + ps_out)%4', ['R6.formula'])
M('c03-combine-swap-stmts', ['C03'], PU, '                ps_out[j_out] = (ps_out[j_out] + ps_in[j_in] + ipow(gs_out[j_out], gs_in[j_in]))%4\n                gs_out[j_out] = (gs_out[j_out] + gs_in[j_in])%2', '                gs_out[j_out] = (gs_out[j_out] + gs_in[j_in])%2\n                ps_out[j_out] = (ps_out[j_out] + ps_in[j_in] + ipow(gs_out[j_out], gs_in[j_in]))%4', ['R7b'])
M('c03-combine-order', ['C03'], PU, 'ipow(gs_out[j_out], gs_in[j_in]))%4', 'ipow(gs_in[j_in], gs_out[j_out]))%4', ['R7c'])
M('c03-combine-desc', ['C03'], PU, '        for j_in in range(L_in):\n            if C[j_out, j_in]:', '        for j_in in range(L_in-1, -1, -1):\n            if C[j_out, j_in]:', ['R10.asc'])
M('c03-combine-select-T', ['C03'], PU, '            if C[j_out, j_in]:', '            if C[j_in, j_out]:', ['R7.select'])
M('c03-combine-drop-phase-in', ['C03'], PU, 'ps_out[j_out] = (ps_out[j_out] + ps_in[j_in] + ipow', 'ps_out[j_out] = (ps_out[j_out] + ipow', ['R7e'])
M('c03-transform-args', ['C03'], PU, '    gs_out, ps_out = pauli_combine(gs_in, gs_map, ps_map)', '    gs_out, ps_out = pauli_combine(gs_map, gs_in, ps_map)', ['R2'])
M('c03-transform-psin', ['C03'], PU, '    gs_out, ps_out = pauli_combine(gs_in, gs_map, ps_map)', '    gs_out, ps_out = pauli_combine(gs_in, gs_map, ps_in)', ['R2'])
M('c03-transform-mod', ['C03'], PU, '    ps_out = (ps_in + ps0(gs_in) + ps_out)%4', '    ps_out = (ps_in + ps0(gs_in) + ps_out)%2', ['R7d'])
M('c03-embed-ps-mask', ['C03'], PS, '        self.ps[mask2] = small_map.ps', '        self.ps[mask] = small_map.ps', ['R13'])
M('c03-embed-tile', ['C03'], PS, '    def embed(self, small_map, mask):\n        \'\'\'Embed a smaller map acting on a subsystem specified by qubit indices.\'\'\'\n        mask2 = numpy.repeat(mask, 2)', '    def embed(self, small_map, mask):\n        \'\'\'Embed a smaller map acting on a subsystem specified by qubit indices.\'\'\'\n        mask2 = numpy.tile(mask, 2)', ['R13.mask'])
M('c03-embed-src', ['C03'], PS, '        self.ps[mask2] = small_map.ps', '        self.ps[mask2] = self.ps[mask2]', ['R2.embed'])
M('c03-transformby-scatter', ['C03'], PP, '            self.gs[:,mask2], self.ps = pauli_transform(\n                self.gs[:,mask2], self.ps, clifford_map.gs, clifford_map.ps)', '            self.gs[:,mask2], self.ps = pauli_transform(\n                self.gs[:,mask], self.ps, clifford_map.gs, clifford_map.ps)', ['R5', 'R13'])
M('c03-transformby-swap', ['C03'], PP, '            self.gs, self.ps = pauli_transform(self.gs, self.ps, \n                clifford_map.gs, clifford_map.ps)', '            self.gs, self.ps = pauli_transform(clifford_map.gs, clifford_map.ps, \n                self.gs, self.ps)', ['R2'])
M('c03-transformby-owner', ['C03'], PP, '            self.gs, self.ps = pauli_transform(self.gs, self.ps, \n                clifford_map.gs, clifford_map.ps)', '            self.gs, self.ps = pauli_transform(self.gs, clifford_map.ps, \n                clifford_map.gs, self.ps)', ['R2'])
M('c03-tc-ps0', ['C03', 'C13'], TU, "    return torch.sum(gs[...,::2] * gs[...,1::2], dim=-1) % 4", "    return torch.sum(gs[...,::2] + gs[...,1::2], dim=-1) % 4", ['R8'])
M('c03-ps0-slot', ['C03'], PU, 'ps0[j] += gs[j,2*i] * gs[j,2*i+1]', 'ps0[j] += gs[j,2*i] * gs[j,2*i]', ['R8'])
M('c03-start', ['C03'], PU, '    ps_out = numpy.zeros((L_out,), dtype=numpy.int_)\n    for j_out', '    ps_out = numpy.ones((L_out,), dtype=numpy.int_)\n    for j_out', ['R7.start'])
B('c03-benign-formula', ['C03'], PU, '    ps_out = (ps_in + ps0(gs_in) + ps_out)%4', '    ps_out = (ps_out + ps_in + ps0(gs_in))%4')

# ------------------------------------------------------------------ C17
M('c17-pauli-copy', ['C17'], PP, '        return Pauli(self.g.copy(), self.p)', '        return Pauli(self.g, self.p)', ['R4c'])
M('c17-list-copy', ['C17'], PP, '        return PauliList(self.gs.copy(), self.ps.copy())', '        return PauliList(self.gs.copy(), self.ps)', ['R4c'])
M('c17-poly-copy-cs', ['C17'], PP, '.set_cs(self.cs.copy())', '.set_cs(self.cs)', ['R4c'])
M('c17-poly-copy-nocs', ['C17'], PP, '        return PauliPolynomial(self.gs.copy(), self.ps.copy()).set_cs(self.cs.copy())', '        return PauliPolynomial(self.gs.copy(), self.ps.copy())', ['R4d'])
M('c17-mono-copy', ['C17'], PP, '        return PauliMonomial(self.g.copy(), self.p).set_c(self.c)', '        return PauliMonomial(self.g.copy(), self.p)', ['R4d'])
M('c17-map-copy', ['C17'], PS, '        return CliffordMap(self.gs.copy(), self.ps.copy())', '        return CliffordMap(self.gs.copy())', ['R4d'])
M('c17-state-copy-r', ['C17'], PS, '        return StabilizerState(self.gs.copy(), self.ps.copy()).set_r(self.r)', '        return StabilizerState(self.gs.copy(), self.ps.copy())', ['R4d'])
M('c17-state-copy-view', ['C17'], PS, '        return StabilizerState(self.gs.copy(), self.ps.copy()).set_r(self.r)', '        return StabilizerState(self.gs[:], self.ps.copy()).set_r(self.r)', ['R4c'])
M('c17-state-init-f1', ['C17', 'C05', 'C12'], PS, '    def __init__(self, gs, ps=None, r=0):\n        super(StabilizerState, self).__init__(gs, ps)', '    def __init__(self, gs, r=0, **kwargs):\n        super(StabilizerState, self).__init__(gs, **kwargs)', ['R4d', 'R2'])
M('c17-gate-copy-gen', ['C17'], PC, '            gate.generator = self.generator.copy()', '            gate.generator = self.generator', ['R4c'])
M('c17-gate-copy-map', ['C17'], PC, '            gate.forward_map = self.forward_map.copy()\n        if self.backward_map is not None:\n            gate.backward_map = self.backward_map.copy()\n        return gate', '            gate.forward_map = self.forward_map.copy()\n        return gate', ['R4d'])
M('c17-layer-copy-gates', ['C17'], PC, '        layer = CliffordLayer(*[gate.copy() for gate in self.gates])', '        layer = CliffordLayer(*self.gates)', ['R4c'])
M('c17-circ-copy-layer', ['C17'], PC, '            new_layer = layer.copy()\n            if i == 0:', '            new_layer = layer\n            if i == 0:', ['R4c'])
M('c17-expect-nocopy', ['C17', 'C07'], PS, 'stabilizer_projection_trace(numpy.array(self.gs), numpy.array(self.ps), \\', 'stabilizer_projection_trace(self.gs, numpy.array(self.ps), \\', ['R4a'])
B('c17-benign-obs-view', ['C17', 'C07'], PS, 'numpy.array(obs.gs[obs.r:obs.N,:]), numpy.array(obs.ps[obs.r:obs.N]), 0)', 'numpy.array(obs.gs[obs.r:obs.N,:]), obs.ps[obs.r:obs.N], 0)')
M('c17-snapshot-nocopy', ['C17', 'C19'], PD, '            snapshot = self.state.copy()', '            snapshot = self.state', ['R4a'])
M('c17-compose-inplace', ['C17', 'C04'], PS, '        gs, ps = pauli_transform(self.gs, self.ps, other.gs, other.ps)\n        return CliffordMap(gs, ps)', '        self.gs, self.ps = pauli_transform(self.gs, self.ps, other.gs, other.ps)\n        return self', ['R4a'])
M('c17-entropy-destroy', ['C17'], PU, '        within = L - z2rank(gs[:, ~mask2])', '        within = L - z2rank(gs)', ['R4a'])
M('c17-measure-obs', ['C17'], PS, '        if isinstance(obs, StabilizerState):\n            obs = obs.stabilizers\n        self.gs, self.ps, self.r, out, log2prob = stabilizer_measure(', '        if isinstance(obs, StabilizerState):\n            obs = obs.stabilizers\n        obs.ps[:] = obs.ps % 4\n        self.gs, self.ps, self.r, out, log2prob = stabilizer_measure(', ['R4b'])
M('c17-tc-expect-nocopy', ['C17', 'C07'], TS, 'stabilizer_projection_trace(self.gs.detach().clone(), self.ps.detach().clone(), \\', 'stabilizer_projection_trace(self.gs.detach(), self.ps.detach().clone(), \\', ['R4a'])
M('c17-neg-inplace', ['C17'], PP, '    def __neg__(self):\n        return type(self)(self.gs, (self.ps + 2) % 4)', '    def __neg__(self):\n        self.ps[:] = (self.ps + 2) % 4\n        return self', ['R4a'])
M('c17-rotate-generator', ['C17'], PP, '        if mask is None:\n            clifford_rotate(generator.g, generator.p, self.gs, self.ps)', '        if mask is None:\n            generator.g[:] = generator.g % 2\n            clifford_rotate(generator.g, generator.p, self.gs, self.ps)', ['R4b'])
M('c17-getprob-inplace', ['C17', 'C07'], PS, '        readout_state = identity_map(self.N).to_state()\n        readout_state.ps[:self.N]=2*readout', '        readout_state = self\n        readout_state.ps[:self.N]=2*readout', ['R4a'])
B('c17-benign-array', ['C17'], PP, '        return Pauli(self.g.copy(), self.p)', '        return Pauli(numpy.array(self.g), self.p)')
B('c17-benign-kw', ['C17'], PS, '        return CliffordMap(self.gs.copy(), self.ps.copy())', '        return CliffordMap(gs=self.gs.copy(), ps=self.ps.copy())')

# ------------------------------------------------------------------ C04
M('c04-compose-order', ['C04'], PS, '        gs, ps = pauli_transform(self.gs, self.ps, other.gs, other.ps)\n        return CliffordMap(gs, ps)', '        gs, ps = pauli_transform(other.gs, other.ps, self.gs, self.ps)\n        return CliffordMap(gs, ps)', ['R2'])
M('c04-inverse-sign', ['C04'], PS, '        ps_inv = (- ps_mis - ps0(gs_inv))%4', '        ps_inv = (ps_mis - ps0(gs_inv))%4', ['R6.inverse'])
M('c04-inverse-drop-ps0', ['C04'], PS, '        ps_inv = (- ps_mis - ps0(gs_inv))%4', '        ps_inv = (- ps_mis)%4', ['R6.inverse'])
M('c04-inverse-combine', ['C04'], PS, '        gs_iden, ps_mis = pauli_combine(gs_inv, self.gs, self.ps)', '        gs_iden, ps_mis = pauli_combine(self.gs, gs_inv, self.ps)', ['R2'])
M('c04-inverse-inplace', ['C04', 'C17'], PS, '        gs_inv = z2inv(self.gs)\n', '        gs_inv = z2inv(self.gs)\n        self.ps[:] = self.ps % 4\n', ['R4a'])
M('c04-inverse-return', ['C04'], PS, '        return CliffordMap(gs_inv, ps_inv)', '        return CliffordMap(gs_inv, ps_mis)', ['R2'])
M('c04-identity', ['C04'], PS, '    gs = numpy.eye(2*N, dtype=numpy.int_)\n    return CliffordMap(gs)', '    gs = numpy.eye(2*N, dtype=numpy.int_)\n    return CliffordMap(gs, 2*numpy.ones(2*N, dtype=numpy.int_))', ['R12.identity'])
M('c04-tc-compose-alias', ['C04'], TS, '        gs, ps = pauli_transform(self.gs, self.ps, other.gs, other.ps)\n        return CliffordMap(gs, ps)', '        gs, ps = pauli_transform(self.gs, self.ps, other.gs, other.ps)\n        return CliffordMap(gs, other.ps)', ['R4a', 'R2'])

# ------------------------------------------------------------------ C06  (anchors inside stabilizer_measure: unique by the
# surrounding text of the measurement kernel)
MEAS_HEAD = "    out = numpy.empty(L, dtype=numpy.int_)\n    ga = numpy.empty(2*N, dtype=numpy.int_) # workspace for stabilizer accumulation\n    pa = 0 # workspace for phase accumulation\n    log2prob = 0.\n"
M('c06-drop-r', ['C06'], PS, '        self.gs, self.ps, self.r, out, log2prob = stabilizer_measure(\n            self.gs, self.ps, obs.gs, obs.ps, self.r)', '        self.gs, self.ps, _, out, log2prob = stabilizer_measure(\n            self.gs, self.ps, obs.gs, obs.ps, self.r)', ['R5'])
M('c06-log2prob', ['C06'], PU, '            log2prob -= 1.\n', '            log2prob -= 0.\n', ['R11.coin'])
M('c06-log2prob-del', ['C06'], PU, "            out[k] = ((ps_stb[p] - ps_obs[k])%4)//2 #0->0(+1 eigenvalue), 2->1(-1 eigenvalue)\n            log2prob -= 1.\n", "            out[k] = ((ps_stb[p] - ps_obs[k])%4)//2 #0->0(+1 eigenvalue), 2->1(-1 eigenvalue)\n", ['R11.coin'])
M('c06-coin3', ['C06', 'C16'], PU, '            ps_stb[p] = 2 * numpy.random.randint(2)', '            ps_stb[p] = 2 * numpy.random.randint(3)', ['R15', 'R11'])
M('c06-coin-bit', ['C06', 'C05'], PU, '            ps_stb[p] = 2 * numpy.random.randint(2)', '            ps_stb[p] = numpy.random.randint(2)', ['R3a', 'R11'])
M('c06-decode', ['C06'], PU, "            out[k] = ((ps_stb[p] - ps_obs[k])%4)//2 #0->0", "            out[k] = ((ps_stb[p] - ps_obs[k])%4) #0->0", ['R3.decode'])
M('c06-decode-det', ['C06'], PU, "            assert((ga == gs_obs[k]).all())\n            out[k] = ((pa - ps_obs[k])%4)//2\n    return gs_stb, ps_stb, r, out, log2prob", "            assert((ga == gs_obs[k]).all())\n            out[k] = ((pa + ps_obs[k] + 2)%4)//2\n    return gs_stb, ps_stb, r, out, log2prob", ['R3.decode'])
M('c06-decode-k', ['C06'], PU, "            assert((ga == gs_obs[k]).all())\n            out[k] = ((pa - ps_obs[k])%4)//2\n    return gs_stb, ps_stb, r, out, log2prob", "            assert((ga == gs_obs[k]).all())\n            out[k] = ((pa - ps_obs[0])%4)//2\n    return gs_stb, ps_stb, r, out, log2prob", ['R3.decode'])
M('c06-measure-args', ['C06'], PS, '            self.gs, self.ps, obs.gs, obs.ps, self.r)\n        return out, log2prob', '            self.gs, self.ps, obs.gs, self.ps, self.r)\n        return out, log2prob', ['R2'])
M('c06-tc-drop-r', ['C06'], TS, '        self.gs, self.ps, self.r, out, log2prob = stabilizer_measure(', '        self.gs, self.ps, r, out, log2prob = stabilizer_measure(', ['R5'])

SM = 'stabilizer_measure'
M('c06-pivot-guard', ['C06', 'C05'], PU, 'if j < N + r: # if gs_stb[j] is not an active destabilizer', 'if j < N: # if gs_stb[j] is not an active destabilizer', ['R9.pivot'], SM)
M('c06-pivot-guard-le', ['C06', 'C05'], PU, 'if j < N + r: # if gs_stb[j] is not an active destabilizer', 'if j <= N + r: # if gs_stb[j] is not an active destabilizer', ['R9'], SM)
M('c06-extend-guard', ['C06', 'C05'], PU, 'if not r <= j < N: # if gs_stb[j] is a standby operator', 'if not r < j < N: # if gs_stb[j] is a standby operator', ['R9.extend'], SM)
M('c06-phase-guard', ['C06', 'C05'], PU, 'if j < N: # if gs_stb[j] is a stablizer, phase matters', 'if j < r: # if gs_stb[j] is a stablizer, phase matters', ['R9.phase'], SM)
M('c06-accum-row', ['C06'], PU, 'ga = (ga + gs_stb[j-N])%2', 'ga = (ga + gs_stb[j])%2', ['R9.accum', 'R7'], SM)
M('c06-r-dec', ['C06', 'C05'], PU, '                r -= 1 # rank will reduce under extension\n', '                pass\n', ['R9.block'], SM)
M('c06-order', ['C06', 'C05'], PU, '            gs_stb[q] = gs_stb[p] # move gs_stb[p] to gs_stb[q]\n            gs_stb[p] = gs_obs[k] # add gs_obs[k] to gs_stb[p]', '            gs_stb[p] = gs_obs[k] # add gs_obs[k] to gs_stb[p]\n            gs_stb[q] = gs_stb[p] # move gs_stb[p] to gs_stb[q]', ['R9.block'], SM)
M('c06-partner', ['C06', 'C05'], PU, 'q = (p+N)%(2*N) # get q as dual of p ', 'q = (p+N)%(2*N-1) # get q as dual of p ', ['R9.block'], SM)
M('c06-p-eq-r', ['C06', 'C05'], PU, '# swap q,s\n                p = r', '# swap q,s', ['R9.block'], SM)
M('c06-swap-view', ['C06', 'C05'], PU, 'gs_stb[numpy.array([p,q])] = gs_stb[numpy.array([q,p])] # swap p,q', 'gs_stb[p], gs_stb[q] = gs_stb[q], gs_stb[p] # swap p,q', ['R9.block'], SM)
M('c06-swap-missing', ['C06', 'C05'], PU, '                    gs_stb[numpy.array([q,s])] = gs_stb[numpy.array([s,q])] # swap q,s\n', '', ['R9.block'], SM)
M('c06-row-phase-gone', ['C06'], PU, 'ps_stb[j] = (ps_stb[j] + ps_stb[p] + ipow(gs_stb[j], gs_stb[p]))%4', 'pass', ['R7a'], SM)
M('c06-det-writes', ['C06'], PU, '            assert((ga == gs_obs[k]).all())\n', '            assert((ga == gs_obs[k]).all())\n            log2prob -= 1.\n', ['R11.coin'], SM)
B('c06-benign-guard', ['C06', 'C05'], PU, 'if j < N + r: # if gs_stb[j] is not an active destabilizer', 'if not j >= N + r: # if gs_stb[j] is not an active destabilizer', SM)
B('c06-benign-guard2', ['C06', 'C05'], PU, 'if j < N + r: # if gs_stb[j] is not an active destabilizer', 'if N + r > j: # if gs_stb[j] is not an active destabilizer', SM)
B('c06-benign-extend', ['C06', 'C05'], PU, 'if not r <= j < N: # if gs_stb[j] is a standby operator', 'if j < r or j >= N: # if gs_stb[j] is a standby operator', SM)
B('c06-benign-partner', ['C06', 'C05'], PU, 'q = (p+N)%(2*N) # get q as dual of p ', 'q = p + N if p < N else p - N # get q as dual of p ', SM)

# ------------------------------------------------------------------ C05
SP, ST, SO = 'stabilizer_project', 'stabilizer_projection_trace', 'stabilizer_postselection'
M('c05-project-pivot', ['C05'], PU, 'if j < N + r: # if gs_stb[j] is not an active destabilizer', 'if j < N: # if gs_stb[j] is not an active destabilizer', ['R9.pivot'], SP)
M('c05-project-r', ['C05', 'C12'], PU, '                r -= 1 # rank will reduce under extension\n', '', ['R9.block'], SP)
M('c05-project-extend', ['C05'], PU, 'if not r <= j < N: # if gs_stb[j] is a standby operator', 'if not r <= j <= N: # if gs_stb[j] is a standby operator', ['R9.extend'], SP)
M('c05-project-mod', ['C05'], PU, 'gs_stb[j] = (gs_stb[j] + gs_stb[p])%2 # update gs_stb[j] to commute with gs_obs[k]', 'gs_stb[j] = (gs_stb[j] + gs_stb[p]) # update gs_stb[j] to commute with gs_obs[k]', ['R7d'], SP)
M('c05-trace-swap', ['C05', 'C07'], PU, 'gs_stb[numpy.array([p,r])] = gs_stb[numpy.array([r,p])] # swap p,r', 'gs_stb[numpy.array([p,r])] = gs_stb[numpy.array([r,q])] # swap p,r', ['R9.block'], ST)
M('c05-trace-phase-at', ['C05', 'C07'], PU, '            ps_stb[p] = ps_obs[k]\n            trace = trace/2.', '            ps_stb[q] = ps_obs[k]\n            trace = trace/2.', ['R9.block'], ST)
M('c05-post-pivot', ['C05', 'C14'], PU, '                if j < N: # if gs_stb[j] is not an active destabilizer', '                if j <= N: # if gs_stb[j] is not an active destabilizer', ['R9.pivot'], SO)
M('c05-post-order', ['C05', 'C14'], PU, '        gs_stb[q] = gs_stb[p] # move gs_stb[p] to gs_stb[q]\n        gs_stb[p] = gs_ob # add gs_obs[k] to gs_stb[p]', '        gs_stb[p] = gs_ob # add gs_obs[k] to gs_stb[p]\n        gs_stb[q] = gs_stb[p] # move gs_stb[p] to gs_stb[q]', ['R9.block'], SO)
M('c05-tc-project-guard', ['C05', 'C13'], TU, 'p = torch.logical_and(acqs, indices<N+r).nonzero()\n        if p.shape[0] > 0:\n            p = p[0].item()\n            acqs[0:p+1] = False', 'p = torch.logical_and(acqs, indices<N).nonzero()\n        if p.shape[0] > 0:\n            p = p[0].item()\n            acqs[0:p+1] = False', ['R9.pivot'])
M('c05-tc-project-r', ['C05', 'C13'], TU, '            if not (r <= p < N):\n                r -= 1 # rank will reduce under extension', '            if not (r < p < N):\n                r -= 1 # rank will reduce under extension', ['R9.block'])
M('c05-random-signs', ['C05', 'C16'], PS, '    gs = random_clifford(N) # shape (2*N, 2*N), mapping matrix\n    ps = 2 * numpy.random.randint(0,2,2*N)', '    gs = random_clifford(N) # shape (2*N, 2*N), mapping matrix\n    ps = numpy.random.randint(0,2,2*N)', ['R3a'])
M('c05-one-state', ['C05'], PS, '    ps = (2*numpy.ones(2*N)).astype(int)', '    ps = (numpy.ones(2*N)).astype(int)', ['R3a'])
M('c05-getprob-bit', ['C05', 'C07'], PS, 'readout_state.ps[:self.N]=2*readout', 'readout_state.ps[:self.N]=readout', ['R3a'])
M('c05-tostate-r', ['C05', 'C12'], PS, '        return StabilizerState(gs, ps).set_r(r)', '        return StabilizerState(gs, r).set_r(r)', ['R2', 'R4d'])
M('c05-measurelayer-r', ['C05', 'C14'], PC, '        obj.gs, obj.ps, obj.r, tmp_out, tmp_log2prob = \\', '        obj.gs, obj.ps, tmp_r, tmp_out, tmp_log2prob = \\', ['R5'])
M('c05-state-r', ['C05', 'C12'], PS, '    state.gs, state.r = stabilizer_project(state.gs, numpy.flipud(stabilizers.gs), state.r)', '    state.gs, _ = stabilizer_project(state.gs, numpy.flipud(stabilizers.gs), state.r)', ['R5'])
M('c05-setr', ['C05'], PS, "        self.r = 0 if r is None else r\n        return self", "        self.r = 0\n        return self", ['R2.set_r', 'R4d'])
M('c05-tomap-swap', ['C05', 'C12'], PS, '        gs, ps = state_to_map(self.gs, self.ps)\n        return CliffordMap(gs, ps)', '        ps, gs = state_to_map(self.gs, self.ps)\n        return CliffordMap(gs, ps)', ['R2'])

# ------------------------------------------------------------------ C07
SE = 'stabilizer_expect'
M('c07-dispatch', ['C07'], PS, '        if isinstance(obs, Pauli):\n            return self.expect(obs.as_polynomial()) # cast Pauli to PauliPolynomial\n        elif isinstance(obs, PauliPolynomial):', '        if isinstance(obs, PauliList):\n            return stabilizer_expect(self.gs, self.ps, obs.gs, obs.ps, self.r)\n        elif isinstance(obs, Pauli):\n            return self.expect(obs.as_polynomial()) # cast Pauli to PauliPolynomial\n        elif isinstance(obs, PauliPolynomial):', ['R14'])
M('c07-poly-phases', ['C07'], PS, '            xs = self.expect(PauliList(obs.gs)) # expectation of the bare strings\n            return numpy.sum(obs.cs * 1j**obs.ps * xs) # phases of the terms enter as i^p', '            xs = self.expect(PauliList(obs.gs, obs.ps))\n            return numpy.sum(obs.cs * xs)', ['R3b'])
M('c07-poly-nophase', ['C07'], PS, '            return numpy.sum(obs.cs * 1j**obs.ps * xs) # phases of the terms enter as i^p', '            return numpy.sum(obs.cs * xs)', ['R6.poly'])
M('c07-poly-nocs', ['C07'], PS, '            return numpy.sum(obs.cs * 1j**obs.ps * xs) # phases of the terms enter as i^p', '            return numpy.sum(1j**obs.ps * xs)', ['R6.poly'])
M('c07-overlap-rank', ['C07'], PS, '                return trace/2**obs.r', '                return trace', ['R6.overlap'])
M('c07-overlap-rows', ['C07'], PS, 'numpy.array(obs.gs[obs.r:obs.N,:]), numpy.array(obs.ps[obs.r:obs.N]), 0)', 'numpy.array(obs.gs[obs.r:obs.N,:]), numpy.array(obs.ps[0:obs.N-obs.r]), 0)', ['R13.par'])
M('c07-overlap-allrows', ['C07'], PS, 'numpy.array(obs.gs[obs.r:obs.N,:]), numpy.array(obs.ps[obs.r:obs.N]), 0)', 'numpy.array(obs.gs[0:obs.N,:]), numpy.array(obs.ps[0:obs.N]), 0)', ['R13.par'])
M('c07-zero-guard', ['C07'], PU, 'if j < N + r: # if gs_stb[j] is active stablizer or standby.', 'if j < N: # if gs_stb[j] is active stablizer or standby.', ['R9.zero'], SE)
M('c07-zero-nobreak', ['C07'], PU, '                    trivial = False # gs_obs[k] is not trivial\n                    break', '                    trivial = False # gs_obs[k] is not trivial', ['R11.zero'], SE)
M('c07-sign', ['C07'], PU, 'xs[k] = (-1)**(((pa - ps_obs[k])%4)//2)', 'xs[k] = (-1)**(((pa + ps_obs[k] + 2)%4)//2)', ['R3.decode'], SE)
M('c07-trace-half', ['C07'], PU, '            trace = trace/2.', '            trace = trace/4.', ['R11.trace'], ST)
M('c07-trace-zero', ['C07'], PU, '            if not pa == ps_obs[k]:\n                trace = 0.', '            if pa == ps_obs[k]:\n                trace = 0.', ['R11.trace'], ST)
M('c07-expect-args', ['C07'], PS, '            xs = stabilizer_expect(self.gs, self.ps, obs.gs, obs.ps, self.r)', '            xs = stabilizer_expect(self.gs, self.ps, obs.gs, obs.ps, 0)', ['R2.expect'])
M('c07-getprob-rows', ['C07'], PS, 'readout_state.ps[:self.N]=2*readout', 'readout_state.ps[self.N:]=2*readout', ['R13.getprob'])
M('c07-tc-poly', ['C07'], TS, '            return torch.sum(obs.cs * 1j**obs.ps * xs) # phases of the terms enter as i^p', '            return torch.sum(obs.cs * xs)', ['R6.poly'])
B('c07-benign-overlap', ['C07'], PS, '                return trace/2**obs.r', '                return trace * 0.5**obs.r')
B('c07-benign-tracecmp', ['C07'], PU, '            if not pa == ps_obs[k]:\n                trace = 0.', '            if pa != ps_obs[k]:\n                trace = 0.', ST)

# ------------------------------------------------------------------ C09 / C10
M('c09-take-negate', ['C09'], PC, '            if self.prev_layer.independent_from(gate): # if independent (not overlapping)', '            if not self.prev_layer.independent_from(gate): # if independent (not overlapping)', ['R11.take'], 'CliffordLayer.take')
M('c09-take-measure', ['C09', 'C14'], PC, '        if (self.prev_layer is None) or isinstance(self.prev_layer, MeasureLayer):', '        if (self.prev_layer is None):', ['R11.take.measure'], 'CliffordLayer.take')
M('c09-circ-take-guard', ['C09'], PC, '        if self.last_layer.independent_from(gate): # if last layer commute with the new gate\n            self.last_layer.take(gate) # the last layer takes the gate\n        else: # otherwise create a new layer to handle this\n            new_layer = CliffordLayer(gate) # a new layer with the new gate\n            # link to the layer structure\n            self.last_layer.next_layer = new_layer\n            new_layer.prev_layer = self.last_layer\n            self.last_layer = new_layer # new layer becomes the last\n        return self\n        \n    def gate', '        if True:\n            self.last_layer.take(gate) # the last layer takes the gate\n        return self\n        \n    def gate', ['R11.take'])
M('c09-link-prev', ['C09'], PC, '            self.last_layer.next_layer = new_layer\n            new_layer.prev_layer = self.last_layer\n            self.last_layer = new_layer # new layer becomes the last\n        return self\n        \n    def gate', '            self.last_layer.next_layer = new_layer\n            self.last_layer = new_layer # new layer becomes the last\n        return self\n        \n    def gate', ['R10.link'])
M('c09-link-order', ['C09'], PC, '            self.last_layer.next_layer = new_layer\n            new_layer.prev_layer = self.last_layer\n            self.last_layer = new_layer # new layer becomes the last\n        return self\n        \n    def gate', '            self.last_layer = new_layer # new layer becomes the last\n            self.last_layer.next_layer = new_layer\n            new_layer.prev_layer = self.last_layer\n        return self\n        \n    def gate', ['R10.link'])
M('c09-gate-nomask', ['C09'], PC, '            else: # local gate\n                obj.rotate_by(self.generator, mask(self.qubits, obj.N))', '            else: # local gate\n                obj.rotate_by(self.generator)', ['R13.local'], 'CliffordGate.forward')
M('c09-gate-wrongmask', ['C09'], PC, '                obj.transform_by(clifford_map, mask(self.qubits, obj.N))', '                obj.transform_by(clifford_map, mask(range(self.n), obj.N))', ['R13.local'], 'CliffordGate.forward')
M('c09-gate-cache-random', ['C09', 'C16'], PC, '                    clifford_map = random_clifford_map(self.n)\n                else:\n                    self.forward_map = self.backward_map.inverse()', '                    self.forward_map = random_clifford_map(self.n)\n                    clifford_map = self.forward_map\n                else:\n                    self.forward_map = self.backward_map.inverse()', ['R11.gate.random'], 'CliffordGate.forward')
M('c09-gate-usebackward', ['C09'], PC, '            else:\n                clifford_map = self.forward_map\n            if self.n == obj.N: # global gate', '            else:\n                clifford_map = self.backward_map\n            if self.n == obj.N: # global gate', ['R11.gate'], 'CliffordGate.forward')
M('c09-gate-noinverse', ['C09'], PC, '                    self.forward_map = self.backward_map.inverse()\n                    clifford_map = self.forward_map', '                    self.forward_map = self.backward_map\n                    clifford_map = self.forward_map', ['R11.gate'], 'CliffordGate.forward')
M('c09-gate-twice', ['C09'], PC, '            if self.n == obj.N: # global gate\n                obj.rotate_by(self.generator)', '            if self.n == obj.N: # global gate\n                obj.rotate_by(self.generator)\n                obj.rotate_by(self.generator)', ['R11.gate'], 'CliffordGate.forward')
M('c09-forward-desc', ['C09'], PC, '        if self.forward_map is None:\n            for layer in self.layers_forward():\n                layer.forward(obj)', '        if self.forward_map is None:\n            for layer in self.layers_backward():\n                layer.forward(obj)', ['R10.order'], 'CliffordCircuit.forward')
M('c09-gen-swap', ['C09', 'C10'], PC, '        layer = self.first_layer\n        while layer is not None:\n            yield layer\n            layer = layer.next_layer', '        layer = self.first_layer\n        while layer is not None:\n            yield layer\n            layer = layer.prev_layer', ['R10.gen'], 'CliffordCircuit.layers_forward')
M('c09-fold-prepend', ['C09'], PC, '            self.forward_map = self.forward_map.compose(layer.forward_map)', '            self.forward_map = layer.forward_map.compose(self.forward_map)', ['R10.fold'], 'CliffordCircuit.compile')
M('c09-layer-embed-swap', ['C09'], PC, '            self.forward_map.embed(gate.forward_map, mask(gate.qubits, N))', '            self.forward_map.embed(gate.backward_map, mask(gate.qubits, N))', ['R11.lcompile'])
M('c09-layer-embed-mask', ['C09'], PC, '            self.backward_map.embed(gate.backward_map, mask(gate.qubits, N))', '            self.backward_map.embed(gate.backward_map, mask(range(gate.n), N))', ['R13.local'])
M('c09-layer-forward-map', ['C09'], PC, '        else:\n            obj.transform_by(self.forward_map)\n        return obj\n\n    def backward(self, obj):\n        if self.backward_map is None:\n            for gate in self.gates:', '        else:\n            obj.transform_by(self.backward_map)\n        return obj\n\n    def backward(self, obj):\n        if self.backward_map is None:\n            for gate in self.gates:', ['R11.apply'])
M('c09-compose-order', ['C09'], PC, '        for layer in other.layers_forward():\n            for gate in layer.gates:\n                self.take(gate)', '        for layer in other.layers_backward():\n            for gate in layer.gates:\n                self.take(gate)', ['R10.order'])
M('c09-indep', ['C09'], PC, '        return len(set(self.qubits) & set(other_gate.qubits))==0', '        return len(set(self.qubits) & set(other_gate.qubits))<=1', ['R11.indep'])
M('c09-place-drop', ['C09'], PC, '            else: # if not independent\n                self.gates.append(gate) # I will have to keep the gate', '            else: # if not independent\n                pass', ['R11.place'], 'CliffordLayer.take')
M('c09-tc-take', ['C09', 'C13'], TC, '            if self.prev_layer.independent_from(gate): # if independent (not overlapping)\n                self.prev_layer.take(gate)', '            if True:\n                self.prev_layer.take(gate)', ['R11.take'])
M('c09-tc-clone', ['C09', 'C13', 'C17'], TC, '            circ.forward_map = self.forward_map.copy()', '            circ.forward_map = self.forward_map.clone()', ['R1d'])
M('c10-backward-gen', ['C10'], PC, '                obj.rotate_by(-self.generator)', '                obj.rotate_by(self.generator)', ['R11.gate'], 'CliffordGate.backward')
M('c10-backward-map', ['C10'], PC, '            else:\n                clifford_map = self.backward_map\n            if False', '            else:\n                clifford_map = self.forward_map\n            if False', ['R11.gate'], 'CliffordGate.backward')
M('c10-backward-noinv', ['C10'], PC, '                    self.backward_map = self.forward_map.inverse()\n                    clifford_map = self.backward_map', '                    clifford_map = self.forward_map', ['R11.gate'], 'CliffordGate.backward')
M('c10-circ-backward-order', ['C10'], PC, '            for layer in self.layers_backward():\n                layer.backward(obj)', '            for layer in self.layers_forward():\n                layer.backward(obj)', ['R10.order'], 'CliffordCircuit.backward')
M('c10-circ-backward-call', ['C10'], PC, '            for layer in self.layers_backward():\n                layer.backward(obj)', '            for layer in self.layers_backward():\n                layer.forward(obj)', ['R10.order', 'R11.apply'], 'CliffordCircuit.backward')
M('c10-fold', ['C10'], PC, '            self.backward_map = layer.backward_map.compose(self.backward_map)', '            self.backward_map = self.backward_map.compose(layer.backward_map)', ['R10.fold'], 'CliffordCircuit.compile')
M('c10-fold2', ['C10'], PC, '                self.backward_map = layer.backward_map.compose(self.backward_map)', '                self.backward_map = self.backward_map.compose(layer.backward_map)', ['R10.fold'], 'Circuit.compile')
M('c10-compile-gen', ['C10', 'C09'], PC, '            self.backward_map = clifford_rotation_map(-self.generator)', '            self.backward_map = clifford_rotation_map(self.generator)', ['R11.compile'])
M('c10-compile-inv', ['C10', 'C09'], PC, '                    self.backward_map = self.forward_map.inverse()\n        return self', '                    self.backward_map = self.forward_map\n        return self', ['R11.compile'])
M('c10-layer-backward', ['C10'], PC, '        if self.backward_map is None:\n            for gate in self.gates:\n                gate.backward(obj)', '        if self.backward_map is None:\n            for gate in self.gates:\n                gate.forward(obj)', ['R11.apply'])
M('c10-tc-fold', ['C10', 'C13'], TC, '            self.backward_map = layer.backward_map.compose(self.backward_map)', '            self.backward_map = self.backward_map.compose(layer.backward_map)', ['R10.fold'])
M('c10-circuit-backward-order', ['C10', 'C14'], PC, '            if self.backward_map is None:\n                for layer in self.layers_backward():\n                    layer.backward(obj)', '            if self.backward_map is None:\n                for layer in self.layers_forward():\n                    layer.backward(obj)', ['R10.order'], 'Circuit.backward')
B('c10-benign-inverse', ['C10', 'C09'], PC, '            self.backward_map = layer.backward_map.compose(self.backward_map)\n        return self \n\n    def povm', '            pass\n        self.backward_map = self.forward_map.inverse()\n        return self \n\n    def povm')
B('c10-benign-reversed', ['C10'], PC, '            for layer in self.layers_backward():\n                layer.backward(obj)', '            for layer in reversed(list(self.layers_forward())):\n                layer.backward(obj)', 'CliffordCircuit.backward')
B('c09-benign-take', ['C09'], PC, '        if (self.prev_layer is None) or isinstance(self.prev_layer, MeasureLayer):', '        if isinstance(self.prev_layer, MeasureLayer) or self.prev_layer is None:', 'CliffordLayer.take')

# ------------------------------------------------------------------ C14
M('c14-mlayer-discard-r', ['C14'], PC, '        obj.gs, obj.ps, obj.r, tmp_out, tmp_log2prob = \\', '        tmp_gs_stb, tmp_ps_stb, tmp_r, tmp_out, tmp_log2prob = \\', ['R5'])
M('c14-zobs-x', ['C14'], PC, '            gs[i,2*self.qubits[i]+1]=1', '            gs[i,2*self.qubits[i]]=1', ['R12.zobs'])
M('c14-result-sign', ['C14'], PC, '        self.result = (-1)**tmp_out', '        self.result = (-1)**(tmp_out+1)', ['R3.sign'])
M('c14-mlayer-args', ['C14'], PC, '        stabilizer_measure(obj.gs,obj.ps,self.gs,self.ps,obj.r)', '        stabilizer_measure(obj.gs,obj.ps,self.gs,self.ps,0)', ['R2.mlayer', 'R5'])
M('c14-circuit-take-measure', ['C14', 'C09'], PC, '            if not isinstance(self.last_layer,MeasureLayer):\n                if self.last_layer.independent_from(gate):', '            if True:\n                if self.last_layer.independent_from(gate):', ['R11.take.measure'])
M('c14-record-outside', ['C14'], PC, '                else:\n                    layer.forward(obj)\n                    self.measure_result += layer.result.tolist()\n                    self.log2prob += layer.log2prob', '                else:\n                    layer.forward(obj)\n                    self.measure_result += layer.result.tolist()', ['R11.record'])
M('c14-record-sub', ['C14'], PC, '                    self.log2prob += layer.log2prob', '                    self.log2prob -= layer.log2prob', ['R11.record'])
M('c14-forward-desc', ['C14'], PC, '        else:\n            for layer in self.layers_forward():\n                if not isinstance(layer,MeasureLayer):\n                    layer.forward(obj)', '        else:\n            for layer in self.layers_backward():\n                if not isinstance(layer,MeasureLayer):\n                    layer.forward(obj)', ['R10.order'])
M('c14-backward-slice', ['C14'], PC, '                                layer.backward(obj,measure_result = measure_result[new_pointer:pointer])', '                                layer.backward(obj,measure_result = measure_result[new_pointer:])', ['R13.slice'])
M('c14-backward-pointer', ['C14'], PC, '                    pointer = 0\n                    for layer in self.layers_backward():\n                        if isinstance(layer,MeasureLayer):\n                            new_pointer = pointer - len(layer.qubits)\n                            if pointer == 0:\n                                layer.backward(obj,measure_result = measure_result[new_pointer:])', '                    pointer = 0\n                    for layer in self.layers_backward():\n                        if isinstance(layer,MeasureLayer):\n                            new_pointer = pointer - 1\n                            if pointer == 0:\n                                layer.backward(obj,measure_result = measure_result[new_pointer:])', ['R13.slice'])
M('c14-mbackward-bit', ['C14'], PC, '                    tmp_res = int((1-measure_result[-ii])/2)', '                    tmp_res = int((1+measure_result[-ii])/2)', ['R3.sign'])
M('c14-mbackward-noraise', ['C14'], PC, '                    prob = obj.postselect(pauli(tmp), tmp_res)\n                    if prob == 0.0:\n                        raise ValueError("Post-selection result is not possible, they are orthogonal states.")\n                return obj\n        else:', '                    prob = obj.postselect(pauli(tmp), tmp_res)\n                return obj\n        else:', ['R11.impossible'])
M('c14-mbackward-x', ['C14'], PC, '                    tmp[self.qubits[-ii]]=3\n                    tmp_res = int((1-self.result[-ii])/2)', '                    tmp[self.qubits[-ii]]=1\n                    tmp_res = int((1-self.result[-ii])/2)', ['R12.zobs'])
M('c14-postselect-sign', ['C14'], PS, 'int((2*postselect_res + paulistring.p)%4))', 'int(postselect_res*2))', ['R6.sign'])
M('c14-postselect-mixed', ['C14'], PS, '        if self.r != 0:\n            raise ValueError("Currently, post-selection is only supported with pure states")\n', '', ['R11.pure'])
B('c14-benign-inplace-alias', ['C14', 'C05'], PS, '        self.gs, self.ps, prob = stabilizer_postselection(', '        _, _, prob = stabilizer_postselection(')
M('c14-kernel-prob', ['C14'], PU, '        prob = prob/2.0', '        prob = prob/4.0', ['R11.prob'], SO)
M('c14-kernel-zero', ['C14'], PU, '        if not pa == ps_ob:\n            prob = 0.', '        if not pa == ps_ob:\n            prob = 0.\n            ps_stb[0] = (ps_stb[0] + 2) % 4', ['R11.prob'], SO)
M('c14-kernel-sign', ['C14', 'C05'], PU, '        ps_stb[p] = ps_ob', '        ps_stb[q] = ps_ob', ['R9.block'], SO)
M('c14-unitary-flag', ['C14'], PC, '            self.unitary = False\n            self.num_of_measures += len(gate.qubits)', '            self.num_of_measures += len(gate.qubits)', [])

# ------------------------------------------------------------------ C12
M('c12-perm-swap', ['C12'], PU, '        gs_out[N+i] = gs_in[2*i]\n        gs_out[i] = gs_in[2*i+1]', '        gs_out[N+i] = gs_in[2*i+1]\n        gs_out[i] = gs_in[2*i]', ['R13.perm'], 'map_to_state')
M('c12-perm-ps', ['C12'], PU, '        ps_out[N+i] = ps_in[2*i]\n        ps_out[i] = ps_in[2*i+1]', '        ps_out[N+i] = ps_in[2*i+1]\n        ps_out[i] = ps_in[2*i]', ['R13.perm'], 'map_to_state')
M('c12-perm-inverse', ['C12'], PU, '        gs_out[2*i] = gs_in[N+i]\n        gs_out[2*i+1] = gs_in[i]', '        gs_out[2*i] = gs_in[i]\n        gs_out[2*i+1] = gs_in[N+i]', ['R13.perm'], 'state_to_map')
M('c12-perm-offbyone', ['C12'], PU, '        ps_out[2*i] = ps_in[N+i]', '        ps_out[2*i] = ps_in[N+i-1]', ['R13.perm'], 'state_to_map')
M('c12-tc-perm', ['C12', 'C13'], TU, '    gs_out[N::] = gs_in[::2]\n    gs_out[0:N] = gs_in[1::2]', '    gs_out[N::] = gs_in[1::2]\n    gs_out[0:N] = gs_in[::2]', ['R13.perm'])
M('c12-tc-perm-ps', ['C12', 'C13'], TU, '    ps_out[::2] = ps_in[N::]\n    ps_out[1::2] = ps_in[0:N]', '    ps_out[::2] = ps_in[0:N]\n    ps_out[1::2] = ps_in[N::]', ['R13.perm'])
M('c12-tostate-rank', ['C12'], PS, '        return StabilizerState(gs, ps).set_r(r)', '        return StabilizerState(gs, ps)', ['R2.conv'])
M('c12-mixed-rank', ['C12'], PS, '    return identity_map(N).to_state(r=N)', '    return identity_map(N).to_state(r=0)', ['R2.rank'])
M('c12-commute-raise', ['C12'], PS, "    if not (acq_mat(stabilizers.gs) == 0).all():\n        raise ValueError('stabilizers must all commute with each other.')\n", "", ['R11.commute'])
M('c12-commute-neg', ['C12'], PS, "    if not (acq_mat(stabilizers.gs) == 0).all():", "    if (acq_mat(stabilizers.gs) == 0).all():", ['R11.commute'])
M('c12-flipud', ['C12'], PS, 'stabilizer_project(state.gs, numpy.flipud(stabilizers.gs), state.r)', 'stabilizer_project(state.gs, stabilizers.gs, state.r)', ['R13.signs'])
M('c12-sign-rows', ['C12'], PS, '    state.ps[state.r:state.N] = stabilizers.ps', '    state.ps[0:state.N-state.r] = stabilizers.ps', ['R13.signs'])
M('c12-sign-missing', ['C12'], PS, '    state.ps[state.r:state.N] = stabilizers.ps\n', '', ['R13.signs'])
M('c12-qutip-range', ['C12'], PS, '        for i in range(self.r,self.N):\n            rho = rho*(ID+Pauli(self.gs[i],self.ps[i]).to_qutip())/2', '        for i in range(0,self.N):\n            rho = rho*(ID+Pauli(self.gs[i],self.ps[i]).to_qutip())/2', ['R6.qutip'])
M('c12-qutip-sign', ['C12'], PS, '            rho = rho*(ID+Pauli(self.gs[i],self.ps[i]).to_qutip())/2', '            rho = rho*(ID+Pauli(self.gs[i]).to_qutip())/2', ['R6.qutip'])
M('c12-qutip-norm', ['C12'], PS, '        rho = rho/(2**self.r)\n', '', ['R6.qutip'])
M('c12-bitstate', ['C12'], PS, '        gs[i,2*i+1]=1\n        gs[N+i,2*i]=1', '        gs[i,2*i]=1\n        gs[N+i,2*i+1]=1', ['R13.bits'])
M('c12-ghz', ['C12'], PS, '    objs = [pauli({i:3,i+1:3},N) for i in range(N-1)]', '    objs = [pauli({i:3,i+1:1},N) for i in range(N-1)]', ['R12.ghz'])
M('c12-tc-onestate', ['C12', 'C13'], TS, '    gs = zero_state(N, device=device).gs\n    ps = 2*torch.ones(2*N, device=device, dtype=torch.float32)\n    return StabilizerState(gs = gs, ps = ps)', '    return -zero_state(N, device=device)', ['R18'])
M('c12-onestate-sign', ['C12'], PS, '    ps = (2*numpy.ones(2*N)).astype(int)', '    ps = (0*numpy.ones(2*N)).astype(int)', ['R3a'])

# ------------------------------------------------------------------ C20
M('c20-reader-6', ['C20'], PP, '        elif mu == 6:\n            p = 1', '        elif mu == 6:\n            p = 3', ['R12.reader'])
M('c20-reader-minus', ['C20'], PP, "        elif mu == 5 or mu == '-':\n            p = 2", "        elif mu == 5 or mu == '-':\n            p = 3", ['R12.reader'])
M('c20-reader-i', ['C20'], PP, "        elif mu == 'i':\n            p += 1", "        elif mu == 'i':\n            p = 1", ['R12.reader'])
M('c20-reader-y', ['C20'], PP, "        elif mu == 2 or mu == 'Y':\n            g[2*(i-h)] = 1\n            g[2*(i-h)+1] = 1", "        elif mu == 2 or mu == 'Y':\n            g[2*(i-h)] = 1", ['R12.reader'])
M('c20-reader-h', ['C20'], PP, "        elif mu == 4 or mu == '+':\n            p = 0\n            h += 1", "        elif mu == 4 or mu == '+':\n            p = 0", ['R12.reader'])
M('c20-reader-slot', ['C20'], PP, "        elif mu == 3 or mu == 'Z':\n            g[2*(i-h)+1] = 1", "        elif mu == 3 or mu == 'Z':\n            g[2*(i-h)] = 1", ['R12.reader'])
M('c20-repr-prefix', ['C20'], PP, "            elif self.p == 3:\n                txt = '-i'", "            elif self.p == 3:\n                txt = '+i'", ['R12.prefix', 'R12.reader'], 'Pauli.__repr__')
M('c20-repr-letter', ['C20'], PP, "                if z == 0:\n                    txt += 'X'\n                elif z == 1:\n                    txt += 'Y'", "                if z == 0:\n                    txt += 'Y'\n                elif z == 1:\n                    txt += 'X'", ['R12.letters'], 'Pauli.__repr__')
M('c20-token-code', ['C20', 'C13'], PU, 'ts[j,i] = 3*gs[j,2*i+1] + (-1)**gs[j,2*i+1] * gs[j,2*i]', 'ts[j,i] = 3*gs[j,2*i+1] + gs[j,2*i]', ['R8.token'])
M('c20-token-phase', ['C20', 'C13'], PU, 'ts[j,N] = 4 + x * (11 - 9 * x + 2 * x**2) // 2', 'ts[j,N] = 4 + x', ['R8.token'])
M('c20-tc-token', ['C20', 'C13'], TU, '    ts = 3*gz + (-1)**gz * gx', '    ts = 3*gx + (-1)**gx * gz', ['R8.token'])
M('c20-neg', ['C20'], PP, '    def __neg__(self):\n        return type(self)(self.gs, (self.ps + 2) % 4)', '    def __neg__(self):\n        return type(self)(self.gs, (self.ps + 1) % 4)', ['R12.neg'])
M('c20-rmul-i', ['C20', 'C15'], PP, '        elif c == 1j:\n            return type(self)(self.g, (self.p + 1) % 4)', '        elif c == 1j:\n            return type(self)(self.g, (self.p + 3) % 4)', ['R12.rmul'])
M('c20-rmul-minus', ['C20', 'C15'], PP, '        elif c == -1:\n            return type(self)(self.gs, (self.ps + 2) % 4)', '        elif c == -1:\n            return type(self)(self.gs, (self.ps + 0) % 4)', ['R12.rmul'])
M('c20-getitem', ['C20', 'C15'], PP, '        return PauliList(self.gs[item], self.ps[item])', '        return PauliList(self.gs[item], self.ps)', ['R13'])
M('c20-getitem-cs', ['C20', 'C15'], PP, '        return PauliPolynomial(self.gs[item], self.ps[item]).set_cs(self.cs[item])', '        return PauliPolynomial(self.gs[item], self.ps[item])', ['R13'])
M('c20-trim', ['C20'], PP, '        return Pauli(g[:-2*h], p)', '        return Pauli(g[:-h], p)', ['R12.alloc'])
M('c20-weight', ['C20'], PP, '        return numpy.sum(numpy.sum(self.g.reshape(self.N, 2), -1) != 0)', '        return numpy.sum(numpy.sum(self.g.reshape(2, self.N), -1) != 0)', ['R12.size'])
M('c20-N', ['C20'], PP, '        return self.gs.shape[1]//2', '        return self.gs.shape[1]', ['R12.size'])
M('c20-tc-reader', ['C20', 'C13'], TP, '        elif mu == 7:\n            p = 3', '        elif mu == 7:\n            p = 1', ['R12.reader', 'R12.port'])
B('c20-benign-chain', ['C20'], PP, "        elif mu == 6:\n            p = 1\n            h += 1\n        elif mu == 7:\n            p = 3\n            h += 1", "        elif mu == 7:\n            p = 3\n            h += 1\n        elif mu == 6:\n            p = 1\n            h += 1")
B('c20-benign-in', ['C20'], PP, "        if mu == 0 or mu == 'I':\n            continue", "        if mu in (0, 'I'):\n            continue")

# ------------------------------------------------------------------ C15
M('c15-matmul-shadow', ['C15'], PP, '        if isinstance(other, (PauliMonomial, PauliPolynomial)):\n            return self.as_polynomial() @ other.as_polynomial()\n        elif isinstance(other, Pauli):\n            p = (self.p + other.p + ipow(self.g, other.g)) % 4\n            g = (self.g + other.g) % 2\n            return Pauli(g, p)', '        if isinstance(other, Pauli):\n            p = (self.p + other.p + ipow(self.g, other.g)) % 4\n            g = (self.g + other.g) % 2\n            return Pauli(g, p)\n        elif isinstance(other, (PauliMonomial, PauliPolynomial)):\n            return self.as_polynomial() @ other.as_polynomial()', ['R14'])
M('c15-reduce-nophase', ['C15'], PP, '        cs = aggregate(self.cs * 1j**self.ps, inds, gs.shape[0])', '        cs = aggregate(self.cs, inds, gs.shape[0])', ['R6.reduce'])
M('c15-reduce-mask', ['C15'], PP, '        return PauliPolynomial(gs[mask]).set_cs(cs[mask])', '        return PauliPolynomial(gs).set_cs(cs)', ['R6.reduce'])
M('c15-reduce-tol', ['C15'], PP, '        mask = (numpy.abs(cs) > tol)', '        mask = (numpy.abs(cs.real) > tol)', ['R6.reduce'])
M('c15-add-order', ['C15'], PP, '        ps = numpy.concatenate([self.ps, other.ps])', '        ps = numpy.concatenate([other.ps, self.ps])', ['R13.add'])
M('c15-add-noreduce', ['C15'], PP, '        return PauliPolynomial(gs, ps).set_cs(cs).reduce()', '        return PauliPolynomial(gs, ps).reduce()', ['R13.add'])
M('c15-poly-rmul', ['C15'], PP, '        return PauliPolynomial(self.gs, self.ps).set_cs(c * self.cs)', '        return PauliPolynomial(self.gs, self.ps).set_cs(self.cs)', ['R12.wire'])
M('c15-sub', ['C15'], PP, '    def __sub__(self, other):\n        return self + (-other)\n\n    def __matmul__(self, other):\n        if isinstance(other, (PauliMonomial, PauliPolynomial)):', '    def __sub__(self, other):\n        return self + other\n\n    def __matmul__(self, other):\n        if isinstance(other, (PauliMonomial, PauliPolynomial)):', ['R12.wire'])
M('c15-div', ['C15'], PP, '    def __truediv__(self, other):\n        return (1/other) * self\n\n    def __add__(self, other):\n        return self.as_polynomial() + other\n\n    def __radd__(self, other):\n        return self + other\n\n    def __sub__(self, other):\n        return self + (-other)\n\n    def __matmul__(self, other):\n        if isinstance(other, (PauliMonomial', '    def __truediv__(self, other):\n        return other * self\n\n    def __add__(self, other):\n        return self.as_polynomial() + other\n\n    def __radd__(self, other):\n        return self + other\n\n    def __sub__(self, other):\n        return self + (-other)\n\n    def __matmul__(self, other):\n        if isinstance(other, (PauliMonomial', ['R12.wire'])
M('c15-qutip-letter', ['C15'], PP, '            if (self.g[2*i]==1)&(self.g[2*i+1]==1):\n                tmp_list.append(paulis[2])\n            elif (self.g[2*i]==1)&(self.g[2*i+1]==0):\n                tmp_list.append(paulis[1])', '            if (self.g[2*i]==1)&(self.g[2*i+1]==1):\n                tmp_list.append(paulis[2])\n            elif (self.g[2*i]==1)&(self.g[2*i+1]==0):\n                tmp_list.append(paulis[3])', ['R12.qutip'], 'Pauli.to_qutip')
M('c15-qutip-phase', ['C15'], PP, '        return (1j)**(self.p)*qt.tensor(tmp_list)', '        return qt.tensor(tmp_list)', ['R12.qutip', 'R6'], 'Pauli.to_qutip')
M('c15-qutip-coef', ['C15'], PP, '            summation += self.cs[l]*(1j)**(self.ps[l])*qt.tensor(tmp_list)', '            summation += (1j)**(self.ps[l])*qt.tensor(tmp_list)', ['R12.qutip', 'R6'])
M('c15-mono-trace', ['C15'], PP, '        return self.c * super(PauliMonomial, self).trace()', '        return super(PauliMonomial, self).trace()', ['R12.wire', 'R6'])
M('c15-mono-aspoly', ['C15'], PP, '        cs = numpy.array([self.c], dtype=numpy.complex128)\n        return PauliPolynomial(gs, ps).set_cs(cs)', '        cs = numpy.array([1.0], dtype=numpy.complex128)\n        return PauliPolynomial(gs, ps).set_cs(cs)', ['R12.wire'])
M('c15-aggregate', ['C15'], PU, '        data_out[inds[i]] += data_in[i]', '        data_out[inds[i]] = data_in[i]', ['R6.reduce'])
M('c15-tc-reduce', ['C15'], TP, '        cs = aggregate(self.cs * 1j**self.ps, inds, gs.shape[0])', '        cs = aggregate(self.cs * 1j**self.ps, inds, gs.shape[0]) * 0 + aggregate(self.cs, inds, gs.shape[0])', ['R6.reduce'])
M('c15-rotate-cs', ['C15', 'C03'], PP, '        if mask is None:\n            clifford_rotate(generator.g, generator.p, self.gs, self.ps)', '        if mask is None:\n            self.cs = -self.cs\n            clifford_rotate(generator.g, generator.p, self.gs, self.ps)', ['R4.cs'])
M('c15-repr-mono', ['C15'], PP, '        c = self.c * 1j**self.p\n        if c.imag == 0.:', '        c = self.c\n        if c.imag == 0.:', ['R6'])

# ------------------------------------------------------------------ C16
M('c16-pair-draw', ['C16'], PU, '    g1 = numpy.random.randint(0,2,2*N)\n    g2 = numpy.random.randint(0,2,2*N)\n    while', '    g1 = numpy.random.randint(0,2,2*N)\n    g2 = numpy.random.randint(0,3,2*N) % 2\n    while', ['R15'])
M('c16-flip', ['C16'], PU, '        g2[2*i+1] = (g2[2*i+1] + g1[2*i] + g1[2*i+1])%2', '        g2[2*i+1] = (g2[2*i+1] + g1[2*i])%2', ['R8.flip'])
M('c16-flip-guard', ['C16'], PU, '    if acq(g1, g2) == 0: # if g1, g2 commute', '    if acq(g1, g2) == 1: # if g1, g2 commute', ['R8.flip'])
M('c16-resample', ['C16'], PU, '    while (g1 == 0).all(): # resample g1 if it is all zero\n        g1 = numpy.random.randint(0,2,2*N)\n    if acq', '    if acq', ['R11.resample'])
M('c16-undo-order', ['C16'], PU, '            for g in reversed(gens):\n                gs = clifford_rotate_signless(g, gs)', '            for g in gens:\n                gs = clifford_rotate_signless(g, gs)', ['R10.undo'])
M('c16-rows', ['C16'], PU, '            gens, g1, g2 = pauli_diagonalize2(g1, g2)\n            gs[0] = g1\n            gs[1] = g2', '            gens, g1, g2 = pauli_diagonalize2(g1, g2)\n            gs[0] = g2\n            gs[1] = g1', ['R13.sampler'])
M('c16-block', ['C16'], PU, '            random_clifford_(gs[2:,2:])', '            random_clifford_(gs[2:,:-2])', ['R13.sampler'])
M('c16-tc-discard', ['C16', 'C13'], TU, '                gs[:] = clifford_rotate_signless(g, gs)', '                g = clifford_rotate_signless(g, gs)', ['R16'])
M('c16-tc-discard2', ['C16', 'C13'], TU, '                gs[:] = clifford_rotate_signless(g, gs)', '                clifford_rotate_signless(g, gs)', ['R16'])
M('c16-map-signs', ['C16'], PS, '    gs = random_pauli(N) # shape (2*N, 2*N), mapping matrix\n    ps = 2 * numpy.random.randint(0,2,2*N)', '    gs = random_pauli(N) # shape (2*N, 2*N), mapping matrix\n    ps = 2 * numpy.random.randint(0,1,2*N)', ['R15'])
M('c16-tc-signs', ['C16'], TS, '    gs = random_clifford(N, device=device) # shape (2*N, 2*N), mapping matrix\n    ps = 2 * torch.randint(0, 2, (2*N,), device=device).to(torch.float32)', '    gs = random_clifford(N, device=device) # shape (2*N, 2*N), mapping matrix\n    ps = torch.randint(0, 2, (2*N,), device=device).to(torch.float32)', ['R3a'])
M('c16-backward-cache', ['C16', 'C10'], PC, '                    clifford_map = random_clifford_map(self.n)\n                else:\n                    self.backward_map = self.forward_map.inverse()', '                    self.backward_map = random_clifford_map(self.n)\n                    clifford_map = self.backward_map\n                else:\n                    self.backward_map = self.forward_map.inverse()', ['R11.gate.random'])
M('c16-brickwall', ['C16'], PC, '        for i in range(l % 2, N, 2):\n            circ.gate(i, (i+1) % N)', '        for i in range(0, N, 2):\n            circ.gate(i, (i+1) % N)', ['R12.rcc'])
M('c16-bitstate-choice', ['C16', 'C12'], PS, '    ps = numpy.random.choice(numpy.array([0,2]),size = 2*N)', '    ps = numpy.random.choice(numpy.array([0,1,2]),size = 2*N)', ['R15', 'R3a'])
M('c16-pauli-block', ['C16'], PU, '        gs[2*i+1,2*i:2*i+2] = g2', '        gs[2*i+1,2*i+1:2*i+3] = g2', ['R13.sampler'])

# ------------------------------------------------------------------ C18
M('c18-offset', ['C18'], PC, '                circ.take(clifford_rotation_gate(Pauli(g), numpy.arange(i0,obj.N)))', '                circ.take(clifford_rotation_gate(Pauli(g), numpy.arange(i0+1,obj.N)))', ['R13.offset'])
M('c18-slice', ['C18'], PC, '            for g in pauli_diagonalize1(obj.g[2*i0:]):', '            for g in pauli_diagonalize1(obj.g[i0:]):', ['R13.offset'])
M('c18-i0-dropped', ['C18'], PC, '            for g in pauli_diagonalize1(obj.g, i0):', '            for g in pauli_diagonalize1(obj.g):', ['R13.offset'])
M('c18-gate-sign', ['C18'], PC, '    gate.generator = Pauli(g_cond, generator.p) # condensed generator', '    gate.generator = Pauli(g_cond) # condensed generator', ['R2.gate'])
M('c18-gate-qubits', ['C18'], PC, '        qubits = qubits[qubits_cond]', '        qubits = qubits', ['R2.gate'])
M('c18-encode', ['C18'], PC, '        gate.backward_map = obj.to_map() # set backward map to encoding map', '        gate.forward_map = obj.to_map() # set backward map to encoding map', ['R2.encode'])
M('c18-sbrg-nocompose', ['C18'], PC, '        circ.compose(circ_i0) # append it to total circuit\n', '', ['R10.sbrg'])
M('c18-sbrg-noforward', ['C18'], PC, '        circ_i0.forward(htmp) # apply it to Hamiltonian\n', '', ['R10.sbrg'])
M('c18-sbrg-nocopy', ['C18', 'C17'], PC, '    htmp = hmdl.copy() # copy of model Hamiltonian to workspace', '    htmp = hmdl # copy of model Hamiltonian to workspace', ['R4'])
M('c18-sbrg-mask', ['C18'], PC, '        mask_commute = htmp.gs[:,2*i0] == 0 # mask diagonal terms', '        mask_commute = htmp.gs[:,2*i0+1] == 0 # mask diagonal terms', ['R13.sbrg'])
M('c18-sbrg-trivial', ['C18'], PC, '        mask_trivial = numpy.all(htmp.gs[:,(2*i0+2):] == 0, -1)', '        mask_trivial = numpy.all(htmp.gs[:,(2*i0):] == 0, -1)', ['R13.sbrg'])
M('c18-diag-mirror', ['C18'], PU, '            gs.append(g)\n            g1 = (g1 + g)%2\n        # now g1 anticommute with Z0                \n        g = g1.copy()\n        g[2*i0+1] = (g[2*i0+1] + 1)%2 # g = g1 (*) Z0\n        gs.append(g)\n        g1 = (g1 + g)%2\n        # now g1 has been transformed to Z0\n    return gs\n', '            gs.append(g)\n        # now g1 anticommute with Z0                \n        g = g1.copy()\n        g[2*i0+1] = (g[2*i0+1] + 1)%2 # g = g1 (*) Z0\n        gs.append(g)\n        g1 = (g1 + g)%2\n        # now g1 has been transformed to Z0\n    return gs\n', ['R7.mirror'])
M('c18-diag2-g2', ['C18', 'C16'], PU, '            g1 = (g1 + g)%2\n            g2 = (g2 + acq(g, g2) * g)%2\n        # now g1 anticommute with Z0', '            g1 = (g1 + g)%2\n            g2 = (g2 + g)%2\n        # now g1 anticommute with Z0', ['R7.mirror'])
M('c18-tc-numpy', ['C18', 'C13'], TC, 'import numpy\nimport torch\n', 'import torch\n', ['R1a'])
M('c18-condense-tile', ['C18'], PU, '    return g[numpy.repeat(mask, 2)], qubits', '    return g[numpy.tile(mask, 2)], qubits', ['R13.mask'])

# ------------------------------------------------------------------ C19
M('c19-sample-rows', ['C19'], PS, '        C = numpy.random.randint(2, size=(L,self.N-self.r))\n        gs, ps = pauli_combine(C, self.gs[self.r:self.N], self.ps[self.r:self.N])', '        C = numpy.random.randint(2, size=(L,self.N-self.r))\n        gs, ps = pauli_combine(C, self.gs[self.r:self.N], self.ps[0:self.N-self.r])', ['R13.rows'])
M('c19-sample-allrows', ['C19'], PS, '        C = numpy.random.randint(2, size=(L,self.N-self.r))\n        gs, ps = pauli_combine(C, self.gs[self.r:self.N], self.ps[self.r:self.N])', '        C = numpy.random.randint(2, size=(L,self.N))\n        gs, ps = pauli_combine(C, self.gs[0:self.N], self.ps[0:self.N])', ['R13.rows'])
M('c19-sample-nosign', ['C19'], PS, '        gs, ps = pauli_combine(C, self.gs[self.r:self.N], self.ps[self.r:self.N])\n        return PauliList(gs, ps)', '        gs, ps = pauli_combine(C, self.gs[self.r:self.N], self.ps[self.r:self.N])\n        return PauliList(gs)', ['R2.sample'])
M('c19-sample-draw', ['C19', 'C16'], PS, '        C = numpy.random.randint(2, size=(L,self.N-self.r))', '        C = numpy.random.randint(1, size=(L,self.N-self.r))', ['R15'])
M('c19-density-weight', ['C19'], PS, '        return PauliPolynomial(gs, ps) / 2**self.N', '        return PauliPolynomial(gs, ps) / 2**(self.N-self.r)', ['R6.weight'])
M('c19-density-enum', ['C19'], PS, '        C = binary_repr(numpy.arange(2**(self.N-self.r)))', '        C = binary_repr(numpy.arange(2**(self.N-self.r)-1))', ['R13.rows'])
M('c19-povm-shared', ['C19'], PC, '        for _ in range(nsample):\n            zero = zero_state(self.N)\n            yield self.backward(zero)\n\nclass Circuit', '        zero = zero_state(self.N)\n        for _ in range(nsample):\n            yield self.backward(zero)\n\nclass Circuit', ['R2.povm'])
M('c19-povm-forward', ['C19'], PC, '        for _ in range(nsample):\n            zero = zero_state(self.N)\n            yield self.backward(zero)\n\nclass Circuit', '        for _ in range(nsample):\n            zero = zero_state(self.N)\n            yield self.forward(zero)\n\nclass Circuit', ['R2.povm'])
M('c19-binrepr', ['C19'], PU, "    return numpy.flip(bins, axis=-1)[...,-width:]", "    return numpy.flip(bins, axis=-1)[...,:width]", ['R12.bits'])
M('c19-numpy-int', ['C19'], PU, '.astype(int) if width is None else width', '.astype(numpy.int) if width is None else width', ['R1b'])

# ------------------------------------------------------------------ C11
M('c11-cnot-rows', ['C11'], PC, 'gs = np.array([[1,0,1,0],[0,1,0,0],[0,0,1,0],[0,1,0,1]])', 'gs = np.array([[1,0,1,0],[0,1,0,0],[0,1,0,1],[0,0,1,0]])', ['R12'])
M('c11-cnot-orient', ['C11'], PC, '    if qubits[0]<qubits[1]:\n        f_map = CliffordMap(gs = np.array([[1,0,1,0]', '    if qubits[0]>qubits[1]:\n        f_map = CliffordMap(gs = np.array([[1,0,1,0]', ['R12.textbook'])
M('c11-s-phase', ['C11'], PC, 'f_map = CliffordMap(gs = np.array([[1,1],[0,1]]),ps = np.array([0,0]))\n    gate.set_forward_map(f_map)\n    return gate\ndef X', 'f_map = CliffordMap(gs = np.array([[1,1],[0,1]]),ps = np.array([0,2]))\n    gate.set_forward_map(f_map)\n    return gate\ndef X', ['R12.textbook'])
M('c11-h', ['C11'], PC, 'f_map = CliffordMap(gs = np.array([[0,1],[1,0]]),ps = np.array([0,0]))\n    gate.set_forward_map(f_map)\n    return gate\ndef S', 'f_map = CliffordMap(gs = np.array([[0,1],[1,1]]),ps = np.array([0,0]))\n    gate.set_forward_map(f_map)\n    return gate\ndef S', ['R12'])
M('c11-z', ['C11'], PC, 'f_map = CliffordMap(gs = np.array([[1,0],[0,1]]),ps = np.array([2,0]))\n    gate.set_forward_map(f_map)\n    return gate\ndef C', 'f_map = CliffordMap(gs = np.array([[1,0],[0,1]]),ps = np.array([0,2]))\n    gate.set_forward_map(f_map)\n    return gate\ndef C', ['R12.textbook'])
M('c11-c6', ['C11'], PC, '    elif num == 6:\n        f_map = CliffordMap(gs = np.array([[1,0],[0,1]]),ps = np.array([2,0]))', '    elif num == 6:\n        f_map = CliffordMap(gs = np.array([[1,0],[0,1]]),ps = np.array([0,2]))', ['R12.distinct'])
M('c11-dup-index', ['C11'], PC, '    elif num == 17:', '    elif num == 16:', ['R12.index'])
M('c11-invalid-table', ['C11'], PC, '    elif num == 9:\n        f_map = CliffordMap(gs = np.array([[1,1],[1,0]]),ps = np.array([0,2]))', '    elif num == 9:\n        f_map = CliffordMap(gs = np.array([[1,1],[1,1]]),ps = np.array([0,2]))', ['R12.valid'])
M('c11-odd-phase', ['C11'], PC, '    elif num == 9:\n        f_map = CliffordMap(gs = np.array([[1,1],[1,0]]),ps = np.array([0,2]))', '    elif num == 9:\n        f_map = CliffordMap(gs = np.array([[1,1],[1,0]]),ps = np.array([0,1]))', ['R12.valid'])
M('c11-arity', ['C11'], PC, '    if len(qubits)!=1:\n        raise ValueError("Hadmand gate only acts on a single qubit.")', '    if len(qubits)>2:\n        raise ValueError("Hadmand gate only acts on a single qubit.")', ['R11.arity'])
M('c11-range', ['C11'], PC, '    else:\n        raise ValueError("There are only 24 single qubit Clifford gate. Input number exceed 0-23.")', '    else:\n        f_map = CliffordMap(gs = np.array([[1,0],[0,1]]),ps = np.array([0,0]))', ['R11.index'])
M('c11-wiring', ['C11'], PC, '        f_map = CliffordMap(gs = np.array([[1,0,0,0],[0,1,0,1],[1,0,1,0],[0,0,0,1]]),ps = np.array([0,0,0,0]))\n    gate.set_forward_map(f_map)', '        f_map = CliffordMap(gs = np.array([[1,0,0,0],[0,1,0,1],[1,0,1,0],[0,0,0,1]]),ps = np.array([0,0,0,0]))\n    gate.set_backward_map(f_map)', ['R12.wiring'])
B('c11-benign-chain', ['C11'], PC, '    if num == 0:\n        f_map = CliffordMap(gs = np.array([[1,0],[1,1]]),ps = np.array([0,0]))\n    elif num == 1:', '    if num in (0,):\n        f_map = CliffordMap(gs = np.array([[1,0],[1,1]]),ps = np.array([0, 0]))\n    elif num == 1:')
B('c11-benign-cnot', ['C11'], PC, '    if qubits[0]<qubits[1]:\n        f_map = CliffordMap(gs = np.array([[1,0,1,0]', '    if not qubits[0]>=qubits[1]:\n        f_map = CliffordMap(gs = np.array([[1,0,1,0]')

# hoisted row boundary: stale when computed before the observable loop, fine when recomputed for every observable
CASES.append({'id': 'c06-stale-boundary', 'props': ['C06', 'C05'], 'kind': 'mutant', 'rules': ['R9.stale'], 'edits': [
    (PU, '    log2prob = 0.\n    for k in range(L): # for each observable gs_obs[k]\n        update = False', '    log2prob = 0.\n    na = N + r\n    for k in range(L): # for each observable gs_obs[k]\n        update = False', SM),
    (PU, 'if j < N + r: # if gs_stb[j] is not an active destabilizer', 'if j < na: # if gs_stb[j] is not an active destabilizer', SM)]})
CASES.append({'id': 'c06-benign-fresh-boundary', 'props': ['C06', 'C05'], 'kind': 'benign', 'edits': [
    (PU, '        p = 0 # pointer\n        ga[:] = 0', '        p = 0 # pointer\n        na = N + r\n        ga[:] = 0', SM),
    (PU, 'if j < N + r: # if gs_stb[j] is not an active destabilizer', 'if j < na: # if gs_stb[j] is not an active destabilizer', SM)]})

# scan priority of the pivot search (F15)
M('c06-scan-order', ['C06'], PU, '            j = (jj + r) % N if jj < N else jj\n', '            j = jj\n', ['R9.priority'], SM)
M('c06-scan-order-rev', ['C06'], PU, '            j = (jj + r) % N if jj < N else jj\n', '            j = 2*N - 1 - jj\n', ['R9'], SM)


# ------------------------------------------------------------------ changes written by independent sub-agents (seeded/)
def _load_seeded():
    import glob, json, os
    here = os.path.dirname(os.path.dirname(os.path.abspath(__file__)))
    for meta_path in sorted(glob.glob(os.path.join(here, 'seeded', '*', 'meta.json'))):
        meta = json.load(open(meta_path))
        props = sorted(meta.get('reported_by', {}))
        if not props:
            continue
        CASES.append({'id': 'seeded-' + meta['id'], 'props': props, 'kind': 'mutant', 'rules': None,
                      'edits': [('PATCH', os.path.join(os.path.dirname(meta_path), 'patch.diff'))]})


_load_seeded()

# ------------------------------------------------------------------ small utilities
M('c09-maskfn-offbyone', ['C09'], PU, '    mask[numpy.array(qubits)] = True\n    return mask', '    mask[numpy.array(qubits)-1] = True\n    return mask', ['R13.maskfn'])
M('c09-maskfn-len', ['C09', 'C18'], PU, '    mask = numpy.zeros(N, dtype=numpy.bool_)\n    mask[numpy.array(qubits)] = True', '    mask = numpy.zeros(N+1, dtype=numpy.bool_)\n    mask[numpy.array(qubits)] = True', ['R13.maskfn'])
M('c06-stabilizers-prop', ['C06', 'C14'], PS, '        return self[self.r:self.N]', '        return self[0:self.N]', ['R13.active'])
M('c06-measure-state-obs', ['C06'], PS, '        if isinstance(obs, StabilizerState):\n            obs = obs.stabilizers\n        self.gs, self.ps, self.r, out, log2prob', '        if isinstance(obs, StabilizerState):\n            obs = obs[:obs.N]\n        self.gs, self.ps, self.r, out, log2prob', ['R13.active'])
M('c20-default-phase', ['C20'], PP, '        self.p = 0 if p is None else p', '        self.p = 0 if not p else p % 2', ['R12.defaults'])
M('c20-paulis-phase', ['C20'], PP, '    ps = numpy.array([obj.p for obj in objs])', '    ps = numpy.array([0 for obj in objs])', ['R12.defaults'])
M('c02-aslist-phase', ['C02', 'C09'], PP, "        gs = numpy.expand_dims(self.g, 0)\n        ps = numpy.array([self.p], dtype=numpy.int_)\n        return PauliList(gs, ps)", "        gs = numpy.expand_dims(self.g, 0)\n        return PauliList(gs)", ['R6.aslist'])
M('dep-c09-combine', ['C09', 'C10', 'C19', 'C12', 'C04'], PU, 'ipow(gs_out[j_out], gs_in[j_in]))%4', 'ipow(gs_in[j_in], gs_out[j_out]))%4', ['R7c'])
M('dep-c14-coin', ['C14', 'C19'], PU, '            ps_stb[p] = 2 * numpy.random.randint(2)', '            ps_stb[p] = 2 * numpy.random.randint(3)', ['R15', 'R11'])
M('dep-c18-rotate', ['C18', 'C10', 'C05'], PU, 'ps[j] = (ps[j] + p + 1 + ipow(gs[j], g))%4', 'ps[j] = (ps[j] + p + 3 + ipow(gs[j], g))%4', ['R7c'])

# ------------------------------------------------------------------ twins of the round-2 rules (correct versions of the same refactors)
B('r2-benign-take-iterative-tc', ['C09', 'C13', 'C18'], TC,
  "        if self.prev_layer is None: # if I have no previous layer\n            self.gates.append(gate) # I will take the gate\n        else: # if I have a previous layer, check it\n            if self.prev_layer.independent_from(gate): # if independent (not overlapping)\n                self.prev_layer.take(gate) # previous layer take the gate\n            else: # if not independent\n                self.gates.append(gate) # I will have to keep the gate\n",
  "        layer = self\n        while layer.prev_layer is not None and layer.prev_layer.independent_from(gate):\n            layer = layer.prev_layer\n        layer.gates.append(gate)\n")
M('r2-take-iterative-tc-wrong-layer', ['C09', 'C13', 'C18'], TC,
  "        if self.prev_layer is None: # if I have no previous layer\n            self.gates.append(gate) # I will take the gate\n        else: # if I have a previous layer, check it\n            if self.prev_layer.independent_from(gate): # if independent (not overlapping)\n                self.prev_layer.take(gate) # previous layer take the gate\n            else: # if not independent\n                self.gates.append(gate) # I will have to keep the gate\n",
  "        layer = self\n        while layer.prev_layer is not None and layer.independent_from(gate):\n            layer = layer.prev_layer\n        layer.gates.append(gate)\n", ['R11.take'])
B('r2-benign-circuit-take-scan', ['C09', 'C18'], PC,
  "            self.last_layer.take(gate) # the last layer takes the gate\n",
  "            target = self.last_layer\n            for layer in self.layers_backward():\n                if layer.independent_from(gate):\n                    target = layer\n                else:\n                    break\n            target.gates.append(gate)\n", 'CliffordCircuit.take')
M('r2-circuit-take-scan-no-break', ['C09', 'C18'], PC,
  "            self.last_layer.take(gate) # the last layer takes the gate\n",
  "            target = self.last_layer\n            for layer in self.layers_backward():\n                if layer.independent_from(gate):\n                    target = layer\n            target.gates.append(gate)\n", ['R11.take'], 'CliffordCircuit.take')
B('r2-benign-copy-prev-pointer', ['C09', 'C17', 'C13'], TC,
  "        for i, layer in enumerate(self.layers_forward()):\n            new_layer = layer.copy()\n            if i == 0:\n                circ.first_layer = new_layer\n                circ.last_layer = new_layer\n            else:\n                circ.last_layer.next_layer = new_layer\n                new_layer.prev_layer = circ.last_layer\n                circ.last_layer = new_layer\n",
  "        prev = None\n        for layer in self.layers_forward():\n            new_layer = layer.copy()\n            if prev is None:\n                circ.first_layer = new_layer\n            else:\n                prev.next_layer = new_layer\n                new_layer.prev_layer = prev\n            prev = new_layer\n            circ.last_layer = new_layer\n", 'CliffordCircuit.copy')
M('r2-copy-prev-pointer-stuck', ['C09', 'C17', 'C13'], TC,
  "        for i, layer in enumerate(self.layers_forward()):\n            new_layer = layer.copy()\n            if i == 0:\n                circ.first_layer = new_layer\n                circ.last_layer = new_layer\n            else:\n                circ.last_layer.next_layer = new_layer\n                new_layer.prev_layer = circ.last_layer\n                circ.last_layer = new_layer\n",
  "        prev = None\n        for layer in self.layers_forward():\n            new_layer = layer.copy()\n            if prev is None:\n                circ.first_layer = prev = new_layer\n            else:\n                prev.next_layer = new_layer\n                new_layer.prev_layer = prev\n            circ.last_layer = new_layer\n", ['R10.link'], 'CliffordCircuit.copy')
M('r2-copy-missing-prev-link', ['C09', 'C17'], PC,
  "                circ.last_layer.next_layer = new_layer\n                new_layer.prev_layer = circ.last_layer\n                circ.last_layer = new_layer\n",
  "                circ.last_layer.next_layer = new_layer\n                circ.last_layer = new_layer\n", ['R10.link'], 'CliffordCircuit.copy')
B('r2-benign-buffer-cleared-by-hand', ['C14'], PC,
  "                for ii in range(1,len(measure_result)+1):\n                    tmp = list(np.zeros(self.N).astype(int))\n                    tmp[self.qubits[-ii]]=3\n                    tmp_res = int((1-measure_result[-ii])/2)\n                    prob = obj.postselect(pauli(tmp), tmp_res)\n",
  "                tmp = list(np.zeros(self.N).astype(int))\n                for ii in range(1,len(measure_result)+1):\n                    tmp[self.qubits[-ii]]=3\n                    tmp_res = int((1-measure_result[-ii])/2)\n                    prob = obj.postselect(pauli(tmp), tmp_res)\n                    tmp[self.qubits[-ii]]=0\n")
B('r2-benign-sampler-asarray', ['C16'], PU,
  "            random_clifford_(gs[2:,2:])\n            for g in reversed(gens):", "            random_clifford_(gs[2:,2:])\n            gs = numpy.asarray(gs)\n            for g in reversed(gens):")
B('r2-benign-coin-named-in-loop', ['C06', 'C14', 'C16'], PU,
  "            ps_stb[p] = 2 * numpy.random.randint(2)\n", "            coin = 2 * numpy.random.randint(2)\n            ps_stb[p] = coin\n", 'stabilizer_measure')
B('r2-benign-pivot-tuple-correct', ['C18', 'C16'], PU,
  "                g[2*i] = (g[2*i] + g[2*i+1])%2\n                g[2*i+1] = (g[2*i+1] + g[2*i])%2\n", "                g[2*i], g[2*i+1] = (g[2*i] + g[2*i+1])%2, g[2*i]\n", 'pauli_diagonalize1')
M('r2-pivot-swap-only', ['C18'], PU,
  "                g[2*i] = (g[2*i] + g[2*i+1])%2\n                g[2*i+1] = (g[2*i+1] + g[2*i])%2\n", "                g[2*i], g[2*i+1] = g[2*i+1], g[2*i]\n", ['R8.pivot'], 'pauli_diagonalize1')
B('r2-benign-outer', ['C01', 'C13', 'C15'], TU, 'cs = (cs1.unsqueeze(1)*cs2.unsqueeze(0)).view(-1,)', 'cs = torch.outer(cs1, cs2).view(-1,)')
B('r2-benign-paulis-fastpath', ['C20'], PP,
  "    # otherwise construct data for Pauli operators\n    objs = [pauli(obj, N = N) for obj in objs]",
  "    if isinstance(objs, numpy.ndarray) and objs.ndim == 2 and objs.shape[1] > 1 and (objs[:,-1] >= 4).all() and (objs[:,:-1] < 4).all():\n        codes = objs[:,:-1]\n        ps = numpy.array([0, 2, 1, 3])[objs[:,-1] - 4]\n        gs = numpy.zeros((codes.shape[0], 2*codes.shape[1]), dtype=numpy.int_)\n        gs[:,0::2] = (codes == 1) | (codes == 2)\n        gs[:,1::2] = (codes == 2) | (codes == 3)\n        return PauliList(gs, ps)\n    # otherwise construct data for Pauli operators\n    objs = [pauli(obj, N = N) for obj in objs]")
M('r2-paulis-fastpath-swapped', ['C20'], PP,
  "    # otherwise construct data for Pauli operators\n    objs = [pauli(obj, N = N) for obj in objs]",
  "    if isinstance(objs, numpy.ndarray) and objs.ndim == 2 and objs.shape[1] > 1 and (objs[:,-1] >= 4).all() and (objs[:,:-1] < 4).all():\n        codes = objs[:,:-1]\n        ps = numpy.array([0, 1, 2, 3])[objs[:,-1] - 4]\n        gs = numpy.zeros((codes.shape[0], 2*codes.shape[1]), dtype=numpy.int_)\n        gs[:,0::2] = (codes == 1) | (codes == 2)\n        gs[:,1::2] = (codes == 2) | (codes == 3)\n        return PauliList(gs, ps)\n    # otherwise construct data for Pauli operators\n    objs = [pauli(obj, N = N) for obj in objs]", ['R12.reader'])
M('r2-coin-shared', ['C06', 'C16'], PU,
  "    log2prob = 0.\n    for k in range(L): # for each observable gs_obs[k]\n        update = False", "    log2prob = 0.\n    bit = numpy.random.randint(2)\n    for k in range(L): # for each observable gs_obs[k]\n        update = False", ['R15.fresh', 'R11'], 'stabilizer_measure') if False else None
CASES.append({'id': 'r2-coin-shared', 'props': ['C06', 'C16'], 'kind': 'mutant', 'rules': ['R15.fresh'], 'edits': [
    (PU, "    log2prob = 0.\n    for k in range(L): # for each observable gs_obs[k]\n        update = False", "    log2prob = 0.\n    bit = numpy.random.randint(2)\n    for k in range(L): # for each observable gs_obs[k]\n        update = False", 'stabilizer_measure'),
    (PU, "            ps_stb[p] = 2 * numpy.random.randint(2)\n", "            ps_stb[p] = 2 * bit\n", 'stabilizer_measure')]})

# ------------------------------------------------------------------ round 3: rules decided by execution
_BR_OLD = "    dt0 = ints.dtype\n    dt1 = numpy.dtype((dt0, [('bytes','u1',dt0.itemsize)]))\n    bins = numpy.unpackbits(ints.view(dtype=dt1)['bytes'], axis=-1, bitorder='little')\n    return numpy.flip(bins, axis=-1)[...,-width:]"
B('r3-benign-binary-repr-shift-mask', ['C19', 'C12'], PU, _BR_OLD, "    return (ints[..., numpy.newaxis] >> numpy.arange(width)[::-1]) & 1")
M('r3-binary-repr-shift-ascending', ['C19', 'C12'], PU, _BR_OLD, "    return (ints[..., numpy.newaxis] >> numpy.arange(width)) & 1", ['R12.bits'])
M('r3-binary-repr-big-no-flip', ['C19'], PU, "axis=-1, bitorder='little')\n    return numpy.flip(bins, axis=-1)[...,-width:]", "axis=-1)\n    return bins[...,-width:]", ['R12.bits'])
B('r3-benign-condense-vector', ['C02', 'C18'], PU, "    mask = numpy.zeros(N, dtype=numpy.bool_)\n    for i in range(N):\n        if g[2*i] != 0 or g[2*i+1] != 0:\n            mask[i] = True\n", "    mask = (g[0::2] | g[1::2]) != 0\n")
M('r3-condense-xor', ['C02', 'C18'], PU, "    mask = numpy.zeros(N, dtype=numpy.bool_)\n    for i in range(N):\n        if g[2*i] != 0 or g[2*i+1] != 0:\n            mask[i] = True\n", "    mask = (g[0::2] ^ g[1::2]) != 0\n", ['R12.support'])
B('r3-benign-indep-isdisjoint', ['C09'], PC, "        return len(set(self.qubits) & set(other_gate.qubits))==0", "        mine = set(self.qubits)\n        for q in other_gate.qubits:\n            if q in mine:\n                return False\n        return True")
M('r3-indep-endpoint-shortcut', ['C09'], PC, "        return len(set(self.qubits) & set(other_gate.qubits))==0", "        if max(self.qubits) < other_gate.qubits[0]:\n            return True\n        return len(set(self.qubits) & set(other_gate.qubits))==0", ['R11.indep'])
B('r3-benign-reset-both-maps-in-take', ['C10'], PC, "        if max(gate.qubits)>=self.N:\n            raise ValueError(\"The gate acting on unregistered qubits!\")\n        if self.last_layer.independent_from(gate): # if last layer commute with the new gate",
  "        if max(gate.qubits)>=self.N:\n            raise ValueError(\"The gate acting on unregistered qubits!\")\n        self.forward_map = None\n        self.backward_map = None\n        if self.last_layer.independent_from(gate): # if last layer commute with the new gate")

B('r3-benign-list-repr-map', ['C20'], PP, "        return '\\n'.join([repr(pauli) for pauli in self])", "        return '\\n'.join(map(repr, self))")
B('r3-benign-list-repr-loop', ['C20'], PP, "        return '\\n'.join([repr(pauli) for pauli in self])", "        lines = []\n        for k in range(len(self)):\n            lines.append(str(self[k]))\n        return '\\n'.join(lines)")
M('r3-list-repr-skips-first', ['C20'], PP, "        return '\\n'.join([repr(pauli) for pauli in self])", "        return '\\n'.join([repr(self[k]) for k in range(1, len(self))])", ['R12.listrepr'])
_COPY_OLD = "        for i, layer in enumerate(self.layers_forward()):\n            new_layer = layer.copy()\n            if i == 0:\n                circ.first_layer = new_layer\n                circ.last_layer = new_layer\n            else:\n                circ.last_layer.next_layer = new_layer\n                new_layer.prev_layer = circ.last_layer\n                circ.last_layer = new_layer\n"
B('r4-benign-copy-comprehension-zip', ['C09', 'C17', 'C10'], PC, _COPY_OLD,
  "        layers = [layer.copy() for layer in self.layers_forward()]\n        for a, b in zip(layers[:-1], layers[1:]):\n            a.next_layer = b\n            b.prev_layer = a\n        circ.first_layer, circ.last_layer = layers[0], layers[-1]\n", 'CliffordCircuit.copy')
M('r4-copy-comprehension-reversed', ['C09', 'C17'], PC, _COPY_OLD,
  "        layers = [layer.copy() for layer in self.layers_backward()]\n        for a, b in zip(layers[:-1], layers[1:]):\n            a.next_layer = b\n            b.prev_layer = a\n        circ.first_layer, circ.last_layer = layers[0], layers[-1]\n", ['R10.link'], 'CliffordCircuit.copy')
B('r4-benign-monomial-matmul-inline', ['C01', 'C15'], PP, "        if isinstance(other, (Pauli, PauliMonomial, PauliPolynomial)):\n            return self.as_polynomial() @ other.as_polynomial()\n        else:\n            raise NotImplementedError('matmul is not implemented for between {} and {}'.format(type(self).__name__, type(other).__name__))\n\n    def set_c(self, c):",
  "        if isinstance(other, PauliPolynomial):\n            return self.as_polynomial() @ other\n        elif isinstance(other, Pauli):\n            g = self.g ^ other.g\n            p = (self.p + other.p + ipow(self.g, other.g)) & 3\n            c = self.c * (other.c if isinstance(other, PauliMonomial) else 1)\n            return PauliMonomial(g, p).set_c(c).as_polynomial()\n        else:\n            raise NotImplementedError('matmul is not implemented for between {} and {}'.format(type(self).__name__, type(other).__name__))\n\n    def set_c(self, c):")
B('r4-benign-take-resets-both-via-helper', ['C10'], PC, "    def take(self, gate):\n        if max(gate.qubits)>=self.N:\n            raise ValueError(\"The gate acting on unregistered qubits!\")\n        if self.last_layer.independent_from(gate): # if last layer commute with the new gate",
  "    def _invalidate(self):\n        self.forward_map = None\n        self.backward_map = None\n\n    def take(self, gate):\n        if max(gate.qubits)>=self.N:\n            raise ValueError(\"The gate acting on unregistered qubits!\")\n        self._invalidate()\n        if self.last_layer.independent_from(gate): # if last layer commute with the new gate")
# ------------------------------------------------------------------ R19 mixed-library dataflow (torch port)
M('r19-embed-tensor-mask', ['C03', 'C09', 'C10', 'C13', 'C18'], TS, '        mask2 = numpy.repeat(numpy.array(mask), 2)', '        mask2 = numpy.repeat(mask, 2)', ['R19'])
M('r19-gate-tensor-qubits', ['C13', 'C18', 'C09'], TC, '    qubits_cond = qubits_cond.tolist() # plain integer qubit indices\n', '', ['R19'])
B('r19-benign-embed-torch-ops', ['C03', 'C09', 'C10', 'C13', 'C18'], TS,
  '        mask2 = numpy.repeat(numpy.array(mask), 2)\n        self.gs[numpy.ix_(mask2, mask2)] = small_map.gs\n        self.ps[mask2] = small_map.ps',
  '        mask2 = numpy.repeat(mask.cpu().numpy(), 2)\n        self.gs[numpy.ix_(mask2, mask2)] = small_map.gs\n        self.ps[mask2] = small_map.ps')
B('r19-benign-gate-int-list', ['C13', 'C18', 'C09'], TC, '    qubits_cond = qubits_cond.tolist() # plain integer qubit indices\n', '    qubits_cond = [int(q) for q in qubits_cond]\n')

# ------------------------------------------------------------------ R7.self (phase accumulation that adds ipow of an operand with itself)
M('r7self-tc-trace-sum-of-phases', ['C07', 'C13'], TU,
  "        _, pa = pauli_combine(temp_acqs[:N].unsqueeze(0), gs_stb[:N], ps_stb) # phase of the ordered product of the selected stabilizers\n",
  "        ga = torch.cumsum(temp_acqs.unsqueeze(-1)*torch.cat((ps_stb, ps_stb)).unsqueeze(0), dim=-1) % 2\n        pa = torch.sum(torch.cat((ps_stb, ps_stb))*temp_acqs + ipow(ga, ga), dim=0) % 4\n", ['R7.self'])
M('r7self-py-expect', ['C07'], PU, 'pa = (pa + ps_stb[j-N] + ipow(ga, gs_stb[j-N]))%4', 'pa = (pa + ps_stb[j-N] + ipow(ga, ga))%4', ['R7'], 'stabilizer_expect')


# ------------------------------------------------------------------ behaviour-preserving refactorings written by independent sub-agents
def _load_refactors():
    """selftest/refactors/*.diff: each was checked by its author against recorded reference outputs (>= 300 cases, both random
    generators seeded) and keeps the 58 stable tests green; every claimed check must stay silent on each."""
    import glob, os
    here = os.path.dirname(os.path.abspath(__file__))
    allp = ['C%02d' % i for i in range(1, 21) if i != 8]
    for p in sorted(glob.glob(os.path.join(here, 'refactors', '*.diff'))):
        CASES.append({'id': 'refactor-' + os.path.basename(p)[:-5], 'props': allp, 'kind': 'benign', 'edits': [('PATCH', p)]})
    # rewrites that replace an algorithm (recursion by iteration, a kernel by a different formula, an if chain by a table):
    # some rule declines to read them (exit 2); none may report a violation
    for p in sorted(glob.glob(os.path.join(here, 'refactors_deep', '*.diff'))):
        CASES.append({'id': 'deep-' + os.path.basename(p)[:-5], 'props': allp, 'kind': 'noviolation', 'edits': [('PATCH', p)]})


_load_refactors()

# ------------------------------------------------------------------ batched resampling of the port (R11.resample)
M('r11-tc-resample-whole-batch', ['C16'], TU,
  "    zero = (g1 == 0).all(-1) # resample every row of g1 that is all zero\n    while zero.any():\n        g1[zero] = torch.randint(0, 2, (int(zero.sum()), 2*N), device=device)\n        zero = (g1 == 0).all(-1)\n",
  "    while (g1 == 0).all(): # resample g1 if it is all zero\n        g1 = torch.randint(0, 2, (L, 2*N), device=device)\n", ['R11.resample'])
B('r11-benign-tc-resample-any-row', ['C16'], TU,
  "    zero = (g1 == 0).all(-1) # resample every row of g1 that is all zero\n    while zero.any():\n        g1[zero] = torch.randint(0, 2, (int(zero.sum()), 2*N), device=device)\n        zero = (g1 == 0).all(-1)\n",
  "    while (g1 == 0).all(dim=-1).any():\n        rows = (g1 == 0).all(dim=-1)\n        g1[rows] = torch.randint(0, 2, (int(rows.sum()), 2*N), device=device)\n")
